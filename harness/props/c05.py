"""
C05 — decoded data re-encodes to a valid, equivalent document; strict encode is sound.

Per case (seeded schema x generated valid instance x converter class x converter options):

  * property on the real code (independent of Lean):  decode -> encode(strict) -> serialise ->
    is_valid; equal element structure / attribute sets / typed values (reference decode of both
    documents); second decode equals the first;
  * strict-encode soundness: the decoded data is mutated (drop / duplicate / retype / reorder /
    wrong container) and `encode(validation='strict')` must raise a validation error or return a
    tree that the schema accepts;
  * correspondence implementation <-> Lean model (XsVerif/Model/Converters.lean: JsonML,
    Model/DataElement.lean: DataElementConverter, Model/DefaultConv.lean: the default convention with
    preserve_root=False): every real
    `element_decode` / `element_encode` call is captured (converter subclasses that only record) and
    compared with the model's one-level function; hand-made one-level inputs (`direct_cases`: the witnesses
    of the `_counterexample` theorems, objects that are not DataElements, adjacent cdata parts, list values,
    foreign keys) go through the real methods and the model as well; the whole captured ElementData tree is sent through
    the model's `decTree`/`encTree` and compared with the real decode result and the ElementData tree of
    the real encode; `iter_unordered_content` / `iter_collapsed_content` are replayed against the model
    with the recorded behaviour of the real ModelVisitor;
  * nested namespace declarations: most instances with children are explored a second time, re-serialised
    (validity-preserving) with random namespace (re)declarations on non-root elements at any depth
    (`lib_c05.serialize_nested`: new prefixes, re-bound prefixes, default namespace bound / re-bound / un-declared,
    names written with any in-scope prefix).  For these the mapper is no longer one function per document: the
    name mapping of every call is recorded at call time, filed under the lexical scope of the call, must be ONE
    mapping per scope (`scope_tables`), and the document goes through the scoped recursion
    `decTreeS`/`encTreeS` of the model (JsonML, DataElement);
  * repeated groups: nested groups that occur 3..6 times, with a single-occurrence head and optional followers,
    often instantiated without the optional members (histogram keys doc:group-occurrences>=3…): runs of same-named
    siblings that come from occurrences of the GROUP, which the encoders of the collapsing conventions must hand
    back to the model one occurrence at a time (`iter_collapsed_content` buffers and re-admits them).  Same-named
    siblings must keep their relative order: checked on the round trip (finding C05-F9 is matched only when the
    order per name is intact) and directly on `iter_collapsed_content` for the content of in-scope documents.
"""
from __future__ import annotations

import copy
import json
from collections.abc import MutableMapping, MutableSequence
from pathlib import Path
from typing import Any, Optional
from xml.etree import ElementTree as ET

from harness.core import Ctx, Driver, VERIF
from harness import lib_c05 as L

PROPS = 'XsVerif.Props.C05'
AUDIT = 'XsVerif.Audit.C05'
LEAN_TARGETS = ['XsVerif.Props.C05', 'XsVerif.Props.C05Encode', 'drv_c05', 'drv_c01']
LEANCHECK = ['XsVerif.Model.Converters', 'XsVerif.Model.ContentOrder', 'XsVerif.Model.DataElement',
             'XsVerif.Model.DefaultConv', 'XsVerif.Lemmas.Tree', 'XsVerif.Lemmas.DataElement',
             'XsVerif.Lemmas.DefaultConv', 'XsVerif.Lemmas.JsonMLScoped', 'XsVerif.Props.C05',
             'XsVerif.Props.C05Encode']
RULE = ('a case is one (schema seed, instance, converter class, converter options[, mutation]); non-trivial = the '
        'document has at least one child element or attribute and the converter took a non-default branch '
        '(attributes dict, text, cdata, list value, repeated name collapsed into a list) — tagged by the branch '
        'set computed from the captured ElementData; distinct by canonical JSON of (xsd, xml, converter, options, '
        'mutation); direct/witness cases are hand-made one-level ElementData / data objects for the DataElement and '
        'default converters (always non-trivial: they exist to reach error and collision branches); the histogram '
        'keys nsdecl:* give the distribution of the nested-namespace-declaration dimension (depth of nesting of '
        'declaring elements, kinds of (re)declaration, documents in which a later element leaves two or more '
        'declaring elements at once)')
TRUSTED = ['typed leaf values are opaque atoms in the model (kind, lexical); simple-type encoders/decoders are '
           'exercised on the real code only (C02 owns them)',
           'map_qname/unmap_qname are parameters of the theorems (left-inverse hypothesis; in the scoped theorems a '
           'family of mappers indexed by the namespace declarations in scope); the tables used by the driver are '
           'dumped from the real converter at every call and must be one table per lexical scope (C17 owns the '
           'namespace mapper: how a scope determines the mapping is not modelled here)',
           'the ModelVisitor is a parameter of the permutation theorems; in the correspondence its behaviour is '
           'recorded from the real visitor (C01 owns the visitor)',
           'default convention: preserve_root=True (the root wrapper) is not modelled (such cases are skipped in the '
           'model comparison and counted); dict_class/list_class are the built-in ones; a child without a declaration '
           '(keep_unknown) is not an Item of the model',
           'DataElementConverter: map_attribute_names=True (default) only']
ASSUMPTIONS = ['round trip is evaluated for valid documents only (generated instances that the schema rejects are '
               'counted and skipped)',
               'for the collapsing conventions (default/BadgerFish/GData) the equality clauses are required only '
               'when same-named children are contiguous in every element of the instance; position of mixed text '
               'between children is not part of "element structure" for these conventions',
               'for the collapsing conventions "same-named children are contiguous" is read on the dictionary keys: '
               'a child is named by its prefixed name in its own namespace context, so the equality clauses are not '
               'required when a member of a group of same-named siblings re-declares a prefix of / for its own '
               'namespace (the members become two keys, as for non-contiguous names); validity of the re-encoded '
               'document is still required',
               'for the conventions that write attributes without a prefix (GData; default with attr_prefix="") the '
               'equality clauses are not required when an element has an attribute and a child element with the same '
               'local name (one dictionary key for both: theorem default_roundtrip_counterexample_key_collision)',
               'for a document with namespace declarations below the root "decodes to the same data again" is read '
               'modulo the place of the declarations: the data of the second decode is compared with the data of the '
               'same document written with the root declarations only (the serialiser of the harness writes every '
               'declaration at the root); QName-valued content is not generated']

FINDINGS_FILE = VERIF / 'notes' / 'findings' / 'C05.json'
LOG: list = []


# ------------------------------------------------------------------------------------ recorders

_REC: dict = {}
SNAPSHOT = False


def recorder(base):
    """subclass of a converter class that records every element_decode / element_encode call"""
    if base in _REC:
        return _REC[base]
    from xmlschema.converters.base import stackable

    class Rec(base):  # type: ignore
        __slots__ = ()

        def element_decode(self, data, xsd_element, xsd_type=None, level=0):
            # decoded values are mutated after the call (DataElement: the parent sets `.tail`; default convention:
            # `result.append(value)` of base.py:414 appends to a list that IS the value of an earlier child):
            # snapshot what goes in and out
            snap = None
            if SNAPSHOT:
                snap = {'in': [L.canon(it[1]) for it in (data.content or []) if not isinstance(it[0], int)],
                        'text': L.canon(data.text)}
            r = super().element_decode(data, xsd_element, xsd_type, level)
            if snap is not None:
                snap['out'] = L.canon(r)
            # what `map_qname` answers in the namespace context of THIS call (the contexts of nested declarations
            # are gone when the log is read)
            try:
                tabs = {'tag': self.map_qname(data.tag), 'attrs': attr_keys(self, data.attributes)}
            except Exception:
                tabs = None
            LOG.append(('dec', data, xsd_element, xsd_type or xsd_element.type, level, r,
                        self.get_effective_xmlns(data.xmlns, level, xsd_element), self, snap, tabs))
            return r

        def element_encode(self, obj, xsd_element, level=0):
            try:
                r = super().element_encode(obj, xsd_element, level)
            except Exception as e:
                LOG.append(('encerr', obj, xsd_element, level, e, unmap_tables(self, obj, xsd_element)))
                raise
            LOG.append(('enc', obj, xsd_element, level, r, unmap_tables(self, obj, xsd_element)))
            return r

    if getattr(base.element_decode, 'stackable', False):
        Rec.element_decode = stackable(Rec.element_decode)
    if getattr(base.element_encode, 'stackable', False):
        Rec.element_encode = stackable(Rec.element_encode)
    Rec.__name__ = base.__name__
    Rec.__qualname__ = base.__qualname__
    _REC[base] = Rec
    return Rec


def attr_keys(conv, attributes) -> list:
    """[[extended attribute name, key without the attribute prefix]…] as `map_attributes` writes them in the
    namespace context of the call (base.py:237-258: not always `map_qname(name)` — a namespaced attribute is
    never written without prefix)"""
    attributes = list(attributes or [])
    if not attributes:
        return []
    pre = getattr(conv, 'attr_prefix', None)
    if pre is None:
        return [[k, conv.map_qname(k)] for k, _v in attributes]
    keys = [k for k, _v in conv.map_attributes(attributes)]
    if len(keys) != len(attributes):
        return [[k, conv.map_qname(k)] for k, _v in attributes]
    return [[k, mk[len(pre):]] for (k, _v), mk in zip(attributes, keys)]


def name_candidates(obj) -> set:
    out = set()

    def keys(d):
        for k in d:
            if isinstance(k, str):
                out.add(k)
                for pre in ('@', '_'):
                    if k.startswith(pre) and len(k) > 1:
                        out.add(k[1:])
    if hasattr(obj, 'attrib') and isinstance(getattr(obj, 'attrib'), MutableMapping):
        keys(obj.attrib)                      # DataElement
    if isinstance(obj, MutableMapping):
        keys(obj)
        for v in obj.values():
            if isinstance(v, MutableMapping):
                keys(v)
    elif isinstance(obj, MutableSequence):
        for i, e in enumerate(obj):
            if i == 0 and isinstance(e, str):
                out.add(e)
            if isinstance(e, MutableSequence) and len(e) and isinstance(e[0], str):
                out.add(e[0])
            if i == 1 and isinstance(e, MutableMapping):
                keys(e)
    return out


def unmap_tables(conv, obj, xsd_element) -> dict:
    """what the real `unmap_qname` answers, in the namespace context of this call, for every string of the
    data that can be used as a name at this level (the mapper is a parameter of the model)"""
    tags, attrs = [], []
    special: dict = {}
    kind = type(conv).__name__

    def child(k, x):
        try:
            ext = conv.unmap_qname(k, xmlns=x)
        except Exception:
            return
        if special.setdefault(k, ext) != ext:
            special[k] = None               # one key, two meanings at one level
        tags.append([ext, k])
    kids_x: list = []
    if kind == 'XMLSchemaConverter' and isinstance(obj, MutableMapping):
        # the default convention un-maps the key of EACH child item with the declarations that the item carries
        # (base.py:488-495): [extended, key, declarations] per (key, item)
        for k, v in obj.items():
            if not isinstance(k, str):
                continue
            if isinstance(v, MutableSequence) and v:
                if not any(isinstance(i, (MutableMapping, MutableSequence)) for i in v):
                    continue
                items = list(v)
            else:
                items = [v]
            for it in items:
                try:
                    x = conv.get_xmlns_from_data(it)
                    e = [conv.unmap_qname(k, xmlns=x), k, [[str(p), str(u)] for p, u in (x or [])]]
                except Exception:
                    continue
                if e not in kids_x:
                    kids_x.append(e)
    own = None
    if kind == 'JsonMLConverter' and isinstance(obj, MutableSequence):
        # JsonML un-maps the name of a child with the declarations that the child carries (jsonml.py:126-131)
        own = obj[0] if len(obj) and isinstance(obj[0], str) else None
        for e in list(obj)[1:]:
            if isinstance(e, MutableSequence) and len(e) and isinstance(e[0], str):
                try:
                    x = conv.get_xmlns_from_data(e)
                except Exception:
                    continue
                child(e[0], x)
    conflict = any(v is None for v in special.values())
    for s in sorted(name_candidates(obj)):
        try:
            g = conv.unmap_qname(s)
            if s not in special:
                tags.append([g, s])
            elif s == own and g != special[s]:
                conflict = True             # the element's own name and a child's name: same string, other meaning
            attrs.append([conv.unmap_qname(s, xsd_element.attributes), s])
        except Exception:
            pass
    out = {'tags': tags, 'attrs': attrs}
    if kids_x:
        out['kidsX'] = kids_x
    if conflict:
        out['conflict'] = True
    # for the scoped model: the names that the call un-maps in its own context, and the children's names
    # (un-mapped in the context extended with the child's declarations)
    try:
        out['xmlns'] = [list(x) for x in (conv.get_xmlns_from_data(obj) or [])]
        if kind == 'JsonMLConverter' and isinstance(obj, MutableSequence):
            out['own'] = [own] if own is not None else []
            if len(obj) > 1 and isinstance(obj[1], MutableMapping):
                out['akeys'] = [k for k in obj[1] if isinstance(k, str)]
            out['kids'] = [[conv.unmap_qname(e[0], xmlns=conv.get_xmlns_from_data(e)), e[0],
                            [list(x) for x in (conv.get_xmlns_from_data(e) or [])]]
                           for e in list(obj)[1:]
                           if isinstance(e, MutableSequence) and len(e) and isinstance(e[0], str)]
        elif kind == 'DataElementConverter' and hasattr(obj, 'attrib'):
            out['own'] = []
            out['akeys'] = [k for k in obj.attrib if isinstance(k, str)]
            out['kids'] = []
    except Exception:
        pass
    return out


def conv_classes() -> dict:
    from xmlschema.converters import XMLSchemaConverter, JsonMLConverter, BadgerFishConverter, GDataConverter
    from xmlschema.dataobjects import DataElementConverter
    return {'jsonml': JsonMLConverter, 'dataelement': DataElementConverter, 'default': XMLSchemaConverter,
            'badgerfish': BadgerFishConverter, 'gdata': GDataConverter}


LOSSLESS = ('jsonml', 'dataelement')
MODELLED = ('jsonml', 'dataelement', 'default')


def option_sets(name: str, rng, mixed_text: bool) -> list[dict]:
    """converter options tried for one document"""
    if name == 'default':
        base = {'cdata_prefix': '#'} if mixed_text or rng.random() < 0.5 else {}
        out = [base]
        extra = rng.choice([{'preserve_root': True}, {'force_dict': True}, {'force_list': True},
                            {'preserve_root': True, 'force_list': True}, {'text_key': '#text'},
                            {'attr_prefix': '_'}])
        out.append(dict(base, **extra))
        return out
    out = [{}]
    if rng.random() < 0.3:
        out.append({'process_namespaces': False})
    return out


# ------------------------------------------------------------------------------------ facts / serialisation

class SchemaTable:
    """type facts of the built schema, by introspection (what the converters ask the schema)"""

    def __init__(self):
        self.ids: dict = {}
        self.facts: list = []
        self.keep: list = []

    def type_id(self, xsd_element, xsd_type) -> int:
        key = (id(xsd_type), tuple(sorted(k for k in xsd_element.attributes if k)))
        if key in self.ids:
            return self.ids[key]
        self.keep.append(xsd_type)
        i = len(self.facts)
        self.ids[key] = i
        self.facts.append(None)
        group = xsd_type.model_group
        simple = xsd_type.simple_type is not None
        children = []
        if group is not None:
            from xmlschema.validators import XsdElement
            for e in group.iter_elements():
                if isinstance(e, XsdElement):
                    children.append({'name': e.name, 'ty': self.type_id(e, e.type), 'single': bool(e.is_single()),
                                     'isList': bool(e.type and e.type.is_list())})
        self.facts[i] = {
            'hasGroup': group is not None, 'simple': simple, 'mixed': bool(getattr(xsd_type, 'mixed', False)),
            'emptyContent': (not simple) and not getattr(xsd_type, 'content', True), 'complex': bool(xsd_type.is_complex()),
            'singleGroup': bool(group.is_single()) if group is not None else False,
            'isList': bool(xsd_type.is_list()), 'anyType': xsd_type.name == '{http://www.w3.org/2001/XMLSchema}anyType',
            'attrs': [k for k in xsd_element.attributes if k], 'children': children,
            'isQName': bool(xsd_type.is_qname())}
        return i


def ser_items(content, child_ser) -> Optional[list]:
    """ElementData.content -> items; None when it is not a list of tuples (raw content)"""
    if content is None:
        return []
    if isinstance(content, MutableMapping) or not isinstance(content, (list, tuple)):
        return None
    out = []
    for it in content:
        if not isinstance(it, tuple) or len(it) not in (2, 3):
            return None
        if isinstance(it[0], int):
            out.append({'c': [it[0], L.canon(it[1])]})
        else:
            out.append(child_ser(it))
    return out


class Mapper:
    def __init__(self):
        self.tags: dict = {}
        self.attrs: dict = {}
        self.functional = True

    def add(self, table: dict, ext: str, mapped: str):
        if table.setdefault(ext, mapped) != mapped:
            self.functional = False
        for k, v in table.items():
            if v == mapped and k != ext:
                self.functional = False

    def json(self):
        return {'tags': [[k, v] for k, v in self.tags.items()], 'attrs': [[k, v] for k, v in self.attrs.items()]}


def decode_log_to_tree(log: list, table: SchemaTable, mapper: Mapper):
    """post-order log of element_decode calls -> (root node JSON, list of one-level requests)"""
    stack: list = []
    levels: list = []
    for ent in log:
        if ent[0] != 'dec':
            continue
        _, data, xe, xt, level, result, eff_xmlns, conv, snap, tabs = ent
        ty = table.type_id(xe, xt)
        if tabs is None:
            return None, None
        own = Mapper()                      # the mapper as this call saw it
        for m in (mapper, own):
            m.add(m.tags, data.tag, tabs['tag'])
            for k, mk in tabs['attrs']:
                m.add(m.attrs, k, mk)
        content = data.content or []
        nkids = sum(1 for it in content if not isinstance(it[0], int))
        kids = stack[len(stack) - nkids:] if nkids else []
        if nkids:
            if any(lv != level + 1 for lv in levels[len(levels) - nkids:]):
                return None, None
            del stack[len(stack) - nkids:]
            del levels[len(levels) - nkids:]
        items = []
        items1 = []
        ki = 0
        for it in content:
            if isinstance(it[0], int):
                items.append({'c': [it[0], L.canon(it[1])]})
                items1.append({'c': [it[0], L.canon(it[1])]})
            else:
                kid = kids[ki]
                ki += 1
                single = bool(it[2].is_single()) if it[2] is not None else False
                mapper.add(mapper.tags, kid['tag'], it[0])
                own.add(own.tags, kid['tag'], it[0])    # mapped in the child's context (groups.py:1008-1009)
                items.append({'n': [kid['tag'], single, kid]})
                items1.append({'n': [kid['tag'], single, snap['in'][ki - 1] if snap else L.canon(it[1])]})
        node = {'ty': ty, 'tag': data.tag, 'attrs': [[k, L.canon(v)] for k, v in (data.attributes or [])],
                'xmlns': [list(p) for p in (eff_xmlns or [])], 'items': items}
        if data.text is not None:
            node['text'] = snap['text'] if snap else L.canon(data.text)
        node['_one'] = {'items': items1, 'result': snap['out'] if snap else L.canon(result),
                        'mapper': own.json() if own.functional else None}
        node['_tabs'] = tabs
        stack.append(node)
        levels.append(level)
    if len(stack) != 1:
        return None, None
    return stack[0], None


def strip_private(node: dict) -> dict:
    out = {k: v for k, v in node.items() if not k.startswith('_')}
    out['items'] = [it if 'c' in it else {'n': [it['n'][0], it['n'][1], strip_private(it['n'][2])]}
                    for it in node['items']]
    return out


def iter_nodes(node: dict):
    yield node
    for it in node['items']:
        if 'n' in it:
            yield from iter_nodes(it['n'][2])


def ed_json(ed) -> Optional[dict]:
    """ElementData returned by element_encode -> driver's rendering (None: raw content)"""
    tag, text, content, attributes, xmlns = ed
    items = ser_items(content, lambda it: {'n': [it[0] if isinstance(it[0], str) else repr(it[0]), L.canon(it[1])]})
    out = {'tag': tag, 'attrs': [[k, L.canon(v)] for k, v in (attributes or {}).items()],
           'xmlns': [list(p) for p in (xmlns or [])]}
    if text is not None:
        out['text'] = L.canon(text)
    if items is None:
        out['raw'] = L.canon(content) if not isinstance(content, MutableMapping) else {'unordered': True}
        out['items'] = []
    else:
        out['items'] = items
    return out


def encode_log_to_tree(log: list):
    """pre-order log of successful element_encode calls -> tree in the shape of the driver's answer"""
    ents = [e for e in log if e[0] in ('enc', 'encerr')]
    pos = [0]

    def build(level):
        if pos[0] >= len(ents):
            return None
        e = ents[pos[0]]
        if e[0] != 'enc' or e[3] != level:
            return None
        pos[0] += 1
        ed = ed_json(e[4])
        # the children are encoded in the order in which XsdGroup.raw_encode emits them: the content order for
        # the lossless converters, the order of iter_collapsed_content otherwise (groups.py:1140-1143)
        kids = []
        for it in ed['items']:
            if 'n' in it:
                kid = build(level + 1)
                if kid is None:
                    return None
                kids.append(kid)
        items = []
        for it in ed['items']:
            if 'c' in it:
                items.append(it)
            else:
                j = next((i for i, k in enumerate(kids) if k['tag'] == it['n'][0]), None)
                if j is None:
                    return None
                items.append({'n': [it['n'][0], kids.pop(j)]})
        ed['items'] = items
        return ed
    t = build(0)
    if t is None or pos[0] != len(ents):
        return None
    return t


# ------------------------------------------------------------------------------------ real code, property

def et_shape(e: ET.Element, unordered: bool = False):
    kids = [et_shape(c, unordered) for c in e]
    return (e.tag, tuple(sorted(e.attrib)), tuple(sorted(kids) if unordered else kids))


def ref_decode(schema, source, strip_cdata: bool):
    """reference decode with the JsonML convention (typed values, attribute sets, structure)"""
    from xmlschema.converters import JsonMLConverter
    d = schema.decode(source, converter=JsonMLConverter, process_namespaces=False)
    c = L.canon(d)
    if strip_cdata:
        c = drop_cdata(c)
    return c


def drop_cdata(c):
    """remove the character-data strings of mixed content from a JsonML canonical value (keeps the typed
    value of leaf elements: a JsonML node whose non-head entries contain a child keeps only its children)"""
    if isinstance(c, dict) and 'l' in c:
        xs = c['l']
        has_child = any(isinstance(x, dict) and 'l' in x and x['l'] and isinstance(x['l'][0], dict) and 'a' in x['l'][0]
                        for x in xs[1:])
        out = [xs[0]] if xs else []
        for x in xs[1:]:
            if isinstance(x, dict) and 'l' in x and has_child and x['l'] and isinstance(x['l'][0], dict) and 'a' in x['l'][0]:
                out.append(drop_cdata(x))
            elif has_child and isinstance(x, dict) and 'a' in x and x['a'][0] == 's':
                continue
            else:
                out.append(drop_cdata(x) if has_child else x)
        return {'l': out}
    return c


def _is_child(x) -> bool:
    return isinstance(x, dict) and 'l' in x and bool(x['l']) and isinstance(x['l'][0], dict) and 'a' in x['l'][0] \
        and x['l'][0]['a'][0] == 's'


def per_name_equal(a, b) -> bool:
    """two JsonML canonical trees are equal up to the relative order of children with DIFFERENT names: for every
    element and every child name the sequence of children with that name (typed values, attributes, subtrees) is
    the same, in the same order.  This is what finding C05-F9 leaves intact (a buffered name is emitted later,
    first in first out); same-named siblings that change places are another defect."""
    if _is_child(a) and _is_child(b):
        xa, xb = a['l'], b['l']
        if not L.values_equal(xa[0], xb[0]):
            return False
        ka = [x for x in xa[1:] if _is_child(x)]
        kb = [x for x in xb[1:] if _is_child(x)]
        oa = [x for x in xa[1:] if not _is_child(x)]
        ob = [x for x in xb[1:] if not _is_child(x)]
        if len(oa) != len(ob) or not all(L.values_equal(x, y) for x, y in zip(oa, ob)):
            return False
        ga: dict = {}
        gb: dict = {}
        for x in ka:
            ga.setdefault(x['l'][0]['a'][1], []).append(x)
        for x in kb:
            gb.setdefault(x['l'][0]['a'][1], []).append(x)
        if ga.keys() != gb.keys():
            return False
        return all(len(ga[k]) == len(gb[k]) and all(per_name_equal(x, y) for x, y in zip(ga[k], gb[k])) for k in ga)
    return L.values_equal(a, b)


def tostring(elem, u) -> str:
    """serialise the encoded tree with the namespace declarations (prefixes) of the original document"""
    return L.serialize(elem, u.ast_tns, u.pfx)


class Unit:
    """one built schema + one valid instance (`nested`: the instance is the validity-preserving re-serialisation
    of `base_xml` with namespace (re)declarations on non-root elements, lib_c05.serialize_nested)"""

    def __init__(self, sid: int, xsd: str, schema, xml: str, root: ET.Element, ast: dict,
                 base_xml: Optional[str] = None, nsstats: Optional[dict] = None):
        self.sid, self.xsd, self.schema, self.xml, self.root, self.ast = sid, xsd, schema, xml, root, ast
        self.contiguous = L.contiguous(root)
        self.mixed_text = L.has_mixed_text(root)
        self.nsmap = {}
        self.base_xml = base_xml
        self.nsstats = nsstats
        import re
        start = re.match(r'<[^>]*>', xml).group(0)          # the root start tag
        m = re.match(r'<(\w+):', start)
        self.pfx = m.group(1) if m else None
        m = re.search(r'xmlns(?::\w+)?="([^"]*)"', start)
        self.ast_tns = m.group(1) if m else None
        self.inner_xmlns = 'xmlns' in xml[len(start):]
        self.keys_stable = L.keys_stable(xml) if self.inner_xmlns else True
        # conventions that write attributes without a prefix (GData; default with attr_prefix=''): an attribute
        # and a child element with the same local name are one dictionary key
        self.attr_child_clash = any({k.split('}')[-1] for k in e.attrib} & {c.tag.split('}')[-1] for c in e}
                                    for e in root.iter())
        self._base_data: dict = {}

    def hoisted(self) -> str:
        """the same document with every name written with the root's declarations only"""
        if self.base_xml is None:
            self.base_xml = L.serialize(ET.fromstring(self.xml), self.ast_tns, self.pfx)
        return self.base_xml


def leak_site(e: BaseException) -> str:
    import traceback
    tb = traceback.extract_tb(e.__traceback__)
    for fr in reversed(tb):
        if '/xmlschema/' in fr.filename:
            return '%s:%s:%s' % (type(e).__name__, fr.filename.split('/xmlschema/')[-1], fr.name)
    fr = tb[-1]
    return '%s:%s:%s' % (type(e).__name__, fr.filename.split('/')[-1], fr.name)


def classify_exc(e: BaseException) -> str:
    from xmlschema import XMLSchemaValidationError
    from xmlschema.exceptions import XMLSchemaException
    if isinstance(e, XMLSchemaValidationError):
        return 'validation'
    if isinstance(e, XMLSchemaException):
        return 'library:' + type(e).__name__
    return 'leak:' + type(e).__name__


def in_scope(u: Unit, cname: str, opts: dict) -> tuple[bool, str]:
    """is the round-trip equality demanded by the property for this case?"""
    if cname in LOSSLESS:
        return True, ''
    if not u.contiguous:
        return False, 'non-contiguous'
    if not u.keys_stable:
        return False, 'same-named siblings under different prefixes'
    if u.attr_child_clash and (cname == 'gdata' or (cname == 'default' and opts.get('attr_prefix') == '')):
        return False, 'an attribute and a child share one key'
    if cname == 'default' and u.mixed_text and opts.get('cdata_prefix') is None:
        return False, 'cdata-dropped'
    return True, ''


def roundtrip(ctx: Ctx, u: Unit, cname: str, opts: dict, want_log=False) -> dict:
    """the property on the real code for one case; returns what happened (and the captured logs)"""
    cls = conv_classes()[cname]
    R = recorder(cls)
    case = {'sid': u.sid, 'xsd': u.xsd, 'xml': u.xml, 'converter': cname, 'options': opts}
    res: dict = {'case': case}
    scope, why = in_scope(u, cname, opts)
    res['in_scope'] = scope
    LOG.clear()
    global SNAPSHOT
    SNAPSHOT = cname in ('dataelement', 'default')
    try:
        data = u.schema.decode(u.xml, converter=R, **opts)
    except Exception as e:  # a valid document must decode
        ctx.failure('decode of a valid document raised', case, {'error': classify_exc(e), 'msg': str(e)[:300]})
        res['outcome'] = 'decode-raised'
        return res
    res['data'] = data
    res['declog'] = list(LOG)
    LOG.clear()
    try:
        elem = u.schema.encode(data, converter=R, **opts)
    except Exception as e:
        res['enclog'] = list(LOG)
        res['outcome'] = 'encode-raised:' + classify_exc(e)
        if scope:
            report(ctx, 'encode of decoded data raised', case, {'error': classify_exc(e), 'msg': str(e)[:400]})
        return res
    res['enclog'] = list(LOG)
    LOG.clear()
    if elem is None:
        res['outcome'] = 'encode-none'
        if scope:
            report(ctx, 'encode of decoded data returned nothing', case, None)
        return res
    try:
        xml2 = tostring(elem, u)
        valid = u.schema.is_valid(xml2)
    except Exception as e:
        res['outcome'] = 'serialise-raised'
        if scope:
            report(ctx, 're-encoded tree cannot be serialised/validated', case, {'error': repr(e)[:300]})
        return res
    res['xml2'] = xml2
    if not valid:
        res['outcome'] = 'invalid'
        # validity of strict encode output is demanded for every case (soundness clause)
        report(ctx, 'strict encode of decoded data returned XML that the schema rejects', case, {'xml2': xml2})
        return res
    if not scope:
        res['outcome'] = 'valid-out-of-scope:' + why
        return res
    strip = cname not in LOSSLESS
    a = ref_decode(u.schema, u.xml, strip)
    b = ref_decode(u.schema, xml2, strip)
    if et_shape(ET.fromstring(xml2)) != et_shape(ET.fromstring(u.xml)):
        res['outcome'] = 'structure-differs'
        report(ctx, 'element structure / attribute sets differ after decode+encode', case,
               {'xml2': xml2, 'reordered_only': et_shape(ET.fromstring(xml2), True) == et_shape(ET.fromstring(u.xml), True),
                'stable_per_name': per_name_equal(a, b)})
        return res
    if not L.values_equal(a, b):
        res['outcome'] = 'values-differ'
        report(ctx, 'typed values differ after decode+encode', case, {'xml2': xml2})
        return res
    first = data
    if u.inner_xmlns:
        # the serialiser writes every declaration at the root, so the data of the second decode carries other
        # prefixes and no inner declarations: "decodes to the same data again" is read as "to the data of the same
        # document written with the root's declarations only"
        try:
            first = u.schema.decode(u.hoisted(), converter=cls, **opts)
        except Exception as e:
            res['outcome'] = 'hoisted-decode-raised'
            report(ctx, 'decode of a valid document raised', dict(case, xml=u.hoisted()),
                   {'error': classify_exc(e), 'msg': str(e)[:300]})
            return res
        ctx.count('rt-second-decode:against the document with root declarations only')
    try:
        data2 = u.schema.decode(xml2, converter=cls, **opts)
    except Exception as e:
        res['outcome'] = 'second-decode-raised'
        report(ctx, 'second decode raised', case, {'xml2': xml2, 'error': repr(e)[:300]})
        return res
    tk = text_keys(cname, opts) if u.inner_xmlns else ()
    c1, c2 = strip_xmlns(L.canon(first), cname, tk), strip_xmlns(L.canon(data2), cname, tk)
    if not L.values_equal(c1, c2):
        res['outcome'] = 'second-decode-differs'
        report(ctx, 'decoding the re-encoded document gives different data', case,
               {'xml2': xml2, 'diff': L.first_diff(c1, c2)})
        return res
    res['outcome'] = 'ok'
    return res


def ns_of(u: Unit) -> dict:
    """namespace map used to serialise: the prefixes declared at the root of the original document"""
    if not u.nsmap:
        import re
        m = re.match(r'<[^>]*>', u.xml)
        u.nsmap = {p or '': uri for p, uri in re.findall(r'xmlns:?(\w*)="([^"]*)"', m.group(0))}
    return u.nsmap


def text_keys(cname: str, opts: dict) -> tuple:
    if cname == 'default':
        return (opts.get('text_key', '$'),)
    return {'badgerfish': ('$',), 'gdata': ('$t',)}.get(cname, ())


def strip_xmlns(c, cname, text_keys=()):
    """second-decode equality is about the data, not about where xmlns declarations are repeated: the
    serialiser writes all declarations at the root (inner re-declarations of the same binding vanish).
    `text_keys` (documents with inner declarations only): a dictionary that holds nothing but the text is the
    text (the default convention keeps a dictionary for a simple element only because it carries a
    declaration for its own namespace, base.py:353-375)"""
    if isinstance(c, dict):
        if 'd' in c:
            kvs = [[k, strip_xmlns(v, cname, text_keys)] for k, v in c['d']
                   if not (k in ('xmlns', '@xmlns') or k.startswith(('xmlns:', '@xmlns:', 'xmlns$', '_xmlns')))]
            if text_keys and len(kvs) == 1 and kvs[0][0] in text_keys:
                return kvs[0][1]
            return {'d': kvs}
        if 'l' in c:
            xs = [strip_xmlns(x, cname, text_keys) for x in c['l']]
            if cname == 'jsonml':
                xs = [x for x in xs if x != {'d': []}]
            return {'l': xs}
        if 'e' in c:
            e = dict(c['e'])
            e['xmlns'] = []
            e['kids'] = [strip_xmlns(k, cname, text_keys) for k in e['kids']]
            return {'e': e}
    return c


LEAK_SITES = {
    # C05-F3: (exception, file, function) triples at which malformed data escapes as a raw Python exception
    'TypeError:namespaces.py:__init__',
    'TypeError:validators/validation.py:set_element_content',
    'TypeError:validators/groups.py:raw_encode',
    'TypeError:caching.py:__call__',
    'AttributeError:converters/badgerfish.py:element_encode',
    'AttributeError:converters/badgerfish.py:get_xmlns_from_data',
    'AttributeError:validators/groups.py:raw_encode',
    'KeyError:namespaces.py:unmap_qname',
    'IndexError:converters/jsonml.py:element_encode',
}




def invalid_reasons(schema, xml2: str) -> Optional[set]:
    """classify every validation error of a re-encoded document; None = something else is wrong too"""
    out = set()
    try:
        errors = list(schema.iter_errors(xml2))
    except Exception:
        return None
    if not errors:
        return None
    for e in errors:
        elem = e.elem
        if elem is None or callable(elem.tag):
            return None
        v = e.validator
        vt = type(v).__name__
        blank = len(elem) == 0 and not (elem.text or '').strip()
        chardata = bool((elem.text or '').strip()) or any((c.tail or '').strip() for c in elem)
        if blank and ('Atomic' in vt or 'List' in vt or 'Union' in vt or 'Facet' in vt or 'SimpleType' in vt):
            out.add('C05-F1')        # empty element emitted for a simple type that rejects the empty string
        elif chardata and vt in ('XsdGroup', 'Xsd11Group') and not v.mixed:
            out.add('C05-F2')        # character data emitted into element-only / empty content
        elif chardata and vt.endswith('Element') and v.type.is_empty() and len(elem) == 0:
            out.add('C05-F2')
        else:
            return None
    return out


COLLAPSING = ('default', 'badgerfish', 'gdata')


def doc_shapes(case: dict) -> set:
    """input shapes that identify the findings about the collapsing conventions (computed from the case's
    schema and document, so that the rule can be re-evaluated from a replay file)"""
    if '_shapes' in case:
        return case['_shapes']
    import xmlschema
    shapes: set = set()
    try:
        schema = xmlschema.XMLSchema(case['xsd'])
        root = ET.fromstring(case['xml'])
        xroot = schema.elements.get(root.tag) or next(iter(schema.elements.values()))
    except Exception:
        return shapes

    def walk(el, xel):
        prev = None
        run = 0
        for i, c in enumerate(el):
            xc = xel.match_child(c.tag) if xel is not None and not xel.type.is_simple() and \
                xel.type.has_complex_content() else None
            if xc is not None and xc.type.is_list():
                shapes.add('list-elem')
            if c.tag == prev:
                run += 1
                if xc is not None and xc.type.is_list():
                    shapes.add('list-run')          # >= 2 adjacent occurrences of an element whose type is a list
                if (el[i - 1].tail or '').strip():
                    shapes.add('cdata-in-run')      # character data between two same-named siblings
            else:
                run = 1
            prev = c.tag
            walk(c, xc)
    walk(root, xroot)
    if L.has_mixed_text(root):
        shapes.add('mixed-text')
    case['_shapes'] = shapes
    return shapes


def known_match(case: dict, detail: Any) -> Optional[str]:
    """exact rules of the findings listed in notes/findings/C05.json"""
    cname = case.get('converter')
    opts = case.get('options') or {}
    if 'mutation' not in case and isinstance(detail, dict):
        if cname == 'default' and opts.get('force_list') and opts.get('cdata_prefix') is not None and \
                'mixed-text' in doc_shapes(case) and 'concatenate str' in str(detail.get('msg', '')):
            return 'C05-F4'
        if cname in COLLAPSING and detail.get('diff') and 'cdata-in-run' in doc_shapes(case):
            return 'C05-F6'
        if cname in COLLAPSING and detail.get('reordered_only') and detail.get('stable_per_name'):
            return 'C05-F9'
        if cname == 'default' and detail.get('error') == 'validation' and 'list-elem' in doc_shapes(case) and \
                'is not an instance of' in str(detail.get('msg', '')):
            return 'C05-F7'
    if 'mutation' in case and cname in ('badgerfish', 'gdata') and isinstance(detail, dict) and \
            'unbound prefix' in str(detail.get('xml2', '')) and case['mutation'].get('kind') == 'rename' and \
            len(case['mutation'].get('path', [])) == 1:
        return 'C05-F5'
    if 'mutation' in case and isinstance(detail, dict) and detail.get('nonstr'):
        return 'C05-F8'
    if isinstance(detail, dict) and detail.get('outcome', '').startswith('raised-leak:'):
        if case.get('leak_site') in LEAK_SITES:
            return 'C05-F3'
    if isinstance(detail, dict) and detail.get('reasons'):
        rs = detail['reasons']
        if 'mutation' in case and set(rs) <= {'C05-F1', 'C05-F2'}:
            return rs[0]
    return None


def report(ctx: Ctx, what: str, case: dict, detail: Any) -> None:
    fid = known_match(case, detail)
    if fid:
        ctx.known_hit(fid)
    else:
        ctx.failure(what, case, detail)


# ------------------------------------------------------------------------------------ mutations (soundness)

def paths(data, cname, pre=()):
    """addressable positions of a decoded structure"""
    out = [pre]
    if isinstance(data, MutableMapping):
        for k, v in data.items():
            out.extend(paths(v, cname, pre + (k,)))
    elif isinstance(data, MutableSequence) and not isinstance(data, (str, bytes)):
        for i, v in enumerate(data):
            out.extend(paths(v, cname, pre + (i,)))
    return out


def get_at(data, path):
    for p in path:
        data = data[p]
    return data


def mutate(rng, data, cname) -> Optional[tuple[Any, dict]]:
    """one mutation of a copy of the decoded data: drop / duplicate / retype / reorder / wrap"""
    from xmlschema.dataobjects import DataElement
    if isinstance(data, DataElement):
        return mutate_de(rng, copy_de(data))
    d = copy.deepcopy(data)
    ps = [p for p in paths(d, cname) if p]
    if not ps:
        kind = 'retype-root'
        return rng.choice([None, 5, 'x', [], {}, [[]], {'zz': 1}]), {'kind': kind}
    path = rng.choice(ps)
    parent = get_at(d, path[:-1])
    key = path[-1]
    kind = rng.choice(['drop', 'dup', 'retype', 'reorder', 'wrap', 'rename'])
    desc = {'kind': kind, 'path': [str(x) for x in path]}
    try:
        if kind == 'drop':
            del parent[key]
        elif kind == 'dup':
            if isinstance(parent, MutableSequence):
                parent.insert(key, copy.deepcopy(parent[key]))
            else:
                v = parent[key]
                parent[key] = [copy.deepcopy(v), copy.deepcopy(v)]
        elif kind == 'retype':
            new = rng.choice([None, 5, 'x', True, 1.5, [], {}, [1, 'a'], {'k': 'v'}, [[]], '', [None], {'$': {}}])
            parent[key] = new
            desc['new'] = repr(new)
        elif kind == 'reorder':
            if isinstance(parent, MutableSequence) and len(parent) > 1:
                j = rng.randrange(len(parent))
                parent[key], parent[j] = parent[j], parent[key]
                desc['with'] = j
            elif isinstance(parent, MutableMapping) and len(parent) > 1:
                items = list(parent.items())
                rng.shuffle(items)
                parent.clear()
                parent.update(items)
            else:
                return None
        elif kind == 'wrap':
            parent[key] = rng.choice([[parent[key]], {'x': parent[key]}, [[parent[key]]]])
        elif kind == 'rename':
            if isinstance(parent, MutableMapping):
                v = parent.pop(key)
                nk = rng.choice(['zz', key + 'x', ('q:' if ':' not in key else 'q_') + key, '@' + key, '$', '$1', '#1', 'xmlns:q'])
                parent[nk] = v
                desc['new'] = nk
            else:
                return None
    except Exception:
        return None
    return d, desc


def copy_de(d):
    """deep copy of a DataElement tree that keeps the schema bindings shared (`copy.deepcopy` would copy the
    whole schema through `xsd_element` for every mutation)"""
    memo: dict = {}
    for e in d.iter():
        for x in (e.xsd_element, e.xsd_type, getattr(e, '_encoder', None)):
            if x is not None:
                memo[id(x)] = x
    return copy.deepcopy(d, memo)


def mutate_de(rng, d):
    els = list(d.iter())
    e = rng.choice(els)
    kind = rng.choice(['drop', 'dup', 'retype', 'reorder', 'attr', 'tag', 'tail', 'tail', 'nonelem'])
    desc = {'kind': 'de-' + kind, 'tag': e.tag}
    if kind == 'nonelem':
        new = rng.choice([5, 'x', None, {'a': 1}, [1], []])
        if len(e) and rng.random() < 0.7:
            e[rng.randrange(len(e))] = new          # DataElement.__setitem__ does not check the type
            return d, {'kind': 'de-nonelem-child', 'tag': e.tag, 'new': repr(new)}
        return new, {'kind': 'de-nonelem-root', 'new': repr(new)}
    if kind == 'drop' and len(e):
        del e[rng.randrange(len(e))]
    elif kind == 'dup' and len(e):
        i = rng.randrange(len(e))
        e.insert(i, copy.deepcopy(e[i]))
    elif kind == 'retype':
        e.value = rng.choice([None, 5, 'x', True, [], {}, [1, 'a'], 1.5])
        desc['new'] = repr(e.value)
    elif kind == 'reorder' and len(e) > 1:
        i, j = rng.randrange(len(e)), rng.randrange(len(e))
        a, b = e[i], e[j]
        e[i], e[j] = b, a
    elif kind == 'attr':
        if e.attrib and rng.random() < 0.5:
            k = rng.choice(list(e.attrib))
            del e.attrib[k]
        else:
            e.attrib[rng.choice(['zz', 'id', 'k', 'q:x'])] = rng.choice(['x', 5, None, [1]])
    elif kind == 'tag':
        e.tag = rng.choice(['zz', e.tag + 'x', '{urn:other}' + e.tag.split('}')[-1]])
    elif kind == 'tail':
        e.tail = rng.choice(['txt', 5])
    else:
        return None
    return d, desc


def _is_nsdecl(k: str, ap: str) -> bool:
    k = k[len(ap):] if ap and k.startswith(ap) else k
    return k == 'xmlns' or k.startswith(('xmlns:', 'xmlns$'))


def attr_holders(data, cname: str, opts: dict) -> list:
    """the places of a decoded structure that carry attribute entries: (container, [keys]) per element, in
    document order; xmlns declarations are not attribute entries.  For JsonML the container is the attribute
    dict (index 1 of the element's list), for data elements `attrib`, for the dict conventions the element's
    dict (keys with the attribute prefix; GData has no prefix: scalar-valued keys other than `$t`)."""
    from xmlschema.dataobjects import DataElement
    out: list = []
    if isinstance(data, DataElement):
        for e in data.iter():
            ks = [k for k in e.attrib if not _is_nsdecl(k, '')]
            if ks:
                out.append((e.attrib, ks))
        return out
    ap = {'default': opts.get('attr_prefix', '@'), 'badgerfish': '@', 'gdata': ''}.get(cname, '')

    def walk(x):
        if isinstance(x, MutableMapping):
            if cname == 'gdata':
                ks = [k for k, v in x.items() if isinstance(k, str) and k != '$t' and not _is_nsdecl(k, '') and
                      not isinstance(v, (MutableMapping, MutableSequence))]
            elif cname == 'jsonml':
                ks = []
            else:
                ks = [k for k, v in x.items() if isinstance(k, str) and ap and k.startswith(ap) and
                      not _is_nsdecl(k, ap) and not isinstance(v, MutableMapping)]
            if ks:
                out.append((x, ks))
            for v in list(x.values()):
                walk(v)
        elif isinstance(x, MutableSequence) and not isinstance(x, (str, bytes)):
            if cname == 'jsonml' and len(x) > 1 and isinstance(x[0], str) and isinstance(x[1], MutableMapping):
                ks = [k for k in x[1] if isinstance(k, str) and not _is_nsdecl(k, '')]
                if ks:
                    out.append((x[1], ks))
                for v in x[2:]:
                    walk(v)
            else:
                for v in x:
                    walk(v)
    walk(data)
    return out


def attr_mutations(rng, data, cname: str, opts: dict) -> list:
    """attribute-entry mutations x use_defaults: all attribute entries of every element removed, all entries of
    one element removed, one entry removed; each encoded with use_defaults True and False (with False the
    encoder adds nothing, so an element may reach the attribute group with an empty mapping).  Judged like every
    other mutation: strict encode raises a validation error or returns XML that the schema accepts."""
    from xmlschema.dataobjects import DataElement
    if not attr_holders(data, cname, opts):
        return []
    kinds = ['attrs-strip-all', rng.choice(['attrs-strip-element', 'attrs-drop-one'])]
    out = []
    for kind in kinds:
        d = copy_de(data) if isinstance(data, DataElement) else copy.deepcopy(data)
        hs = attr_holders(d, cname, opts)
        desc = {'kind': kind, 'elements-with-attributes': len(hs)}
        if kind == 'attrs-strip-all':
            for c, ks in hs:
                for k in ks:
                    del c[k]
        else:
            i = rng.randrange(len(hs))
            c, ks = hs[i]
            drop = ks if kind == 'attrs-strip-element' else [rng.choice(ks)]
            for k in drop:
                del c[k]
            desc.update(element=i, dropped=list(drop))
        for ud in (False, True):
            out.append((d, dict(desc, use_defaults=ud), {'use_defaults': ud}))
    return out


def soundness(ctx: Ctx, u: Unit, cname: str, opts: dict, data, n: int, pend: list, attrs: bool = False) -> None:
    from xmlschema import XMLSchemaValidationError
    cls = conv_classes()[cname]
    R = recorder(cls)
    if attrs:
        todo = attr_mutations(ctx.rng, data, cname, opts)
    else:
        todo = [m + ({},) for m in (mutate(ctx.rng, data, cname) for _ in range(n)) if m is not None]
    for mdata, desc, kw in todo:
        eopts = dict(opts, **kw)
        case = {'sid': u.sid, 'xsd': u.xsd, 'xml': u.xml, 'converter': cname, 'options': eopts, 'mutation': desc,
                'data': L.canon(mdata)}
        LOG.clear()
        try:
            elem = u.schema.encode(mdata, converter=R, validation='strict', **eopts)
        except XMLSchemaValidationError:
            outcome = 'raised-validation'
        except Exception as e:
            outcome = 'raised-' + classify_exc(e)
            site = leak_site(e)
            ctx.count('leak-site:' + site)
            case['leak_site'] = site
        else:
            if elem is None:
                outcome = 'none'
            else:
                try:
                    xml2 = tostring(elem, u)
                    ok = u.schema.is_valid(xml2)
                except Exception as e:
                    ok, xml2 = False, 'serialise: ' + repr(e)[:200]
                outcome = 'valid' if ok else 'INVALID'
                if not ok:
                    rs = invalid_reasons(u.schema, xml2) if not xml2.startswith('serialise:') else None
                    nonstr = any((x.text is not None and not isinstance(x.text, str)) or
                                 (x.tail is not None and not isinstance(x.tail, str)) for x in elem.iter())
                    report(ctx, 'strict encode returned XML that the schema rejects', case,
                           {'xml2': xml2, 'reasons': sorted(rs) if rs else None, 'nonstr': nonstr})
        enclog = list(LOG)
        LOG.clear()
        ctx.case({k: case[k] for k in ('sid', 'xml', 'converter', 'options', 'mutation')}, True,
                 tag=(f'sound-attrs/{cname}' if kw else f'sound/{cname}'))
        ctx.count(f'sound-outcome:{outcome}')
        ctx.count(f'mutation:{desc["kind"]}')
        if outcome.startswith('raised-leak') or outcome.startswith('raised-library'):
            report(ctx, 'strict encode raised something that is not a validation error', case, {'outcome': outcome})
        if not kw:
            pend.append((case, enclog))


# ------------------------------------------------------------------------------------ model comparison

def facts_of(table: SchemaTable, xe) -> int:
    return table.type_id(xe, xe.type)


def compare_model(ctx: Ctx, drv: Driver, u: Unit, cname: str, opts: dict, res: dict, sound_pend: list) -> None:
    """one-level and tree-level comparison of the captured calls with the Lean model"""
    if cname not in MODELLED:
        return
    if opts.get('preserve_root'):
        ctx.count('model:skipped(preserve_root: the root wrapper is not modelled)')
        return
    table = SchemaTable()
    mapper = Mapper()
    use_ns = bool(opts.get('process_namespaces', True)) and not opts.get('strip_namespaces', False)
    root, _ = decode_log_to_tree(res.get('declog', []), table, mapper)
    if root is None:
        ctx.count('model:tree-not-reconstructed')
        return
    reqs: list = []
    meta: list = []
    # mapper: names of the encode side
    for ent in res.get('enclog', []):
        if ent[0] == 'enc':
            facts_of(table, ent[2])
    for cse, enclog in sound_pend:
        for ent in enclog:
            if ent[0] in ('enc', 'encerr'):
                facts_of(table, ent[2])
    base = {'conv': cname, 'useNs': use_ns, 'mapper': mapper.json(), 'sch': table.facts, 'opts': opts}
    case = res['case']
    # 1. one-level decode, with the name mapping of the namespace context of each call
    for node in iter_nodes(root):
        hd = {k: node[k] for k in ('tag', 'attrs', 'xmlns') if k in node}
        if 'text' in node:
            hd['text'] = node['text']
        if node['_one']['mapper'] is None:
            # one extended name, two prefixed names at one level (same-named children under different prefixes,
            # or a child named as its parent in another context): `Mapper.mp` is one function per level
            ctx.count('model:skipped(one level maps one name in two ways)')
            continue
        reqs.append(dict(base, op='dec1', mapper=node['_one']['mapper'], ty=node['ty'], hd=hd,
                         items=node['_one']['items']))
        meta.append(('dec1', case, node['_one']['result']))
    # 2. tree round trip (one mapper for the whole document)
    if mapper.functional:
        reqs.append(dict(base, op='rt', root=strip_private(root)))
        meta.append(('rt', case, (L.canon(res['data']), encode_log_to_tree(res.get('enclog', [])))))
    else:
        ctx.count('model:tree-skipped(the name mapping varies inside the document)')
    # 2b. tree round trip through the scoped recursion: one name mapping per lexical scope
    if cname in SCOPED and use_ns:
        scopes = scope_tables(ctx, cname, root, res.get('enclog', []), case)
        if scopes is not None:
            reqs.append({'op': 'rtS', 'conv': cname, 'sch': table.facts, 'root': strip_private(root),
                         'scopes': scopes})
            meta.append(('rtS', case, (L.canon(res['data']), encode_log_to_tree(res.get('enclog', [])))))
            ctx.count('model:scoped-tree/%s:%d scope(s)' % (cname, min(len(scopes), 4)) + ('+' if len(scopes) > 4 else ''))
    # 3. one-level encode (round trip and mutated data)
    for cse, enclog in [(case, res.get('enclog', []))] + sound_pend:
        mut = cse.get('mutation') or {}
        if any('xmlns' in str(x) for x in list(mut.get('path', [])) + [mut.get('new', '')]):
            ctx.count('model:skipped(mutation touches xmlns declarations)')
            continue
        for ent in enclog:
            if ent[0] in ('enc', 'encerr') and ent[5].get('conflict'):
                ctx.count('model:skipped(one level un-maps one name in two ways)')
                continue
            if ent[0] in ('enc', 'encerr') and cname == 'jsonml' and isinstance(ent[1], MutableSequence) and any(
                    isinstance(e, MutableSequence) and len(e) and not isinstance(e[0], str) and
                    not (use_ns and isinstance(e[0], MutableMapping)) for e in ent[1]):
                ctx.count('model:skipped(non-string name)')
                continue
            if ent[0] == 'enc':
                _, obj, xe, level, ed, tabs = ent
                reqs.append(dict(base, op='enc1', mapper=tabs, ty=facts_of(table, xe), name=xe.name, obj=L.canon(obj)))
                edj = ed_json(ed)
                meta.append(('enc1', cse, {'error': 'raw'} if 'raw' in edj else {'ok': edj}))
            elif ent[0] == 'encerr':
                _, obj, xe, level, err, tabs = ent
                cl = 'caught' if isinstance(err, (ValueError, TypeError)) else 'leak'
                reqs.append(dict(base, op='enc1', mapper=tabs, ty=facts_of(table, xe), name=xe.name, obj=L.canon(obj)))
                meta.append(('enc1', cse, {'error': cl}))
    answers = drv.query(reqs)
    for (kind, cse, want), ans in zip(meta, answers):
        ctx.traces += 1
        small = {k: cse[k] for k in cse if k != 'xsd'}
        if 'err' in ans:
            ctx.mismatch(f'{cname}: driver error on {kind}', small, want, ans)
            continue
        if kind == 'dec1':
            if ans['v'] != want:
                ctx.mismatch(f'{cname}: element_decode', small, want, ans['v'])
        elif kind in ('rt', 'rtS'):
            wd, wt = want
            how = 'tree' if kind == 'rt' else 'scoped tree'
            if ans['dec'] != wd:
                ctx.mismatch(f'{cname}: decoded data ({how})', small, wd, ans['dec'])
            if wt is not None and ans['enc'] != {'ok': wt}:
                ctx.mismatch(f'{cname}: ElementData tree of encode(decode(doc)) ({how})', small, wt, ans['enc'])
            if wt is None and kind == 'rt':
                ctx.count('model:encode-tree-not-reconstructed')
        else:
            got = ans['enc']
            if 'error' in got and got['error'] in ('nochild',):
                got = {'error': 'caught'}
            if got != want:
                ctx.mismatch(f'{cname}: element_encode', dict(small, obj=None), want, got)
            ctx.count(f'enc1/{cname}:' + ('ok' if 'ok' in want else want['error']))


SCOPED = ('jsonml', 'dataelement')


def scope_tables(ctx: Ctx, cname: str, root: dict, enclog: list, case: dict) -> Optional[list]:
    """[[declarations in scope (innermost first), mapper tables]…] for the scoped model: every name mapping that
    a real `element_decode` / `element_encode` call of this round trip performed, filed under the *lexical* scope
    of the call — the declarations reported for the element and its ancestors (decode: the captured ElementData;
    encode: what `set_xmlns_context` returned for the data of the enclosing calls).  The mapper of the model is a
    function of that scope; two different answers of the real converter for one scope (declarations of an
    earlier sibling still in force, a context restored from the wrong frame, …) break the tie."""
    tabs: dict = {}
    bad: list = []
    ambiguous: list = []

    def put(scope, kind, ext, mapped, where):
        t = tabs.setdefault(json.dumps(scope), {'scope': scope, 'tags': {}, 'attrs': {}, 'rtags': {}, 'rattrs': {}})
        fwd, back = t[kind], t['r' + kind]
        if fwd.setdefault(ext, mapped) != mapped:
            bad.append({'scope': scope, 'name': ext, 'answers': [fwd[ext], mapped], 'at': where})
        if back.setdefault(mapped, ext) != ext:
            if kind == 'attrs':
                # `unmap_qname(name, xsd_element.attributes)` also depends on the attributes declared for the
                # element: under a default namespace a qualified attribute and an unqualified one are both
                # written without prefix (C17 owns that); `Mapper.umA` is one function per scope
                ambiguous.append(mapped)
            else:
                bad.append({'scope': scope, 'written': mapped, 'answers': [back[mapped], ext], 'at': where})

    def walk(node, outer):
        scope = [list(p) for p in node.get('xmlns', [])] + outer
        m = node['_tabs']
        put(scope, 'tags', node['tag'], m['tag'], 'element_decode ' + node['tag'])
        for k, mk in m['attrs']:
            put(scope, 'attrs', k, mk, 'element_decode ' + node['tag'] + ' @' + k)
        for it in node['items']:
            if 'n' in it:
                walk(it['n'][2], scope)
    walk(root, [])
    stack: list = []            # scopes of the enclosing element_encode calls
    for ent in enclog:
        if ent[0] not in ('enc', 'encerr'):
            continue
        _, obj, xe, level, ed, t = ent
        if 'own' not in t or level > len(stack):
            return None
        del stack[level:]
        # a call that raised has no ElementData: its declarations are the ones `get_xmlns_from_data` reads
        x = (ed.xmlns or []) if ent[0] == 'enc' else t.get('xmlns', [])
        scope = [list(p) for p in x] + (stack[-1] if stack else [])
        stack.append(scope)
        where = 'element_encode ' + str(xe.name) + (' (raised)' if ent[0] == 'encerr' else '')
        for ext, s in t['tags']:
            if s in t['own']:
                put(scope, 'tags', ext, s, where)
        for ext, s in t['attrs']:
            if s in t.get('akeys', ()) and not (s == 'xmlns' or s.startswith('xmlns:')):
                put(scope, 'attrs', ext, s, where + ' @' + s)
        for ext, s, x in t['kids']:
            put(x + scope, 'tags', ext, s, where + ' child ' + s)
    if bad:
        ctx.traces += 1
        ctx.mismatch(f'{cname}: the name mapping of the converter is not a function of the namespace declarations '
                     'in scope', {k: case[k] for k in case if k != 'xsd'}, bad[:4],
                     'one mapping per lexical scope (decTreeS/encTreeS)')
        return None
    if ambiguous:
        ctx.count('model:scoped-tree-skipped(one written attribute name denotes two attributes in one scope)')
        return None
    ctx.traces += 1
    return [[t['scope'], {'tags': [[k, v] for k, v in t['tags'].items()],
                          'attrs': [[k, v] for k, v in t['attrs'].items()]}] for t in tabs.values()]


# ------------------------------------------------------------------------------------ content re-ordering helpers

_ORD: dict = {'states': None, 'universe': (), 'group': None}


def rec_visitor_class():
    from xmlschema.validators import models
    if 'cls' in _ORD:
        return _ORD['cls']

    class RecVisitor(models.ModelVisitor):      # records the state after construction and after every advance
        __slots__ = ()

        def __init__(self, root):
            super().__init__(root)
            snap(self)

        def advance(self, match=False):
            yield from super().advance(match)
            snap(self)

    def snap(v):
        if _ORD['states'] is None:
            return
        if v.element is None:
            _ORD['states'].append(None)
        else:
            g = _ORD['group']
            _ORD['states'].append([n for n in _ORD['universe'] if v.element.is_matching(n, group=g)])
    _ORD['cls'] = RecVisitor
    return RecVisitor


def run_order(fn_name: str, content, group, universe):
    """call the real helper with a recording visitor; returns (script, output or exception class)"""
    from xmlschema.validators import models
    saved = models.ModelVisitor
    _ORD.update(states=[], universe=tuple(universe), group=group)
    models.ModelVisitor = rec_visitor_class()
    try:
        out = list(getattr(models, fn_name)(content, group))
        res: Any = {'ok': [{'c': [k, L.canon(v)]} if isinstance(k, int) else {'n': [k, L.canon(v)]} for k, v in out]}
    except (ValueError, TypeError):
        res = {'error': 'caught'}
    except Exception:
        res = {'error': 'leak'}
    finally:
        models.ModelVisitor = saved
    script = _ORD['states']
    _ORD['states'] = None
    return script, res


def order_variants(rng, content: list) -> list:
    """the content as returned by element_encode, plus re-ordered / duplicated / foreign-name variants"""
    out = [('as-encoded', list(content))]
    if len(content) > 1:
        sh = list(content)
        rng.shuffle(sh)
        out.append(('shuffled', sh))
        rev = list(reversed(content))
        out.append(('reversed', rev))
    names = [c for c in content if isinstance(c[0], str)]
    if names:
        dup = list(content)
        dup.insert(rng.randrange(len(dup) + 1), rng.choice(names))
        out.append(('duplicated', dup))
        unk = list(content)
        unk.insert(rng.randrange(len(unk) + 1), ('zz-unknown', rng.choice(names)[1]))
        out.append(('unknown-name', unk))
        # interleave: a b a b
        if len(names) > 2:
            il = names[::2] + names[1::2]
            out.append(('interleaved', il))
    # cdata keys must stay unique
    res = []
    for tag, v in out:
        seen = set()
        ok = True
        for k, _ in v:
            if isinstance(k, int):
                if k in seen:
                    ok = False
                seen.add(k)
        if ok:
            res.append((tag, v))
    return res


def stable_order(content: list, out: list) -> bool:
    """for every name, the values with that name come out in the order in which they went in"""
    a: dict = {}
    b: dict = {}
    for k, v in content:
        a.setdefault(str(k), []).append(json.dumps(v, sort_keys=True))
    for x in out:
        k, v = x['c'] if 'c' in x else x['n']
        b.setdefault(str(k), []).append(json.dumps(v, sort_keys=True))
    return a == b


def order_cases(ctx: Ctx, drv: Optional[Driver], u: Unit, res: dict, limit: int) -> None:
    """iter_unordered_content / iter_collapsed_content: permutation property on the real code, and
    correspondence with the Lean model replayed against the recorded visitor"""
    from collections import Counter
    reqs, meta = [], []
    done = 0
    for ent in res.get('enclog', []):
        if ent[0] != 'enc' or done >= limit:
            continue
        _, obj, xe, level, ed, tabs = ent
        content = ed.content
        group = xe.type.model_group
        if group is None or not isinstance(content, list) or not content or \
                not all(isinstance(c, tuple) and len(c) == 2 and isinstance(c[0], (int, str)) for c in content):
            continue
        done += 1
        for vtag, var in order_variants(ctx.rng, content):
            universe = sorted({k for k, _ in var if isinstance(k, str)})
            canon_in = Counter(json.dumps([k, L.canon(v)], sort_keys=True) for k, v in var)
            for fn in ('iter_collapsed_content', 'iter_unordered_content'):
                forms = [('list', var)]
                if fn == 'iter_unordered_content':
                    d: dict = {}
                    for k, v in var:
                        if isinstance(k, int):
                            d[k] = v
                        else:
                            d.setdefault(k, []).append(v)
                    forms.append(('dict', d))
                for form, inp in forms:
                    script, out = run_order(fn, inp, group, universe)
                    case = {'sid': u.sid, 'xml': u.xml, 'helper': fn, 'form': form, 'variant': vtag,
                            'content': [[k, L.canon(v)] for k, v in var], 'element': xe.name}
                    moved = 'ok' in out and [x.get('n', x.get('c'))[0] for x in out['ok']] != [k for k, _ in var]
                    ctx.case(case, True, tag=f'order/{fn}')
                    ctx.count(f'order:{fn}:{"reordered" if moved else "same-order" if "ok" in out else out["error"]}')
                    # the property on the real code: a permutation of the input
                    if 'ok' in out:
                        got = Counter(json.dumps([x['c'][0], x['c'][1]] if 'c' in x else [x['n'][0], x['n'][1]],
                                                 sort_keys=True) for x in out['ok'])
                        if got != canon_in:
                            ctx.failure(f'{fn} dropped, duplicated or altered an entry', dict(case, xsd=u.xsd),
                                        {'output': out['ok']})
                        elif vtag == 'as-encoded' and form == 'list' and u.contiguous and u.keys_stable and \
                                not stable_order(case['content'], out['ok']):
                            # the content that `element_encode` returned for the decoded data of a valid document:
                            # children with the same name must keep their relative order (sibling order is part
                            # of "element structure")
                            ctx.failure(f'{fn} changed the relative order of same-named entries of a valid content',
                                        dict(case, xsd=u.xsd), {'output': out['ok']})
                    else:
                        ctx.failure(f'{fn} raised', dict(case, xsd=u.xsd), out)
                    if drv is None:
                        continue
                    if fn == 'iter_collapsed_content':
                        items = [{'c': [k, L.canon(v)]} if isinstance(k, int) else {'n': [k, False, L.canon(v)]}
                                 for k, v in var]
                        reqs.append({'op': 'collapsed', 'script': script, 'content': items})
                    else:
                        cd = sorted([[k, L.canon(v)] for k, v in var if isinstance(k, int)], key=lambda x: x[0])
                        b: dict = {}
                        for k, v in var:
                            if isinstance(k, str):
                                b.setdefault(k, []).append(L.canon(v))
                        reqs.append({'op': 'unordered', 'script': script, 'cdata': cd,
                                     'buckets': [[k, vs] for k, vs in b.items()]})
                    meta.append((case, out))
    if drv is not None and reqs:
        for (case, want), ans in zip(meta, drv.query(reqs)):
            ctx.traces += 1
            if ans != want:
                ctx.mismatch(f'{case["helper"]} ({case["form"]})', case, want, ans)



# ------------------------------------------------------------------------------------ direct one-level calls

DIRECT_XSD = ('<xs:schema xmlns:xs="http://www.w3.org/2001/XMLSchema"><xs:element name="root"><xs:complexType '
              'mixed="true"><xs:sequence><xs:element name="a" type="xs:int" minOccurs="0" maxOccurs="unbounded"/>'
              '<xs:element name="b" type="xs:int" minOccurs="0"/><xs:element name="l" minOccurs="0" maxOccurs="2">'
              '<xs:simpleType><xs:list itemType="xs:int"/></xs:simpleType></xs:element></xs:sequence>'
              '<xs:attribute name="a" type="xs:string"/><xs:attribute name="k" type="xs:string"/>'
              '</xs:complexType></xs:element></xs:schema>')

# witnesses of the `_counterexample` theorems of Props/C05.lean: (theorem, converter, options, attributes,
# content as [name | cdata number, value], expected keys of the content that comes back)
WITNESSES = [
    ('dataelement_roundtrip_counterexample', 'dataelement', {}, [], [['a', 'DE:1'], [1, 'x'], [2, 'y']], ['a', '#']),
    ('default_roundtrip_counterexample_noncontiguous', 'default', {}, [], [['a', 1], ['b', 2], ['a', 3]],
     ['a', 'a', 'b']),
    ('default_roundtrip_counterexample_mixed_text', 'default', {}, [], [[1, 'txt'], ['a', 1]], ['a']),
    ('default_roundtrip_counterexample_key_collision', 'default', {'attr_prefix': ''}, [['a', 'x']], [['a', 1]],
     ['a', 'a']),
]


def _direct_env():
    if 'env' not in _ORD:
        import xmlschema
        schema = xmlschema.XMLSchema(DIRECT_XSD)
        root = schema.elements['root']
        kids = {e.name: e for e in root.type.content.iter_elements()}
        table = SchemaTable()
        ty = table.type_id(root, root.type)
        _ORD['env'] = (schema, root, kids, table, ty)
    return _ORD['env']


def direct_decode(cname: str, opts: dict, attrs: list, content: list, text=None, xmlns=None):
    """one real `element_decode` + `element_encode` of a hand-made ElementData at level 1, and the requests for
    the same two calls on the Lean model"""
    from xmlschema.converters import ElementData
    from xmlschema.dataobjects import DataElement
    schema, root, kids, table, ty = _direct_env()
    conv = conv_classes()[cname](**opts)
    cont, items = [], []
    for k, v in content:
        if isinstance(k, int):
            cont.append((k, v, None))
            items.append({'c': [k, L.canon(v)]})
        else:
            if isinstance(v, str) and v.startswith('DE:'):
                v = DataElement(k, int(v[3:]))
            xc = kids.get(k)
            cont.append((k, v, xc))
            items.append({'n': [k, bool(xc.is_single()) if xc is not None else False, L.canon(v)]})
    data = ElementData('root', text, cont or None, list(attrs), xmlns)
    hd = {'tag': 'root', 'attrs': [[k, L.canon(v)] for k, v in attrs], 'xmlns': [list(p) for p in (xmlns or [])]}
    if text is not None:
        hd['text'] = L.canon(text)
    use_ns = bool(opts.get('process_namespaces', True))
    base = {'conv': cname, 'useNs': use_ns, 'sch': table.facts, 'opts': opts,
            'mapper': {'tags': [], 'attrs': []}}
    try:
        r = conv.element_decode(data, root, None, 1)
        want_dec = L.canon(r)
    except AssertionError:
        r, want_dec = None, {'a': ['!raise', 'AssertionError']}
    except Exception as e:  # noqa
        r, want_dec = None, {'a': ['!raise', type(e).__name__]}
    reqs = [dict(base, op='dec1', ty=ty, hd=hd, items=items)]
    wants = [('dec1', want_dec)]
    keys = None
    if r is not None or want_dec is None:
        req, want, keys = direct_encode(cname, opts, r)
        reqs.append(req)
        wants.append(('enc1', want))
    return reqs, wants, keys


def direct_encode(cname: str, opts: dict, obj):
    schema, root, kids, table, ty = _direct_env()
    conv = conv_classes()[cname](**opts)
    use_ns = bool(opts.get('process_namespaces', True))
    keys = None
    try:
        ed = conv.element_encode(obj, root, 1)
        edj = ed_json(ed)
        want = {'error': 'raw'} if 'raw' in edj else {'ok': edj}
        if 'raw' not in edj:
            keys = ['#' if 'c' in it else it['n'][0] for it in edj['items']]
    except (ValueError, TypeError):
        want = {'error': 'caught'}
    except Exception as e:  # noqa
        want = {'error': 'leak'}
    req = {'conv': cname, 'useNs': use_ns, 'sch': table.facts, 'opts': opts, 'op': 'enc1', 'ty': ty, 'name': 'root',
           'mapper': unmap_tables(conv, obj, root), 'obj': L.canon(obj)}
    return req, want, keys


def rand_value(rng, depth=0):
    from xmlschema.dataobjects import DataElement
    r = rng.random()
    if r < 0.35:
        return rng.choice([1, 0, 'x', '', True, 1.5, None])
    if r < 0.55 and depth < 2:
        return {rng.choice(['@k', '$', 'a', 'zz', '#1']): rand_value(rng, depth + 1) for _ in range(rng.choice([0, 1, 2]))}
    if r < 0.85 and depth < 2:
        return [rand_value(rng, depth + 1) for _ in range(rng.choice([0, 1, 2, 3]))]
    return rng.choice([None, 7, 'y'])


def direct_cases(ctx: Ctx, drv: Optional[Driver], n: int) -> None:
    """hand-made one-level inputs: the witnesses of the `_counterexample` theorems (replayed on the real
    converters: the loss must show on the real code too) and random ElementData / data objects that reach the
    branches which documents decoded from valid instances do not (list values, empty lists, foreign keys,
    objects that are not DataElements, adjacent cdata parts)"""
    from xmlschema.dataobjects import DataElement
    rng = ctx.rng
    reqs, metas = [], []
    for thm, cname, opts, attrs, content, expect in WITNESSES:
        case = {'witness': thm, 'converter': cname, 'options': opts, 'attrs': attrs, 'content': content}
        ctx.case(case, True, tag='witness')
        rq, wants, keys = direct_decode(cname, opts, attrs, content)
        if keys != expect:
            # the theorem says what the *model* loses; the real code must lose the same
            ctx.mismatch(f'witness of {thm}: the real converter returns other content keys', case, keys, expect)
        ctx.traces += 1
        for q, w in zip(rq, wants):
            reqs.append(q)
            metas.append((case, w))
    for i in range(n):
        cname = rng.choice(['default', 'default', 'dataelement'])
        if cname == 'default':
            opts = rng.choice([{}, {'cdata_prefix': '#'}, {'force_list': True}, {'force_dict': True}, {'attr_prefix': ''},
                               {'attr_prefix': None}, {'text_key': None}, {'cdata_prefix': '#', 'force_list': True},
                               {'process_namespaces': False}, {'attr_prefix': '_', 'text_key': '#text'}])
        else:
            opts = {}
        if rng.random() < 0.5:
            # decode side
            names = rng.choice([['a'], ['a', 'b'], ['a', 'b', 'l'], ['b', 'l']])   # declared children only (Item.child has a declaration)
            content = []
            for _ in range(rng.choice([0, 1, 2, 3, 4, 5])):
                if rng.random() < 0.25:
                    content.append([len(content) + 1, rng.choice(['t', 'u v', ''])])
                else:
                    k = rng.choice(names)
                    if cname == 'dataelement':
                        v = DataElement(k, rng.choice([1, None, 'x'])) if rng.random() < 0.9 else rng.choice([5, None, [1]])
                    else:
                        v = rand_value(rng) if k != 'l' else rng.choice([[1, 2], [], None, [3]])
                    content.append([k, v])
            attrs = rng.choice([[], [], [['k', 'v']], [['a', 'x'], ['k', 'v']]])
            text = rng.choice([None, None, 'txt', 5]) if not content or rng.random() < 0.2 else None
            xmlns = rng.choice([None, None, [('p', 'urn:p')], [('', 'urn:d'), ('p', 'urn:p')]])
            case = {'direct': 'decode', 'converter': cname, 'options': opts, 'attrs': attrs, 'text': text,
                    'xmlns': xmlns, 'content': [[k, L.canon(v)] for k, v in content]}
            rq, wants, _ = direct_decode(cname, opts, attrs, content, text, xmlns)
        else:
            if cname == 'dataelement':
                if rng.random() < 0.3:
                    obj = rng.choice([None, 5, 'x', {'a': 1}, [1], []])
                else:
                    obj = DataElement(rng.choice(['root', 'root', 'zz']), rng.choice([None, 1, 't']),
                                      rng.choice([None, {'k': 'v'}, {'k': 'v', 'zz': 1}]),
                                      xmlns=rng.choice([None, [('p', 'urn:p')]]))
                    for _ in range(rng.choice([0, 1, 2, 3])):
                        c = DataElement(rng.choice(['a', 'b', 'zz']), rng.choice([1, None]))
                        c.tail = rng.choice([None, None, 't', 5])
                        obj.append(c)
                    if len(obj) and rng.random() < 0.2:
                        obj[rng.randrange(len(obj))] = rng.choice([5, None, 'x'])
            else:
                r = rng.random()
                if r < 0.25:
                    obj = rng.choice([None, 5, 'x', '', 0, [], [1], [[1]], 1.5, True])
                else:
                    keys = ['$', '@k', '@a', '@', '@xmlns:p', '@xmlns', 'xmlns:p', '#1', '#x', '#', 'a', 'b', 'l', 'zz',
                            '_k', '#text', 'k', 'p:a']
                    obj = {}
                    for _ in range(rng.choice([0, 1, 2, 3, 4])):
                        k = rng.choice(keys)
                        obj[k] = 'urn:p' if 'xmlns' in k else rand_value(rng)
            case = {'direct': 'encode', 'converter': cname, 'options': opts, 'obj': L.canon(obj)}
            q, w, _ = direct_encode(cname, opts, obj)
            rq, wants = [q], [('enc1', w)]
        ctx.case(case, True, tag=f'direct/{cname}')
        for q, w in zip(rq, wants):
            reqs.append(q)
            metas.append((case, w))
    if drv is None:
        return
    for (case, (kind, want)), ans in zip(metas, drv.query(reqs)):
        ctx.traces += 1
        if 'err' in ans:
            ctx.mismatch(f'direct {kind}: driver error', case, want, ans)
            continue
        got = ans['v'] if kind == 'dec1' else ans['enc']
        if kind == 'enc1' and 'error' in got and got['error'] == 'nochild':
            got = {'error': 'caught'}
        if got != want:
            ctx.mismatch(f'direct {kind} ({case["converter"]})', case, want, got)
        ctx.count(f'direct-{kind}:' + ('ok' if kind == 'dec1' and not (isinstance(want, dict) and want.get('a', [''])[0] == '!raise')
                                     else 'raise' if kind == 'dec1' else 'ok' if 'ok' in want else want['error']))

# witness of theorem `iter_collapsed_fifo_witness` (Props/C05.lean): content model, content, the successive states
# of the visitor that the theorem assumes, the order of the values that must come out
FIFO_XSD = ('<xs:schema xmlns:xs="http://www.w3.org/2001/XMLSchema"><xs:element name="r"><xs:complexType><xs:sequence>'
            '<xs:sequence maxOccurs="6"><xs:element name="a" type="xs:int"/><xs:element name="b" type="xs:int" '
            'minOccurs="0"/></xs:sequence><xs:element name="c" type="xs:int"/></xs:sequence></xs:complexType>'
            '</xs:element></xs:schema>')
FIFO_CONTENT = [('a', 1), ('a', 2), ('a', 3), ('a', 4), ('a', 5), ('c', 9)]
FIFO_SCRIPT = [['a'], ['b']] * 5 + [['a'], ['c'], None]


def fifo_witness(ctx: Ctx, drv: Optional[Driver]) -> None:
    """the theorem's witness on the real `iter_collapsed_content` with the real ModelVisitor: the visitor behaves
    as the theorem assumes and the buffered same-named values come back first in, first out"""
    import xmlschema
    group = xmlschema.XMLSchema(FIFO_XSD).elements['r'].type.model_group
    script, out = run_order('iter_collapsed_content', list(FIFO_CONTENT), group, ['a', 'b', 'c'])
    case = {'witness': 'iter_collapsed_fifo_witness', 'helper': 'iter_collapsed_content', 'form': 'list',
            'variant': 'as-encoded', 'element': 'r', 'xsd': FIFO_XSD,
            'xml': '<r><a>1</a><a>2</a><a>3</a><a>4</a><a>5</a><c>9</c></r>',
            'content': [[k, L.canon(v)] for k, v in FIFO_CONTENT]}
    ctx.case(case, True, tag='witness')
    ctx.traces += 1
    if script != FIFO_SCRIPT:
        ctx.mismatch('witness of iter_collapsed_fifo_witness: the real ModelVisitor takes other states', case, script,
                     FIFO_SCRIPT)
    if 'ok' not in out or not stable_order(case['content'], out['ok']):
        ctx.failure('iter_collapsed_content changed the relative order of same-named entries of a valid content',
                    case, {'output': out})
    if drv is not None:
        items = [{'n': [k, False, L.canon(v)]} for k, v in FIFO_CONTENT]
        ans = drv.query([{'op': 'collapsed', 'script': script, 'content': items}])[0]
        ctx.traces += 1
        if ans != out:
            ctx.mismatch('iter_collapsed_content (witness)', case, out, ans)


# ------------------------------------------------------------------------------------ run

def build_units(ctx: Ctx, n_schemas: int, n_inst: int, nested_rate: float = 0.8):
    import xmlschema
    rng = ctx.rng
    sid = 0
    made = 0
    while made < n_schemas and sid < n_schemas * 3:
        sid += 1
        ast = L.gen_schema(rng)
        xsd = L.xsd_text(ast)
        try:
            schema = xmlschema.XMLSchema(xsd)
        except Exception:
            ctx.count('gen:schema-rejected')
            continue
        made += 1
        for _ in range(n_inst):
            xml, root = L.gen_instance(rng, ast)
            gstats = dict(L.LAST_STATS)
            try:
                ok = schema.is_valid(xml)
            except Exception:
                ok = False
            if not ok:
                ctx.count('gen:instance-invalid')
                continue
            for k in gstats:
                ctx.count('doc:' + k)
            yield Unit(sid, xsd, schema, xml, root, ast)
            if len(root) and rng.random() < nested_rate:
                # the same instance with namespace (re)declarations nested at random depths
                xml_n, st = L.serialize_nested(rng, root, ast['tns'], Unit(sid, xsd, schema, xml, root, ast).pfx)
                if not st['decl-elements']:
                    ctx.count('gen:nested-no-declaration')
                    continue
                try:
                    ok = schema.is_valid(xml_n)
                except Exception:
                    ok = False
                if not ok:
                    ctx.count('gen:nested-instance-invalid')
                    continue
                # (the generated text itself may repeat the root binding on inner elements: `hoisted()` re-serialises)
                yield Unit(sid, xsd, schema, xml_n, root, ast, nsstats=st)


def branches(u: Unit) -> list[str]:
    b = []
    r = u.root
    if any(e.attrib for e in r.iter()):
        b.append('attrs')
    if u.mixed_text:
        b.append('cdata')
    if len(r):
        b.append('children')
    if not u.contiguous:
        b.append('noncontig')
    if any(len(e) > len({c.tag for c in e}) for e in r.iter()):
        b.append('repeated')
    if u.inner_xmlns:
        b.append('inner-xmlns')
    if any(len({k.split('}')[-1] for k in e.attrib}) < len(e.attrib) for e in r.iter()):
        b.append('attr-twin')       # one local name, once in the target namespace and once in no namespace
    return b


def count_nsdecl(ctx: Ctx, u: Unit) -> None:
    """distribution of the nested-namespace-declaration dimension (one count per document)"""
    st = u.nsstats
    if not st:
        return
    ctx.count('doc:nsdecl')
    ctx.count('nsdecl:declaring elements nested %s deep' % ('1' if st['max-decl-depth'] <= 1 else '>=2'))
    for a in st['actions']:
        ctx.count('nsdecl:action:' + a)
    if st['rebind']:
        ctx.count('nsdecl:re-binds an in-scope prefix / the default namespace')
    if st['multi-pop']:
        ctx.count('nsdecl:a later element leaves >=2 declaring elements at once')
    if st['multi-pop-rebind-then-later']:
        ctx.count('nsdecl:a later element leaves >=2 declaring elements at once, the outermost re-binding')


def explore(ctx: Ctx, drv: Optional[Driver], n_schemas: int, n_inst: int, n_mut: int) -> None:
    for u in build_units(ctx, n_schemas, n_inst):
        br = branches(u)
        ctx.count('doc:elements<=%d' % min(64, 1 << max(0, (sum(1 for _ in u.root.iter()) - 1)).bit_length()))
        for b in br:
            ctx.count('doc:' + b)
        count_nsdecl(ctx, u)
        for cname in conv_classes():
            for opts in option_sets(cname, ctx.rng, u.mixed_text):
                res = roundtrip(ctx, u, cname, opts)
                case = {k: res['case'][k] for k in ('sid', 'xml', 'converter', 'options')}
                ctx.case(case, bool(br), tag=f'rt/{cname}')
                ctx.count(f'rt-outcome/{cname}:{res.get("outcome")}')
                pend: list = []
                if 'data' in res and n_mut:
                    soundness(ctx, u, cname, opts, res['data'], n_mut, pend)
                    soundness(ctx, u, cname, opts, res['data'], 0, pend, attrs=True)
                if drv is not None and 'data' in res:
                    compare_model(ctx, drv, u, cname, opts, res, pend)
                if cname == 'badgerfish' and not opts and 'data' in res:
                    order_cases(ctx, drv, u, res, 6)
        if ctx.time_left() < 120:
            ctx.notes.append('time box reached; exploration cut short')
            break


def load_findings(ctx: Ctx) -> None:
    if FINDINGS_FILE.exists():
        data = json.loads(FINDINGS_FILE.read_text())
        have = {e['id'] for e in ctx.known}
        ctx.known.extend(e for e in data.get('findings', []) if e['id'] not in have)


def run(ctx: Ctx, driver_ok: bool) -> None:
    load_findings(ctx)
    drv = Driver('drv_c05') if driver_ok else None
    # strict-encode soundness of the content model: theorem `strict_encode_sound` (Props/C05Encode.lean) is about
    # the Lean ports of the encoder's and the validator's child loops; this run ties the encoder's loop to its port
    # (the validator's loop is tied by C01) and evaluates the clause on the real code
    from harness.props import c01 as _c01
    _c01.encoder_family(ctx, Driver('drv_c01') if driver_ok else None, ctx.pick(40, 300), known_fid='C05-F10')
    direct_cases(ctx, drv, ctx.pick(600, 6000))
    fifo_witness(ctx, drv)
    explore(ctx, drv, ctx.pick(50, 250), ctx.pick(3, 5), ctx.pick(4, 6))
    ctx.extra['explanation'] = ('seeded random schemas x valid instances (each also re-serialised with random nested '
                                'namespace (re)declarations) x 5 converter classes x options; per case: '
                                'round trip on the real code, mutated-data strict encode, Lean model comparison '
                                '(JsonML, DataElement, default: every element_decode/element_encode call + whole tree, '
                                'JsonML/DataElement also through the scoped recursion with one name mapping per lexical '
                                'scope, plus hand-made one-level calls and the witnesses of the _counterexample theorems; '
                                'iter_unordered_content/iter_collapsed_content replayed with the recorded visitor)')
    # the replay file names the first failure: put the ones that carry a whole replayable input first (a valid
    # document whose round trip fails, then mutated data), the bare "finding X fails again" records last
    def rank(f):
        c = f.get('case')
        if isinstance(c, dict) and 'xsd' in c and 'xml' in c:
            if 'mutation' in c:
                return 2
            return 0 if 'converter' in c else 1      # a document whose round trip fails, then helper / witness cases
        return 3
    ctx.failures.sort(key=rank)
    ctx.extra['converters_modelled_in_lean'] = list(MODELLED)
    ctx.extra['counterexample_witnesses_replayed_on_real_code'] = [w[0] for w in WITNESSES] + \
        ['iter_collapsed_fifo_witness']
    ctx.extra['converters_differential_only'] = [c for c in conv_classes() if c not in MODELLED]


def search(ctx: Ctx) -> None:
    if ctx.quick():
        explore(ctx, None, 80, 4, 4)


def replay(ctx: Ctx, obj: dict) -> int:
    import xmlschema
    from xmlschema import XMLSchemaValidationError
    print(json.dumps(obj, indent=1, default=str)[:6000])
    case = obj.get('input')
    if not case or 'xsd' not in case:
        return 0
    schema = xmlschema.XMLSchema(case['xsd'])
    u = Unit(case.get('sid', 0), case['xsd'], schema, case['xml'], ET.fromstring(case['xml']), {})
    load_findings(ctx)
    if 'helper' in case:
        # content re-ordering helper: find the element declaration by name and re-run
        from collections import Counter
        xe = next((e for e in schema.iter_components() if getattr(e, 'name', None) == case['element']
                   and hasattr(e, 'type') and e.type.model_group is not None), None)
        if xe is None:
            print('element declaration not found')
            return 1
        var = [(k, L.uncanon(v)) for k, v in case['content']]
        script, out = run_order(case['helper'], var, xe.type.model_group,
                                sorted({k for k, _ in var if isinstance(k, str)}))
        print('real output:', json.dumps(out, default=str)[:2000])
        want = Counter(json.dumps([k, v], sort_keys=True) for k, v in case['content'])
        got = Counter(json.dumps(x['c'] if 'c' in x else x['n'], sort_keys=True) for x in out.get('ok', []))
        bad = 'ok' not in out or want != got
        if not bad and case.get('variant') == 'as-encoded' and case.get('form') == 'list' and \
                not stable_order(case['content'], out['ok']):
            print('JUDGEMENT: FAILS ON THE REAL CODE: same-named entries of a valid content change their relative order')
            return 1
        print('JUDGEMENT:', 'FAILS ON THE REAL CODE: not a permutation of the input' if bad else 'holds')
        return 1 if bad else 0
    if 'mutation' in case:
        cname, opts = case['converter'], case.get('options', {})
        data = L.uncanon(case['data'])
        try:
            elem = schema.encode(data, converter=conv_classes()[cname], validation='strict', **opts)
        except XMLSchemaValidationError as e:
            print('real code: raised a validation error ->', str(e).split('Reason:')[-1][:200].strip())
            print('JUDGEMENT: holds')
            return 0
        except Exception as e:
            site = leak_site(e)
            print('real code: raised', site)
            fid = known_match(dict(case, leak_site=site), {'outcome': 'raised-' + classify_exc(e)})
            print('JUDGEMENT:', 'known finding ' + fid if fid else 'FAILS ON THE REAL CODE: neither a validation error nor XML')
            return 0 if fid else 1
        try:
            xml2 = tostring(elem, u)
            ok = schema.is_valid(xml2)
        except Exception as e:
            ok, xml2 = False, 'serialise: ' + repr(e)[:200]
        print('real code: returned', xml2[:1500])
        print('is_valid:', ok)
        if ok:
            print('JUDGEMENT: holds')
            return 0
        rs = invalid_reasons(schema, xml2) if not xml2.startswith('serialise:') else None
        nonstr = any((x.text is not None and not isinstance(x.text, str)) or
                     (x.tail is not None and not isinstance(x.tail, str)) for x in elem.iter())
        fid = known_match(case, {'xml2': xml2, 'reasons': sorted(rs) if rs else None, 'nonstr': nonstr})
        print('JUDGEMENT:', 'known finding ' + fid if fid else
              'FAILS ON THE REAL CODE: strict encode returned XML that the schema rejects')
        return 0 if fid else 1
    res = roundtrip(ctx, u, case['converter'], case.get('options', {}))
    print('outcome on the real code:', res.get('outcome'))
    if 'xml2' in res:
        print('re-encoded document:', res['xml2'][:1500])
    for f in ctx.failures:
        print('FAILS ON THE REAL CODE:', f['what'], json.dumps(f['detail'], default=str)[:2000])
    if not ctx.failures:
        print('JUDGEMENT: holds' + (' (known findings: %s)' % ctx.known_hits if ctx.known_hits else ''))
    return 1 if ctx.failures else 0
