"""
C09 — a schema means the same however its declarations are ordered, split or stored.

Metamorphic check on the real code: seeded random schemas (harness/lib_schemagen.py: simple/complex types,
groups, attribute groups, attributes, elements with substitution groups, two imported namespaces, forward
references everywhere) and corpus schemas (tests/test_cases/examples) are re-arranged
  * permutation of the global declarations,
  * 2-3 way splits into included documents (flat / chain / diamond / sub-directory / include cycle),
  * location spellings (relative, dotted, x/../, absolute path, file: URL) of includes, imports and of
    the schema itself,
  * layouts of SEVERAL DIRECTORIES whose file names repeat (main.xsd, common.xsd | sub/part.xsd, sub/common.xsd |
    sub/deep/common.xsd; the imported namespaces in ns_a.xsd and sub/ns_a.xsd): the same relative string names
    different files depending on the directory of the document that writes it (topologies twin / twin-deep with
    all-relative or mixed spellings, both orders of the main document's includes, `../` back references), and a
    hand-written family of the same layout composed by xs:include / xs:redefine / xs:override (1.1) / xs:import
    in every spelling and both orders of the independent composition children,
  * import order of the other namespaces,
  * HISTORIES of storage operations on one schema object: shallow copy, maps.copy()+build, pickle round trip,
    clear()+build() (once, twice, after/before a pickle or a copy), a rebuild triggered by registering one more
    namespace,
  * types whose attribute wildcard is COMPUTED from shared components (several referenced attribute groups, a local
    xs:anyAttribute, the base type under an extension; every form of namespace constraint incl. the 1.1 ones) and
    element wildcards in global model groups shared by several types; an exhaustive family of all ordered pairs of
    constraint forms in three declaration orders; a PURITY MONITOR that fingerprints every global component when its
    constructor returns, at the end of the build and after validation (a constructor must not change a component
    that is already built),
  * XSD 1.1 components whose XPath tests are TEXTUALLY IDENTICAL while their operands are typed differently (xs:assert
    over attributes and children, assertion facets over $value, type alternatives; int / decimal / double / string /
    date), with an exhaustive family of all ordered pairs of typings; the purity monitor also checks the XPath
    machinery: every parser / token object serves one component and a schema-bound parser is bound to its own,
  * components that are resolved through a maps-level REGISTRY of XsdGlobals beside the six staged maps
    (harness/lib_c09reg.py): xs:key/xs:unique referred by an xs:keyref (or an XSD 1.1 `ref`) declared on another
    element (key on the same element / a nested local element / a local element of a named type / of a global
    group / a global element used by reference), substitution groups (abstract head, member of member, blocked),
    notations (xs:NOTATION enumerations), types reached by xsi:type and by XSD 1.1 type alternatives, with probe
    instances that exercise exactly those references; a quarter of the schemas is built with XMLSchema11,
and every arrangement is compared with the base arrangement on: sorted (class, qname) of the global
components, and for every probe instance (valid and seeded-invalid) the error list and the decoded data.

Tie to the Lean model (XsVerif/Model/Staged.lean, theorems in Props/C09.lean): the real build is
instrumented from the outside (StagedMap.load / __getitem__ / _build_global / GlobalMaps.build are
wrapped, nothing in /repo is modified); the flattened declaration list (what the loader really staged, in
order, with the identity of each (elem, schema)), the names each constructor looked up, the staging order,
the DFS event trace (enter/exit/hit/circ/missing), the duplicate-declaration errors, the normalised
include/import locations and the registration order of included documents are compared with the model.
For arrangement B the model is ALSO run with the dependencies observed in arrangement A (purity of the
constructors: the looked-up names do not depend on the order) and must predict B's trace.

Tie of "building twice" (XsVerif/Model/Rebuild.lean, section Rebuild of Props/C09.lean): after every step of a
history the registries of the real XsdGlobals (the `_store` of the staged maps, maps.identities,
maps.substitution_groups, the object every keyref is bound to, the cached views of the schemas) are read with the
GENERATION of every object (which build created it: harness/lib_c09reg.Epochs) and compared with the model run on
the requests that the real components issue; the model clears like /repo does, so an entry that survives clear()
is a mismatch even where the surviving object behaves like the new one, and the number of "not found" errors of
the identity probes must be the model's (= the dangling references, theorem keyref_errors_after_any_history).
"""
from __future__ import annotations

import copy
import json
import os
import pickle
import re
import shutil
import tempfile
import random
from pathlib import Path
from typing import Any, Optional

from harness.core import Ctx, Driver, REPO, VERIF
from harness.lib_schemagen import Schema, HEAD, TAIL, NSA, NSB, TNS
from harness.lib_c09reg import Features, Epochs, registry_view, fingerprint, diff_fp, xpath_bindings

FINDINGS_FILE = VERIF / 'notes' / 'findings' / 'C09.json'
PROPS = 'XsVerif.Props.C09'
AUDIT = 'XsVerif.Audit.C09'
LEAN_TARGETS = ['XsVerif.Props.C09', 'drv_c09']
LEANCHECK = ['XsVerif.Model.Staged', 'XsVerif.Lemmas.Staged', 'XsVerif.Model.Rebuild', 'XsVerif.Lemmas.Rebuild',
             'XsVerif.Props.C09']
RULE = ('a case = (schema, arrangement or step of a storage history, probe set) compared with the base arrangement of '
        'the same schema; non-trivial = the real build of the arrangement resolved at least one forward reference on '
        'demand (an `enter` nested inside another `enter` in the observed trace) and the probe set produced both '
        'valid and invalid verdicts; distinct by canonical JSON of (schema id, arrangement description, history '
        'prefix).  Histogram tags: registry:* = which maps-level registry the schema exercises (identity/<where the '
        'referenced key is declared>, substitution-group, notation, types-by-xsi:type, types-by-alternative), '
        'probe[<purpose>]:valid|invalid = verdict of the dedicated probe on the base arrangement, storage:<operation>'
        '[/after-n-rebuilds], history-step:generation-n = registry states compared with the model, processor:*, '
        'wildcard-form:* / wildcard-combination:* = constraint forms and the ways (intersection of group refs, local '
        'anyAttribute, union by extension, nested groups, shared model groups) in which the generated types compute '
        'their wildcards from shared components, wildcard-pair:* = exhaustive family of ordered pairs of forms, '
        'purity-monitor:components-fingerprinted, repeated-file-names:* = layouts of several directories with repeated '
        'basenames (spelling mode, order of the main includes), directory-family:<composition>/<spelling>, '
        'storage:<operation>/before-any-validation = copies taken from a schema object that has not validated yet, '
        'registry:identical-xpath-tests + xpath-operand-typing(attributes|children|$value):<type> = XSD 1.1 components '
        'with textually identical XPath tests over differently typed operands, assertion-pair = exhaustive family of '
        'ordered pairs of typings')
TRUSTED = ['component constructors are modelled by the free interpretation (a component = tree of what its '
           'constructor looked up); their purity is monitored, not proved: (1) the deps observed in one arrangement '
           'must predict the trace of every other arrangement, (2) every global component is fingerprinted (declared '
           'content of it and of the anonymous components reachable from it; shared values described in place) when '
           'its constructor returns, at the end of the build and after the probes were validated: a change is reported '
           'as a failing input naming the component (hypothesis PureCtor of pure_ctors_order_independent)',
           'urlsplit / pathlib / the file system: only the dot-segment normalisation of joined paths is modelled',
           'copy / pickle are exercised on the real code; of a rebuild the registries and their clearing are modelled '
           '(Model/Rebuild.lean), objects being abstracted to (declaration, generation)']
ASSUMPTIONS = ['identity constraints: one declaration per name (registry_spec: Functional); the generation tie reads '
               'the schema-level cached views (root_elements, simple_types, complex_types, components) before each '
               'rebuild so that a view that survives a rebuild is seen',
               'no circular definitions and pairwise distinct global names per symbol space (hypotheses of '
               'arrangement_independent; circular and duplicate declarations are generated too, for the '
               'model correspondence only: there the reported error legitimately depends on the order)',
               'redefine/override are out of scope of the order-independence statement (they are ordered by definition)']

MEMO_BUILTINS = ('{http://www.w3.org/2001/XMLSchema}anySimpleType', '{http://www.w3.org/2001/XMLSchema}anyAtomicType')
KINDS = {'NotationsMap': 0, 'AttributesMap': 1, 'AttributeGroupsMap': 2, 'TypesMap': 3, 'ElementsMap': 4,
         'GroupsMap': 5}


# =============================================================================================
#  instrumentation of the real build (from outside)
# =============================================================================================
class Recorder:
    """Wraps StagedMap.load/__getitem__/_build_global and GlobalMaps.build; records per map object."""
    active: Optional['Recorder'] = None
    installed = False

    def __init__(self, monitor: bool = False) -> None:
        # purity monitor: fingerprint of every global right after its constructor returned / at the end of
        # GlobalMaps.build / after the probes were validated
        self.monitor = monitor
        self.fp1: dict = {}          # name -> (component, shallow fingerprint at the exit of its constructor)
        self.fp2: dict = {}          # name -> (component, deep fingerprint at the end of the build)
        self.mutations: list = []
        self.loads: list = []        # (map, name, elem, schema, dup_error)
        self.events: list = []       # (map, tag, name)
        self.deps: dict = {}         # (id(map), qname) -> [names]
        self.snap: list = []         # (globalmaps, [[names of staging per map]])
        self.stack: list = []
        self.keep: list = []

    @classmethod
    def install(cls) -> None:
        if cls.installed:
            return
        from xmlschema.validators import builders as B
        SM, GM = B.StagedMap, B.GlobalMaps
        o_load, o_get, o_bg, o_build = SM.load, SM.__getitem__, SM._build_global, GM.build

        def load(self, qname, elem, schema):
            r = cls.active
            if r is None:
                return o_load(self, qname, elem, schema)
            n0 = len(schema.errors)
            try:
                return o_load(self, qname, elem, schema)
            finally:
                r.keep.append(self)
                r.loads.append((id(self), type(self).__name__, qname, elem, schema, len(schema.errors) > n0))

        def getitem(self, qname):
            r = cls.active
            # (xs:anySimpleType / xs:anyAtomicType are read through cached properties of the maps
            #  — xsd_globals.py:176-186 — so only the FIRST reader of a build looks them up: a memo of a
            #  built-in without dependencies, not a dependency of that reader)
            if r is not None and r.stack and qname not in MEMO_BUILTINS:
                top = r.stack[-1]
                name = f'{KINDS[type(self).__name__]}|{qname}'
                r.deps.setdefault(top, []).append(name)
                if qname in self._store:
                    r.events.append((top[0], 'hit', name))
                elif qname not in self._staging:
                    r.events.append((top[0], 'missing', name))
            return o_get(self, qname)

        def build_global(self, qname):
            r = cls.active
            if r is None:
                return o_bg(self, qname)
            name = f'{KINDS[type(self).__name__]}|{qname}'
            obj = self._staging.get(qname)
            root = id(self)
            r.keep.append(self)
            if isinstance(obj, tuple) and len(obj) == 1:
                r.events.append((root, 'circ', name))
                return o_bg(self, qname)
            r.events.append((root, 'enter', name))
            key = (root, name)
            r.stack.append(key)
            r.deps.setdefault(key, [])
            try:
                res = o_bg(self, qname)
            except BaseException:
                r.stack.pop()
                r.events.append((root, 'abort', name))
                raise
            r.stack.pop()
            r.events.append((root, 'exit', name))
            if r.monitor and res.schema.meta_schema is not None:
                r.fp1[name] = (res, fingerprint(res, False))
            return res

        def gbuild(self, schemas):
            r = cls.active
            if r is not None:
                ms = sorted(self, key=lambda m: KINDS[type(m).__name__])
                r.snap.append((self, [list(m._staging) for m in ms],
                               [{q: v for q, v in m._staging.items()} for m in ms]))
            res = o_build(self, schemas)
            if r is not None and r.monitor:
                r.end_of_build()
            return res

        SM.load, SM.__getitem__, SM._build_global, GM.build = load, getitem, build_global, gbuild
        cls.installed = True

    def end_of_build(self) -> None:
        # XSD 1.1 admits cycles of attribute group references; a repaired library completes the members of a cycle
        # (and the groups that refer to them) AFTER their constructors returned (notes/fixes/C09-circular-
        # attribute-groups-complete.patch).  Only that is exempted: an XSD 1.1 attribute group of a build in which
        # a circular attribute group lookup happened, whose old entries are all still there.
        cyc = any(t == 'circ' and n.startswith('2|') for (_, t, n) in self.events)
        for name, (comp, fp) in self.fp1.items():
            now = fingerprint(comp, False)
            if now != fp and cyc and name.startswith('2|') and getattr(comp, 'xsd_version', '1.0') != '1.0' \
                    and isinstance(fp, list) and isinstance(now, list) and fp[:2] == now[:2] \
                    and all(e in now[2] for e in fp[2]):
                self.completed = getattr(self, 'completed', 0) + 1
            elif now != fp:
                self.mutations.append({'component': name, 'class': type(comp).__name__,
                                       'phase': 'between the return of its constructor and the end of the build',
                                       'change': diff_fp(fp, now)})
            self.fp2[name] = (comp, fingerprint(comp, True))
        for f in xpath_bindings([c for c, _ in self.fp1.values()]):
            self.mutations.append({'component': '; '.join(f['components'])[:600], 'class': 'XPath machinery',
                                   'phase': 'at the end of the build', 'change': f['what']})

    def after_validation(self) -> list:
        out = []
        for name, (comp, fp) in self.fp2.items():
            now = fingerprint(comp, True)
            if now != fp:
                out.append({'component': name, 'class': type(comp).__name__,
                            'phase': 'after the end of the build (checks of the built maps, validation of the probes)',
                            'change': diff_fp(fp, now)})
                self.fp2[name] = (comp, now)
        return out

    def __enter__(self) -> 'Recorder':
        Recorder.install()
        Recorder.active = self
        return self

    def __exit__(self, *a: Any) -> None:
        Recorder.active = None

    # ---- view for one XsdGlobals -----------------------------------------------------------
    def view(self, maps: Any) -> dict:
        gm = maps.global_maps
        mine = {id(m) for m in gm}
        ids: dict = {}

        def did(elem, schema):
            return ids.setdefault((id(elem), id(schema)), len(ids) + 1)
        snaps = [s for s in self.snap if s[0] is gm]
        # the last build of these maps (rebuilds append)
        flat = [(f'{KINDS[cn]}|{q}', did(e, s), dup) for (m, cn, q, e, s, dup) in self.loads if m in mine]
        ev = [[t, n] for (m, t, n) in self.events if m in mine]
        deps = {k[1]: v for k, v in self.deps.items() if k[0] in mine}
        staged = None
        winners = None
        if snaps:
            staged = [f'{k}|{q}' for k, names in enumerate(snaps[-1][1]) for q in names]
            winners = {}
            for k, d in enumerate(snaps[-1][2]):
                for q, v in d.items():
                    if isinstance(v, tuple) and len(v) == 2:
                        winners[f'{k}|{q}'] = did(v[0], v[1])
        return {'flat': flat, 'events': ev, 'deps': deps, 'staged': staged, 'winners': winners,
                'builds': len(snaps)}


def model_request(view: dict, deps_from: Optional[dict] = None) -> dict:
    """JSON request for drv_c09 from what was really staged (+ deps observed here or in another arrangement)."""
    deps = deps_from if deps_from is not None else view['deps']
    declared = {n for n, _, _ in view['flat']}
    pre = sorted({d for ds in deps.values() for d in ds if d not in declared
                  and any(e[0] == 'hit' and e[1] == d for e in view['events'])})
    winners = view['winners'] or {}
    decls = []
    for n, i, _ in view['flat']:
        # only the winning declaration is ever constructed: its lookups are the observed ones
        decls.append({'n': n, 'id': i, 'deps': deps.get(n, []) if winners.get(n, i) == i else []})
    return {'op': 'build', 'pre': pre, 'decls': decls}


# =============================================================================================
#  arrangements
# =============================================================================================
def spell(target: str, from_dir: str, how: str) -> str:
    rel = os.path.relpath(target, from_dir)
    if how == 'rel':
        return rel
    if how == 'dot':
        return './' + rel
    if how == 'updown':
        return 'zz/../' + rel
    if how == 'abs':
        return target
    return 'file://' + target


SPELLS = ['rel', 'dot', 'updown', 'abs', 'url']


def arrangements(sc: Schema, rng: random.Random, n_perm: int, n_split: int) -> list[dict]:
    """Descriptions of arrangements: {'kind', 'parts': [[decl idx]], 'topology', 'spells', 'imports', 'open'}"""
    n = len(sc.decls)
    out: list[dict] = [{'kind': 'base', 'parts': [list(range(n))], 'topology': 'single', 'imports': [0, 1],
                        'open': 'abs', 'spells': ['rel'] * 8}]
    df = sc.defs_first()
    out.append({'kind': 'defs-first', 'parts': [df], 'topology': 'single', 'imports': [0, 1], 'open': 'abs',
                'spells': ['rel'] * 8})
    out.append({'kind': 'uses-first', 'parts': [df[::-1]], 'topology': 'single', 'imports': [0, 1], 'open': 'abs',
                'spells': ['rel'] * 8})
    for _ in range(n_perm):
        p = list(range(n))
        rng.shuffle(p)
        out.append({'kind': 'perm', 'parts': [p], 'topology': 'single', 'imports': [0, 1], 'open': 'abs',
                    'spells': ['rel'] * 8})
    p = list(range(n))
    rng.shuffle(p)
    out.append({'kind': 'imports-swapped', 'parts': [p], 'topology': 'single', 'imports': [1, 0],
                'open': rng.choice(['abs', 'url']), 'spells': [rng.choice(SPELLS) for _ in range(8)]})
    out.append({'kind': 'spelling', 'parts': [list(range(n))], 'topology': 'single', 'imports': [0, 1],
                'open': rng.choice(['url', 'relcwd', 'dotted']), 'spells': [rng.choice(SPELLS) for _ in range(8)]})
    for _ in range(n_split):
        p = list(range(n))
        rng.shuffle(p)
        k = rng.choice([2, 3, 3])
        cuts = sorted(rng.sample(range(0, n + 1), k - 1))
        parts = [p[a:b] for a, b in zip([0] + cuts, cuts + [n])]
        topo = rng.choice(['flat', 'chain', 'diamond', 'subdir', 'cycle'] if k == 3 else ['flat', 'cycle', 'subdir'])
        out.append({'kind': f'split{k}', 'parts': parts, 'topology': topo, 'imports': rng.choice([[0, 1], [1, 0]]),
                    'open': rng.choice(['abs', 'url', 'dotted']), 'spells': [rng.choice(SPELLS) for _ in range(8)]})
    # documents of SEVERAL DIRECTORIES whose file names repeat (same basename, different content): the same
    # relative location string names different files depending on the directory of the including document
    p = list(range(n))
    rng.shuffle(p)
    k = rng.choice([4, 4, 5])
    cuts = sorted(rng.sample(range(0, n + 1), k - 1))
    parts = [p[a:b] for a, b in zip([0] + cuts, cuts + [n])]
    mode = rng.choice(['all-relative', 'all-relative', 'mixed'])
    out.append({'kind': f'split{k}', 'parts': parts, 'topology': 'twin' if k == 4 else 'twin-deep',
                'imports': rng.choice([[0, 1], [1, 0]]), 'open': rng.choice(['abs', 'url', 'dotted']),
                'spells': ['rel'] * 8 if mode == 'all-relative' else [rng.choice(SPELLS) for _ in range(8)],
                'twin': {'spelling': mode, 'main_order': rng.choice([[1, 2], [2, 1]]), 'back': rng.random() < 0.5,
                         'sub_order_swapped': rng.random() < 0.5}})
    return out


def write_arrangement(sc: Schema, arr: dict, root: str) -> dict:
    """Writes the files of an arrangement under `root`; returns {'main', 'files', 'docs', 'includes'}"""
    os.makedirs(root, exist_ok=True)
    files: dict[str, str] = {}
    for ns, doc in sc.import_docs.items():
        files[f'ns_{ns[-1]}.xsd'] = doc
    k = len(arr['parts'])
    topo = arr['topology']
    names = ['main.xsd'] + [f'p{i}.xsd' for i in range(1, k)]
    if topo == 'subdir' and k >= 2:
        names[-1] = 'sub/' + names[-1]
    inc: dict[int, list[int]] = {i: [] for i in range(k)}
    if k == 2:
        inc[0] = [1]
        if topo == 'cycle':
            inc[1] = [0]
        if topo == 'subdir':
            inc[1] = []
    elif k == 3:
        if topo in ('flat', 'subdir'):
            inc[0] = [1, 2]
            if topo == 'subdir':
                inc[2] = [1]
        elif topo == 'chain':
            inc[0] = [1]
            inc[1] = [2]
        elif topo == 'diamond':
            inc[0] = [1, 2]
            inc[1] = [2]
            inc[2] = [1]
        else:   # cycle
            inc[0] = [1]
            inc[1] = [2]
            inc[2] = [0]
    imports_all = sc.import_list()
    if topo.startswith('twin'):
        tw = arr['twin']
        names = ['main.xsd', 'common.xsd', 'sub/part.xsd', 'sub/common.xsd'] + (['sub/deep/common.xsd'] if k == 5 else [])
        inc[0] = list(tw['main_order'])
        inc[2] = [3] + ([4] if k == 5 else [])
        if tw['sub_order_swapped']:
            inc[2].reverse()
        if tw['back']:
            inc[3] = [1]                # '../common.xsd'
        if k == 5:
            inc[4] = [3]                # '../common.xsd' seen from sub/deep = sub/common.xsd
        # … and the imported namespaces: urn:b lives in sub/ns_a.xsd, the basename of urn:a's document
        if len(imports_all) == 2:
            imports_all = [imports_all[0], (imports_all[1][0], 'sub/ns_a.xsd')]
            files['sub/ns_a.xsd'] = files.pop('ns_b.xsd')
    sp = iter(arr['spells'] * 6)
    locs: list[dict] = []
    docs: list[dict] = []
    for i in range(k):
        path = os.path.join(root, names[i])
        d = os.path.dirname(path)
        text = HEAD
        for j in arr['imports']:
            if j < len(imports_all):
                ns, f = imports_all[j]
                how = next(sp)
                loc = spell(os.path.join(root, f), d, how)
                text += f'<xs:import namespace="{ns}" schemaLocation="{loc}"/>\n'
                locs.append({'dir': d, 'loc': loc, 'target': os.path.join(root, f)})
        incs = []
        for j in inc[i]:
            how = next(sp)
            loc = spell(os.path.join(root, names[j]), d, how)
            text += f'<xs:include schemaLocation="{loc}"/>\n'
            locs.append({'dir': d, 'loc': loc, 'target': os.path.join(root, names[j])})
            incs.append(loc)
        text += '\n'.join(sc.decls[x][2] for x in arr['parts'][i]) + '\n' + TAIL
        files[names[i]] = text
        docs.append({'path': path, 'dir': d, 'includes': incs})
    for rel, text in files.items():
        p = os.path.join(root, rel)
        os.makedirs(os.path.dirname(p), exist_ok=True)
        with open(p, 'w') as f:
            f.write(text)
    main = os.path.join(root, 'main.xsd')
    files['__root__'] = root       # absolute / file-URL spellings embed it: `materialise` relocates them at replay
    return {'main': main, 'files': files, 'locs': locs, 'docs': docs}


def materialise(files: dict, newroot: str) -> None:
    """writes stored arrangement files under `newroot`, relocating the absolute locations they contain"""
    old = files.get('__root__')
    for rel, text in files.items():
        if rel == '__root__':
            continue
        if old:
            text = text.replace(old, newroot)
        pth = os.path.join(newroot, rel)
        os.makedirs(os.path.dirname(pth), exist_ok=True)
        with open(pth, 'w') as f:
            f.write(text)


def open_source(main: str, how: str) -> str:
    if how == 'url':
        return 'file://' + main
    if how == 'relcwd':
        return os.path.relpath(main, os.getcwd())
    if how == 'dotted':
        d, f = os.path.split(main)
        return d + '/./qq/../' + f
    return main


# =============================================================================================
#  observation of the real code
# =============================================================================================
EXTRA_NS = 'urn:c09-extra'
EXTRA_XSD = ('<xs:schema xmlns:xs="http://www.w3.org/2001/XMLSchema" targetNamespace="urn:c09-extra" '
             'xmlns:x="urn:c09-extra"><xs:simpleType name="XS"><xs:restriction base="xs:int"/></xs:simpleType>'
             '<xs:element name="xe" type="x:XS"/></xs:schema>')


def globals_of(schema: Any) -> list:
    return sorted([type(c).__name__, c.name] for c in schema.maps.iter_globals()
                  if not c.name.startswith(('{http://www.w3.org/', 'xml:', '{urn:c09-')))


_ADDR = re.compile(r' at 0x[0-9a-fA-F]+')
_TMPPATH = re.compile(r"(?:file://)?/tmp/c09-[\w-]+/[^\s'\"]*/([^/\s'\"]+)")


def norm_text(s: str) -> str:
    """object addresses and the scratch directory of the arrangement are not part of an error"""
    return _TMPPATH.sub(r'<dir>/\1', _ADDR.sub(' at 0x?', s))


def observe(schema: Any, probes: list[str]) -> dict:
    import xmlschema
    res = []
    for xml in probes:
        try:
            errs = [[type(e).__name__, e.path, norm_text(str(e.reason))] for e in schema.iter_errors(xml)]
        except Exception as e:   # noqa  (whatever escapes must escape identically in every arrangement)
            errs = [['raised', type(e).__name__, norm_text(str(e))[:200]]]
        try:
            data, e2 = schema.decode(xml, validation='lax')
            dec = norm_text(json.dumps(data, default=str, sort_keys=True))
            ne = len(e2)
        except Exception as e:   # noqa
            dec, ne = 'raised ' + type(e).__name__, -1
        res.append({'errors': errs, 'decoded': dec, 'n': ne})
    return {'globals': globals_of(schema), 'probes': res,
            'schema_errors': sorted(str(e.message) for e in schema.all_errors)}


def build_real(main_source: str, validation: str = 'strict', cls: str = 'XMLSchema10') -> tuple[Any, dict]:
    import xmlschema
    with Recorder(monitor=True) as rec:
        schema = getattr(xmlschema, cls)(main_source, validation=validation)
    LAST['rec'] = rec
    return schema, rec.view(schema.maps)


LAST: dict = {}


def purity(ctx: Ctx, case: dict, extra: dict) -> None:
    """the purity monitor of the last build_real: constructors must not change a component that is already built"""
    rec = LAST.get('rec')
    if rec is None:
        return
    muts = rec.mutations + rec.after_validation()
    rec.mutations = []
    ctx.count('purity-monitor:components-fingerprinted', len(rec.fp2))
    for m in muts[:3]:
        if m.get('class') == 'XPath machinery':
            what = 'XPath machinery is not owned by one component: ' + m['change'][:90] + ' (' + m['component'][:200] + ')'
        else:
            what = 'constructors are not pure: a component that was already built was changed in place (' + m['component'] + ')'
        ctx.failure(what, dict(case, purity=True, **extra), m)


def segs(path: str) -> list[str]:
    return [s for s in path.split('/')]


def url_segs(url: str) -> list[str]:
    assert url.startswith('file://'), url
    return [s for s in url[7:].split('/') if s != '']


def nested_enter(events: list) -> bool:
    depth = 0
    for t, _ in events:
        if t == 'enter':
            depth += 1
            if depth > 1:
                return True
        elif t in ('exit', 'abort'):
            depth -= 1
    return False


# =============================================================================================
#  one schema, all its arrangements
# =============================================================================================
class Batch:
    def __init__(self) -> None:
        self.reqs: list = []
        self.pend: list = []     # (kind, case, expected)

    def add(self, req: dict, kind: str, case: Any, expected: Any) -> None:
        self.reqs.append(req)
        self.pend.append((kind, case, expected))


def check_model_build(ctx: Ctx, batch: Batch, case: dict, view: dict, base_view: Optional[dict]) -> None:
    if view['staged'] is None:
        return
    exp = {'staged': view['staged'], 'events': view['events'],
           'errors': sorted(n for n, _, dup in view['flat'] if dup),
           'winners': view['winners']}
    batch.add(model_request(view), 'build/self', case, exp)
    if base_view is not None and not any(e[0] in ('circ', 'abort') for e in base_view['events']):
        batch.add(model_request(view, deps_from=base_view['deps']), 'build/predicted-from-base', case, exp)


def flush(ctx: Ctx, batch: Batch, drv: Optional[Driver]) -> None:
    if drv is None or not batch.reqs:
        batch.reqs, batch.pend = [], []
        return
    answers = drv.query(batch.reqs)
    for (kind, case, exp), m in zip(batch.pend, answers):
        ctx.traces += 1
        if 'err' in m:
            ctx.mismatch('driver error', case, None, m)
            continue
        if kind.startswith('build'):
            if m['fuel']:
                ctx.count('model:fuel')
                ctx.mismatch(kind + ': model ran out of fuel', case, None, None)
                continue
            # per-map staging order: the model's global insertion order restricted to each map
            got_staged = [q for k in range(6) for q in m['staged'] if q.startswith(f'{k}|')]
            if got_staged != exp['staged']:
                ctx.mismatch(kind + ': staged names / insertion order', case, exp['staged'], got_staged)
            elif m['log'] != exp['events']:
                ctx.mismatch(kind + ': build trace (enter/exit/hit/circ/missing)', case, exp['events'][:60], m['log'][:60])
            if sorted(m['errors']) != exp['errors']:
                ctx.mismatch(kind + ': duplicate declaration errors', case, exp['errors'], sorted(m['errors']))
            if exp['winners'] is not None and {a: b for a, b in m['winners']} != exp['winners']:
                ctx.mismatch(kind + ': which declaration of a duplicated name is staged', case, exp['winners'], m['winners'])
        elif kind == 'resolve':
            if m['key'] != exp:
                ctx.mismatch('normalised location', case, exp, m['key'])
        elif kind == 'include':
            if m['order'] != exp:
                ctx.mismatch('registration order of included documents', case, exp, m['order'])
        elif kind == 'history':
            compare_history(ctx, case, exp, m)
    batch.reqs, batch.pend = [], []


def diff_obs(a: dict, b: dict) -> Optional[dict]:
    if a['globals'] != b['globals']:
        return {'what': 'global components differ', 'base': [g for g in a['globals'] if g not in b['globals']],
                'variant': [g for g in b['globals'] if g not in a['globals']]}
    for i, (pa, pb) in enumerate(zip(a['probes'], b['probes'])):
        if pa['errors'] != pb['errors']:
            return {'what': 'errors of a probe instance differ', 'probe': i, 'base': pa['errors'], 'variant': pb['errors']}
        if pa['decoded'] != pb['decoded']:
            return {'what': 'decoded data of a probe instance differ', 'probe': i, 'base': pa['decoded'], 'variant': pb['decoded']}
    return None


def location_checks(ctx: Ctx, batch: Batch, case: dict, written: dict, schema: Any, fail_extra: Optional[dict] = None) -> None:
    from xmlschema.utils.urls import normalize_url
    for l in written['locs']:
        loc = l['loc']
        base_url = 'file://' + l['dir']
        real = normalize_url(loc, base_url)
        ctx.count('location:' + ('url' if loc.startswith('file:') else 'abs' if loc.startswith('/') else
                                 'updown' if '..' in loc.split('/') else 'dot' if loc.startswith('./') else 'rel'))
        # property on the real code: every spelling of the same file normalises to the same key
        want = 'file://' + os.path.normpath(l['target'])
        if real != want:
            ctx.failure('a spelling of a schema location does not normalise to the location of the file',
                        dict(case, location=loc, base_url=base_url), {'normalised': real, 'expected': want})
        is_abs = loc.startswith('/') or loc.startswith('file://')
        p = loc[7:] if loc.startswith('file://') else loc
        batch.add({'op': 'resolve', 'dir': [s for s in l['dir'].split('/') if s], 'abs': is_abs,
                   'loc': p.split('/')}, 'resolve', dict(case, location=loc), url_segs(real))
    # registration order of the documents of the target namespace
    docs = []
    for d in written['docs']:
        incs = []
        for loc in d['includes']:
            is_abs = loc.startswith('/') or loc.startswith('file://')
            p = loc[7:] if loc.startswith('file://') else loc
            incs.append({'abs': is_abs, 'loc': p.split('/')})
        docs.append({'key': [s for s in d['path'].split('/') if s], 'dir': [s for s in d['dir'].split('/') if s],
                     'includes': incs})
    real_order = [url_segs(s.source.url) for s in schema.maps.namespaces[TNS]]
    batch.add({'op': 'include', 'docs': docs, 'root': docs[0]['key']}, 'include', case, real_order)
    # property on the real code: every file registered exactly once
    if len({tuple(x) for x in real_order}) != len(real_order) or len(real_order) != len(docs):
        ctx.failure('a document of the arrangement is registered twice or not at all',
                    dict(case, **(fail_extra or {})), {'registered': real_order, 'files': [d['path'] for d in written['docs']]})


# operations of a storage history.  Each returns (schema to observe, kind): kind 'same' = the same object graph
# (no build happened), 'fresh' = a new XsdGlobals object was built from nothing, 'rebuild' = the SAME XsdGlobals
# was cleared and built again.  'clear+build' and 'register-namespace+build' change the schema object in place.
def _op_copy(schema: Any, env: dict) -> tuple[Any, str]:
    return copy.copy(schema), 'same'


def _op_maps_copy(schema: Any, env: dict) -> tuple[Any, str]:
    m2 = schema.maps.copy()
    m2.build()
    return m2.validator, 'fresh'


def _op_pickle(schema: Any, env: dict) -> tuple[Any, str]:
    return pickle.loads(pickle.dumps(schema)), 'fresh'


def _op_rebuild(schema: Any, env: dict) -> tuple[Any, str]:
    schema.maps.clear()
    schema.maps.build()
    return schema, 'rebuild'


def _op_rebuild_schema(schema: Any, env: dict) -> tuple[Any, str]:
    schema.maps.clear()
    schema.build()
    return schema, 'rebuild'


def _op_register(schema: Any, env: dict) -> tuple[Any, str]:
    # registering one more (unrelated) namespace un-builds the maps: build() clears and builds everything again
    if EXTRA_NS not in schema.maps.namespaces:
        schema.add_schema(EXTRA_XSD, build=True)
    else:
        schema.maps.clear()
        schema.build()
    return schema, 'rebuild'


def _op_dynamic(schema: Any, env: dict) -> tuple[Any, str]:
    # an instance validated with use_location_hints=True whose CHILD element carries an xsi:schemaLocation hint for
    # a namespace that is not loaded: the validator imports it and rebuilds the maps in the middle of the
    # validation (elements.py:573-600 check_dynamic_context)
    xml = env.get('dyn_xml')
    if xml is None or DYN_NS in schema.maps.namespaces:
        return _op_rebuild_schema(schema, env)
    def own_elements() -> set:
        return {id(c) for c in schema.maps.elements.values() if c.schema.meta_schema is not None}
    before = own_elements()
    try:
        list(schema.iter_errors(xml, use_location_hints=True))
    except Exception as e:   # noqa  (the outcome of THIS validation is not the subject here: it only triggers the
        #                      rebuild; an escaping error is counted and reported in the evidence notes)
        env['dyn_raised'] = env.get('dyn_raised', 0) + 1
        env['dyn_raised_what'] = type(e).__name__ + ': ' + norm_text(str(e))[:120]
    if DYN_NS not in schema.maps.namespaces or not schema.maps.built or before & own_elements():
        env['dyn_inert'] = env.get('dyn_inert', 0) + 1      # the hint did not lead to a rebuild: do one explicitly
        return _op_rebuild_schema(schema, env)
    return schema, 'rebuild'


DYN_NS = 'urn:c09-dyn'
DYN_XSD = ('<xs:schema xmlns:xs="http://www.w3.org/2001/XMLSchema" targetNamespace="urn:c09-dyn">'
           '<xs:element name="d" type="xs:int"/></xs:schema>')
_TAG = re.compile(r'<([A-Za-z_][\w.-]*:[\w.-]+)')


def dynamic_instance(xml: str, xsd_path: str) -> Optional[str]:
    """`xml` with an xsi:schemaLocation hint for DYN_NS on its second element (None when it has no child)"""
    ms = list(_TAG.finditer(xml))
    if len(ms) < 2:
        return None
    k = ms[1].end()
    out = xml[:k] + f' xsi:schemaLocation="{DYN_NS} {xsd_path}"' + xml[k:]
    if 'xmlns:xsi=' not in out:
        k0 = ms[0].end()
        out = out[:k0] + ' xmlns:xsi="http://www.w3.org/2001/XMLSchema-instance"' + out[k0:]
    return out


OPS = {'copy.copy': _op_copy, 'maps.copy+build': _op_maps_copy, 'pickle': _op_pickle, 'clear+build': _op_rebuild,
       'clear+schema.build': _op_rebuild_schema, 'register-namespace+build': _op_register,
       'instance-schemaLocation+build': _op_dynamic}
REBUILDS = ('clear+build', 'clear+schema.build', 'register-namespace+build', 'instance-schemaLocation+build')
# quick tier, base arrangement: every operation, a rebuild after a rebuild, and each of copy/pickle both before
# and after a rebuild
FULL_HISTORY = ['copy.copy', 'maps.copy+build', 'pickle', 'clear+build', 'pickle', 'instance-schemaLocation+build',
                'register-namespace+build', 'maps.copy+build']


def random_history(rng: random.Random, n: int) -> list[str]:
    h = [rng.choice(list(OPS)) for _ in range(n)]
    if not any(o in REBUILDS for o in h):
        h[rng.randrange(n)] = 'clear+build'
    return h


def storage_variants(schema: Any) -> list[tuple[str, Any]]:
    """(kept for replay files written before histories existed)"""
    return [(k, (lambda f=f: f(schema, {})[0])) for k, f in OPS.items()]


NOTFOUND = re.compile(r'not found for Xsd\w*(?:Key|Unique)')


def check_registries(ctx: Ctx, batch: 'Batch', case: dict, steps: list) -> None:
    """queue the model run of a history: steps = [(kind, registry view, probe observations, probe meta)]"""
    req_steps = []
    exp = []
    for kind, view, obs, meta in steps:
        probes = []
        real_nf = []
        krs = {k['n']: k for k in view['keyrefs']}
        for m, o in zip(meta, obs['probes']):
            if m.get('block') == 'identity' and m['keyref'] in krs:
                probes.append({'refer': m['refer'], 'own': krs[m['keyref']]['own'], 'keys': m['keys'], 'refs': m['refs']})
                real_nf.append(sum(1 for e in o['errors'] if len(e) == 3 and NOTFOUND.search(e[2])))
        req_steps.append({'reqs': view['reqs'], 'fresh': kind == 'fresh', 'probes': probes,
                          'keyrefs': [{'n': k['n'], 'refer': k['refer'], 'own': k['own']} for k in view['keyrefs']]})
        exp.append({'store': view['store'], 'idents': view['idents'], 'subst': view['subst'],
                    'keyrefs': [[k['n'], k['gen']] for k in view['keyrefs']], 'views': view['views'],
                    'notfound': real_nf})
    batch.add({'op': 'history', 'steps': req_steps}, 'history', case, exp)


def compare_history(ctx: Ctx, case: dict, exp: list, m: dict) -> None:
    for k, (e, got) in enumerate(zip(exp, m['steps'])):
        c = dict(case, step=k)
        g = got['gen']
        if got['errors']:
            ctx.mismatch('history: the model refuses registrations that the real build accepted', c, [], got['errors'])
        for key, what in (('store', 'components held by the staged maps after the step (name, generation)'),
                          ('idents', 'maps.identities after the step (name, XSD node, generation)'),
                          ('subst', 'maps.substitution_groups after the step (head, members with generation)'),
                          ('keyrefs', 'generation of the key/unique object each keyref is bound to'),
                          ('notfound', "number of 'not found' errors of the identity probes")):
            if e[key] != got[key]:
                ctx.mismatch('history: ' + what, c, e[key], got[key])
        if e['views'] and e['views'] != [got['views']]:
            ctx.mismatch('history: generation of the components handed out by the cached views of the schemas', c,
                         e['views'], got['views'])
        ctx.count('history-step:generation-%d' % min(g, 4))


def run_history(ctx: Ctx, batch: 'Batch', schema: Any, history: list, case: dict, base_obs: dict, probes: list,
                meta: list, fail_case: dict, base_view: Optional[dict], nontrivial: bool, tie: bool,
                model_build: bool = True) -> None:
    ep = Epochs()
    ep.new_step()
    steps = [('fresh', registry_view(schema, ep), base_obs, meta)] if tie else []
    cur = schema
    done: list = []
    rebuilds = 0
    last_cur = steps[0][1] if tie else None
    env: dict = {'dyn_xml': None}
    if 'instance-schemaLocation+build' in history:
        for x, o in zip(probes, base_obs['probes']):
            if not o['errors'] and not os.path.exists(x[:200]):
                env['dyn_xml'] = dynamic_instance(x, dyn_file())
                if env['dyn_xml']:
                    break
    for name in history:
        done.append(name)
        scase = dict(case, storage=name, history=list(done))
        try:
            with Recorder() as rec:
                s2, kind = OPS[name](cur, env)
            v2 = rec.view(s2.maps)
            o2 = observe(s2, probes)
        except Exception as e:   # noqa
            ctx.failure('storage operation fails: ' + name, dict(fail_case, **scase),
                        {'error': type(e).__name__, 'message': norm_text(str(e))[:300]})
            break
        ctx.case(scase, nontrivial, tag='storage:' + name + ('/after-%d-rebuilds' % min(rebuilds, 2) if rebuilds else ''))
        if kind == 'rebuild':
            cur = s2
            rebuilds += 1
        d = diff_obs(base_obs, o2)
        if d is not None:
            d['probe_tag'] = meta[d['probe']].get('tag') if 'probe' in d else None
            ctx.failure('storage operation changes the schema: ' + name + ': ' + d['what'], dict(fail_case, **scase), d)
        if v2['builds'] and model_build:
            # (once another namespace is registered the staged list is longer than the base's: self-check only)
            check_model_build(ctx, batch, scase, v2, None if {'register-namespace+build', 'instance-schemaLocation+build'} & set(done)
                              else base_view)
        if tie and kind != 'same':
            ep.new_step()
            steps.append((kind, registry_view(s2, ep), o2, meta))
        if tie and kind != 'rebuild' and last_cur is not None:
            # copy / maps.copy / pickle must leave the object they were applied to alone
            now = registry_view(cur, ep, touch=False)
            for key in ('store', 'idents', 'subst', 'keyrefs', 'inherited'):
                if now[key] != last_cur[key]:
                    ctx.mismatch('history: ' + name + ' changed the registries of the schema it was applied to: ' + key,
                                 scase, now[key][:12], last_cur[key][:12])
            last_cur = now
        elif tie and kind == 'rebuild':
            last_cur = steps[-1][1]
    if done and cur is not None and done[-1] not in REBUILDS:
        # … and its behaviour: the object the history was applied to, once more, at the end
        oe = observe(cur, probes)
        d = diff_obs(base_obs, oe)
        ctx.case(dict(case, storage='(the original after the history)', history=list(done)), nontrivial,
                 tag='storage:original-after-history')
        if d is not None:
            d['probe_tag'] = meta[d['probe']].get('tag') if 'probe' in d else None
            ctx.failure('a history of storage operations changes the schema object it was applied to: ' + d['what'],
                        dict(fail_case, **dict(case, storage='(original)', history=list(done))), d)
    if env.get('dyn_raised'):
        ctx.count('storage:instance-schemaLocation: the triggering validation itself raised', env['dyn_raised'])
        note = ('side observation (not C09): an instance validated with use_location_hints=True whose child element carries '
                'an xsi:schemaLocation hint makes the validator rebuild the maps in the middle of the validation; the '
                'running validation then raises ' + env['dyn_raised_what'])
        if not any(n.startswith('side observation (not C09): an instance validated') for n in ctx.notes):
            ctx.notes.append(note)
    if env.get('dyn_inert'):
        ctx.count('storage:instance-schemaLocation did not trigger a rebuild (explicit rebuild instead)', env['dyn_inert'])
    if tie and len(steps) > 1:
        check_registries(ctx, batch, dict(case, history=list(done)), steps)
        for k, st in enumerate(steps):
            if st[1]['memo'] != steps[0][1]['memo'] or not all(v is True for _, v in st[1]['memo'][:2]):
                ctx.mismatch('history: cached properties of the maps object after the step [expected: the components '
                             'the maps hold now; same values as after the first build]',
                             dict(case, history=list(done), step=k), st[1]['memo'], steps[0][1]['memo'])
            if st[1]['inherited'] != st[1]['inherited_expected']:
                ctx.mismatch('history: registry entries inherited from the ancestors (meta-schema) after the step '
                             '[expected: every entry of the ancestors, as the ancestors\' own objects]',
                             dict(case, history=list(done), step=k), st[1]['inherited'][:12], st[1]['inherited_expected'][:12])


_DYN: dict = {}


def dyn_file() -> str:
    """the schema document of DYN_NS (one file per run, outside the arrangement directories)"""
    if 'path' not in _DYN or not os.path.exists(_DYN['path']):
        d = tempfile.mkdtemp(prefix='c09-dyn-')
        _DYN['dir'] = d
        _DYN['path'] = os.path.join(d, 'dyn.xsd')
        with open(_DYN['path'], 'w') as f:
            f.write(DYN_XSD)
    return _DYN['path']


def one_schema(ctx: Ctx, drv: Optional[Driver], batch: Batch, idx: int, tmp: str, size: int,
               n_perm: int, n_split: int, n_roots: int, plan: Optional[list] = None, xsd11: Optional[bool] = None) -> None:
    rng = random.Random(ctx.rng.getrandbits(64))
    sc = Schema(rng, size)
    if xsd11 is None:
        xsd11 = rng.random() < 0.25
    cls = 'XMLSchema11' if xsd11 else 'XMLSchema10'
    feats = Features(sc, rng, xsd11, plan)
    feats.install()
    for t in feats.tags:
        ctx.count(t)
    ctx.count('processor:' + cls)
    arrs = arrangements(sc, rng, n_perm, n_split)
    probes: list[str] = []
    meta: list[dict] = []
    for r in rng.sample(sc.roots(), min(n_roots, len(sc.roots()))):
        for m in (None, 'value', 'drop', 'extra', 'attr'):
            probes.append(sc.instance(r, m))
            meta.append({'tag': 'generated instance' + (': mutation ' + m if m else ''), 'block': 'generic'})
    for pr in feats.probes:
        probes.append(pr['xml'])
        meta.append({k: v for k, v in pr.items() if k != 'xml'})
    base_obs = None
    base_view = None
    texts0 = None
    rejected: list = []
    both = False
    for ai, arr in enumerate(arrs):
        root = os.path.join(tmp, f's{idx}', f'a{ai}')
        written = write_arrangement(sc, arr, root)
        case = {'schema': idx, 'arrangement': {k: arr[k] for k in ('kind', 'topology', 'imports', 'open', 'twin') if k in arr},
                'spells': arr['spells'][:4], 'parts': [len(p) for p in arr['parts']], 'class': cls,
                'registry': feats.plan}
        src = open_source(written['main'], arr['open'])
        try:
            schema, view = build_real(src, cls=cls)
        except Exception as e:   # noqa
            rejected.append((case, written['files'], arr['open'], {'error': type(e).__name__, 'message': norm_text(str(e))[:400]}))
            ctx.count('arrangement rejected')
            continue
        obs = observe(schema, probes)
        purity(ctx, case, {'base_files': texts0 or written['files'], 'files': written['files'], 'probes': probes,
                           'open': arr['open']})
        if base_obs is None:
            base_obs, base_view, texts0 = obs, view, written['files']
            verdicts = {bool(p['errors']) for p in obs['probes']}
            ctx.count('probes:valid', sum(1 for p in obs['probes'] if not p['errors']))
            ctx.count('probes:invalid', sum(1 for p in obs['probes'] if p['errors']))
            for m, p in zip(meta, obs['probes']):
                if m['block'] != 'generic':
                    ctx.count('probe[' + m['tag'] + ']:' + ('invalid' if p['errors'] else 'valid'))
            both = len(verdicts) == 2
        else:
            d = diff_obs(base_obs, obs)
            if d is not None:
                d['probe_tag'] = meta[d['probe']].get('tag') if 'probe' in d else None
                ctx.failure('arrangement changes the schema: ' + d['what'],
                            dict(case, base_files=texts0, files=written['files'], probes=probes, open=arr['open']), d)
        nontrivial = nested_enter(view['events']) and both
        ctx.case(case, nontrivial, tag='arrangement:' + arr['kind'] + ('/' + arr['topology'] if arr['kind'].startswith('split') else ''))
        if 'twin' in arr:
            ctx.count('repeated-file-names:spelling-' + arr['twin']['spelling'])
            ctx.count('repeated-file-names:main-includes-' + ('common-first' if arr['twin']['main_order'][0] == 1 else 'sub-first'))
        ctx.count('forward-refs-resolved-on-demand' if nested_enter(view['events']) else 'no-forward-ref')
        check_model_build(ctx, batch, case, view, base_view if view is not base_view else None)
        location_checks(ctx, batch, case, written, schema,
                        {'base_files': texts0, 'files': written['files'], 'probes': probes, 'open': arr['open']})
        # histories of storage operations on this arrangement: the full one on the base, a seeded one on the last split
        is_base = view is base_view
        if is_base or ai == len(arrs) - 1:
            # the same documents loaded first and built later (build=False, then build())
            dcase = dict(case, storage='deferred-build')
            try:
                import xmlschema
                with Recorder() as rec:
                    sd = getattr(xmlschema, cls)(src, build=False)
                    pre = sd.built
                    sd.build()
                # storage operations applied BEFORE the schema object has validated anything (cached properties of
                # the schema are still empty): the copies must behave like the schema itself
                for cname, mk in ((('copy.copy', lambda: copy.copy(sd)), ('pickle', lambda: pickle.loads(pickle.dumps(sd))),
                                   ('maps.copy+build', lambda: _op_maps_copy(sd, {})[0])) if is_base or not ctx.quick()
                                  else (('copy.copy', lambda: copy.copy(sd)),)):
                    ccase = dict(case, storage='cold:' + cname)
                    try:
                        oc = observe(mk(), probes)
                    except Exception as e:   # noqa
                        ctx.failure('storage operation on a schema that has not validated yet fails: ' + cname,
                                    dict(ccase, base_files=texts0, files=written['files'], probes=probes, open=arr['open']),
                                    {'error': type(e).__name__, 'message': norm_text(str(e))[:300]})
                        continue
                    ctx.case(ccase, both, tag='storage:' + cname + '/before-any-validation')
                    dc = diff_obs(base_obs, oc)
                    if dc is not None:
                        fid = known_match(ccase, dc)
                        if fid:
                            ctx.known_hit(fid, ccase, dc)
                        else:
                            ctx.failure('storage operation on a schema that has not validated yet changes the schema: '
                                        + cname + ': ' + dc['what'],
                                        dict(ccase, base_files=texts0, files=written['files'], probes=probes, open=arr['open']), dc)
                od = observe(sd, probes)
                dd = diff_obs(base_obs, od)
                ctx.case(dcase, nested_enter(view['events']) and both, tag='storage:deferred-build' + ('' if not pre else '/was-built-anyway'))
                if dd is not None:
                    dd['probe_tag'] = meta[dd['probe']].get('tag') if 'probe' in dd else None
                    ctx.failure('loading first and building later changes the schema: ' + dd['what'],
                                dict(dcase, base_files=texts0, files=written['files'], probes=probes, open=arr['open']), dd)
                vd = rec.view(sd.maps)
                if vd['builds']:
                    check_model_build(ctx, batch, dcase, vd, base_view)
            except Exception as e:   # noqa
                ctx.failure('loading first and building later fails', dict(dcase, base_files=texts0, files=written['files'],
                                                                           probes=probes, open=arr['open']),
                            {'error': type(e).__name__, 'message': norm_text(str(e))[:300]})
        if is_base or arr['kind'].startswith('split') and ai == len(arrs) - 1:
            history = FULL_HISTORY if is_base else random_history(rng, ctx.pick(3, 5))
            if is_base and not ctx.quick():
                history = FULL_HISTORY + random_history(rng, 4)
            fail_case = dict(case, base_files=texts0, files=written['files'], probes=probes, open=arr['open'])
            run_history(ctx, batch, schema, history, case, base_obs, probes, meta, fail_case, base_view, nontrivial,
                        tie=True)
    if base_obs is None:
        ctx.count('generated schema rejected in every arrangement')
        ctx.extra['schemas_rejected'] = ctx.extra.get('schemas_rejected', 0) + 1
        ctx.extra.setdefault('rejected_samples', [])
        if len(ctx.extra['rejected_samples']) < 3 and rejected:
            ctx.extra['rejected_samples'].append({'case': rejected[0][0], 'error': rejected[0][3]})
    else:
        ctx.extra['schemas_built'] = ctx.extra.get('schemas_built', 0) + 1
        for case, files, how, err in rejected:
            ctx.failure('an arrangement of a schema is rejected while another arrangement of the same declarations is accepted',
                        dict(case, base_files=texts0, files=files, probes=probes, open=how), err)
    if len(batch.reqs) > 400:
        flush(ctx, batch, drv)


# =============================================================================================
#  duplicate / circular declarations: model correspondence only
# =============================================================================================
ILL = [
    # (description, declarations)   — built with validation='lax'
    ('circular simple types', ['<xs:simpleType name="A"><xs:restriction base="t:B"/></xs:simpleType>',
                               '<xs:simpleType name="B"><xs:restriction base="t:C"/></xs:simpleType>',
                               '<xs:simpleType name="C"><xs:restriction base="t:A"/></xs:simpleType>',
                               '<xs:element name="r" type="t:B"/>']),
    ('circular complex extension', ['<xs:complexType name="A"><xs:complexContent><xs:extension base="t:B"/></xs:complexContent></xs:complexType>',
                                    '<xs:complexType name="B"><xs:complexContent><xs:extension base="t:A"/></xs:complexContent></xs:complexType>',
                                    '<xs:element name="r" type="t:A"/>']),
    ('circular groups', ['<xs:group name="G"><xs:sequence><xs:group ref="t:H"/></xs:sequence></xs:group>',
                         '<xs:group name="H"><xs:sequence><xs:group ref="t:G"/><xs:element name="x" type="xs:int"/></xs:sequence></xs:group>',
                         '<xs:complexType name="T"><xs:group ref="t:G"/></xs:complexType>']),
    ('circular attribute groups', ['<xs:attributeGroup name="G"><xs:attributeGroup ref="t:H"/></xs:attributeGroup>',
                                   '<xs:attributeGroup name="H"><xs:attributeGroup ref="t:G"/><xs:attribute name="x" type="xs:int"/></xs:attributeGroup>',
                                   '<xs:complexType name="T"><xs:attributeGroup ref="t:G"/></xs:complexType>']),
    ('self reference', ['<xs:simpleType name="A"><xs:list itemType="t:A"/></xs:simpleType>',
                        '<xs:simpleType name="U"><xs:union memberTypes="t:U xs:int"/></xs:simpleType>']),
    ('duplicate type', ['<xs:simpleType name="A"><xs:restriction base="xs:int"/></xs:simpleType>',
                        '<xs:simpleType name="A"><xs:restriction base="xs:string"/></xs:simpleType>',
                        '<xs:element name="r" type="t:A"/>', '<xs:element name="r" type="xs:int"/>']),
    ('missing references', ['<xs:element name="r" type="t:Nope"/>',
                            '<xs:complexType name="T"><xs:sequence><xs:group ref="t:NoG"/></xs:sequence><xs:attributeGroup ref="t:NoAG"/></xs:complexType>',
                            '<xs:simpleType name="L"><xs:list itemType="t:NoItem"/></xs:simpleType>']),
]


def ill_formed(ctx: Ctx, drv: Optional[Driver], batch: Batch, tmp: str) -> None:
    import itertools
    head = HEAD.replace(' xmlns:a="urn:a" xmlns:b="urn:b"', '')
    for k, (desc, decls) in enumerate(ILL):
        perms = list(itertools.permutations(range(len(decls))))
        if ctx.quick():
            perms = perms[:6]
        for pi, p in enumerate(perms):
            root = os.path.join(tmp, f'ill{k}_{pi}')
            os.makedirs(root, exist_ok=True)
            main = os.path.join(root, 'main.xsd')
            with open(main, 'w') as f:
                f.write(head + '\n'.join(decls[i] for i in p) + '\n' + TAIL)
            case = {'ill-formed': desc, 'order': list(p)}
            try:
                schema, view = build_real(main, validation='lax')
            except Exception as e:   # noqa
                ctx.count('ill-formed: build raised ' + type(e).__name__)
                continue
            ctx.case(case, True, tag='ill-formed:' + desc)
            for t in {e[0] for e in view['events']}:
                ctx.count('trace-event:' + t)
            check_model_build(ctx, batch, case, view, None)
    flush(ctx, batch, drv)


# =============================================================================================
#  corpus schemas (tests/test_cases/examples): permutation + split with lxml
# =============================================================================================
def corpus_list(ctx: Ctx) -> list:
    """schemas of the test corpus (examples, features, issues) with the instance documents beside them"""
    base = REPO / 'tests' / 'test_cases'
    out = []
    for pat in ('examples/*/*.xsd', 'features/*/*.xsd', 'issues/*/*.xsd'):
        for f in sorted(base.glob(pat)):
            xmls = [x.name for x in sorted(f.parent.glob('*.xml')) if x.stat().st_size < 60_000][:4]
            out.append((str(f.relative_to(base)), xmls))
    return out


XSD = '{http://www.w3.org/2001/XMLSchema}'
GLOBAL_TAGS = {XSD + t for t in ('element', 'complexType', 'simpleType', 'group', 'attributeGroup', 'attribute', 'notation')}


def build_any(path: str):
    """the schema with the XSD 1.0 processor, or (when that fails, e.g. XSD 1.1 constructs) the 1.1 one"""
    import xmlschema
    try:
        return xmlschema.XMLSchema10(path), xmlschema.XMLSchema10
    except Exception:   # noqa
        return xmlschema.XMLSchema11(path), xmlschema.XMLSchema11


def corpus(ctx: Ctx, tmp: str, batch: Optional[Batch] = None) -> None:
    base = REPO / 'tests' / 'test_cases'
    usable = 0
    for ci, (rel, xmls) in enumerate(corpus_list(ctx)):
        if usable >= ctx.pick(30, 400) or ctx.time_left() < 400:
            break
        src = base / rel
        if sum(f.stat().st_size for f in src.parent.iterdir() if f.is_file()) > 2_000_000:
            continue
        d = os.path.join(tmp, f'corpus{ci}')
        shutil.copytree(src.parent, os.path.join(d, 'orig'))
        if arrangements_of(ctx, d, src.parent, src.name, [str(src.parent / x) for x in xmls if (src.parent / x).exists()],
                           rel, ctx.pick(3, 8), batch):
            usable += 1


# schema documents whose *header* carries defaults that every component of the document depends on: moving a
# declaration to an included document with the same header, or permuting, must not change anything
HEADER_FAMILY = [
    ('defaultAttributes (1.1)', '''<xs:schema xmlns:xs="http://www.w3.org/2001/XMLSchema" targetNamespace="urn:h" xmlns:h="urn:h"
   elementFormDefault="qualified" defaultAttributes="h:common">
 <xs:element name="doc" type="h:docType"/>
 <xs:complexType name="docType"><xs:sequence><xs:element name="node" type="h:nodeType" maxOccurs="unbounded"/></xs:sequence></xs:complexType>
 <xs:complexType name="nodeType"><xs:sequence><xs:element name="leaf" type="h:leafType" minOccurs="0"/></xs:sequence></xs:complexType>
 <xs:complexType name="leafType"><xs:simpleContent><xs:extension base="xs:int"/></xs:simpleContent></xs:complexType>
 <xs:attributeGroup name="common"><xs:attribute name="tag" type="xs:string"/><xs:attribute name="uid" type="xs:int" use="required"/></xs:attributeGroup>
</xs:schema>''', ['<h:doc xmlns:h="urn:h" uid="1"><h:node uid="2"><h:leaf uid="3">5</h:leaf></h:node></h:doc>',
                  '<h:doc xmlns:h="urn:h" uid="1"><h:node><h:leaf uid="3">5</h:leaf></h:node></h:doc>',
                  '<h:doc xmlns:h="urn:h" uid="1"><h:node uid="x" tag="t"/></h:doc>']),
    ('blockDefault/finalDefault', '''<xs:schema xmlns:xs="http://www.w3.org/2001/XMLSchema" targetNamespace="urn:h" xmlns:h="urn:h"
   elementFormDefault="qualified" blockDefault="extension" finalDefault="restriction">
 <xs:element name="doc"><xs:complexType><xs:sequence><xs:element ref="h:it" maxOccurs="unbounded"/></xs:sequence></xs:complexType></xs:element>
 <xs:element name="it" type="h:B"/>
 <xs:complexType name="B"><xs:sequence><xs:element name="a" type="xs:int" minOccurs="0"/></xs:sequence></xs:complexType>
 <xs:complexType name="E"><xs:complexContent><xs:extension base="h:B"><xs:sequence><xs:element name="b" type="xs:int"/></xs:sequence></xs:extension></xs:complexContent></xs:complexType>
 <xs:simpleType name="S"><xs:restriction base="xs:int"><xs:maxInclusive value="9"/></xs:restriction></xs:simpleType>
</xs:schema>''', ['<h:doc xmlns:h="urn:h"><h:it><h:a>1</h:a></h:it></h:doc>',
                  '<h:doc xmlns:h="urn:h" xmlns:xsi="http://www.w3.org/2001/XMLSchema-instance"><h:it xsi:type="h:E"><h:a>1</h:a><h:b>2</h:b></h:it></h:doc>']),
    ('unqualified forms + attributeFormDefault', '''<xs:schema xmlns:xs="http://www.w3.org/2001/XMLSchema" targetNamespace="urn:h" xmlns:h="urn:h"
   attributeFormDefault="qualified">
 <xs:element name="doc" type="h:T"/>
 <xs:complexType name="T"><xs:sequence><xs:element name="loc" type="h:U" maxOccurs="2"/></xs:sequence><xs:attribute name="k" type="xs:int"/></xs:complexType>
 <xs:complexType name="U"><xs:sequence><xs:element name="in" type="xs:string" minOccurs="0"/></xs:sequence><xs:attribute name="m" type="xs:int" use="required"/></xs:complexType>
</xs:schema>''', ['<h:doc xmlns:h="urn:h" h:k="1"><loc h:m="2"><in>x</in></loc></h:doc>',
                  '<h:doc xmlns:h="urn:h" k="1"><h:loc m="2"/></h:doc>']),
    ('defaultOpenContent + xpathDefaultNamespace (1.1)', '''<xs:schema xmlns:xs="http://www.w3.org/2001/XMLSchema" targetNamespace="urn:h" xmlns:h="urn:h"
   elementFormDefault="qualified" xpathDefaultNamespace="##targetNamespace">
 <xs:defaultOpenContent mode="suffix"><xs:any namespace="##other" processContents="lax"/></xs:defaultOpenContent>
 <xs:element name="doc" type="h:T"><xs:unique name="u"><xs:selector xpath="row"/><xs:field xpath="@id"/></xs:unique></xs:element>
 <xs:complexType name="T"><xs:sequence><xs:element name="row" type="h:R" maxOccurs="unbounded"/></xs:sequence></xs:complexType>
 <xs:complexType name="R"><xs:sequence><xs:element name="v" type="xs:int" minOccurs="0"/></xs:sequence><xs:attribute name="id" type="xs:int"/>
   <xs:assert test="not(v) or v ge 0"/></xs:complexType>
</xs:schema>''', ['<h:doc xmlns:h="urn:h" xmlns:o="urn:o"><h:row id="1"><h:v>1</h:v><o:x/></h:row><h:row id="2"/><o:y/></h:doc>',
                  '<h:doc xmlns:h="urn:h"><h:row id="1"/><h:row id="1"><h:v>-1</h:v></h:row></h:doc>']),
]


# schema documents whose components are SHARED between several users or resolved through the whole set of global
# declarations (not through a staged name lookup): wildcards of referenced attribute groups, `##defined`,
# strict/lax wildcards that look the instance name up in the global maps.  `forced` arrangements are replayed
# on every run besides the seeded ones: (document order of the global names, names moved to the included part).
F1_NAME = 'attribute wildcard of a referenced group under an extension'
F2_NAME = "notQName='##defined' attribute wildcard (1.1)"
F3_NAME = 'circular attribute groups (1.1)'
REGISTRY_FAMILY = [
    (F1_NAME, '''<xs:schema xmlns:xs="http://www.w3.org/2001/XMLSchema" targetNamespace="urn:h" xmlns:h="urn:h" elementFormDefault="qualified">
 <xs:attributeGroup name="AG"><xs:anyAttribute namespace="urn:x" processContents="skip"/></xs:attributeGroup>
 <xs:complexType name="Base"><xs:anyAttribute namespace="urn:y" processContents="skip"/></xs:complexType>
 <xs:complexType name="Ext"><xs:complexContent><xs:extension base="h:Base"><xs:attributeGroup ref="h:AG"/></xs:extension></xs:complexContent></xs:complexType>
 <xs:complexType name="Other"><xs:attributeGroup ref="h:AG"/><xs:anyAttribute namespace="##any" processContents="skip"/></xs:complexType>
 <xs:element name="o" type="h:Other"/>
 <xs:element name="e" type="h:Ext"/>
</xs:schema>''', ['<h:o xmlns:h="urn:h" xmlns:y="urn:y" y:a="1"/>',
                  '<h:o xmlns:h="urn:h" xmlns:x="urn:x" x:a="1"/>',
                  '<h:e xmlns:h="urn:h" xmlns:x="urn:x" xmlns:y="urn:y" x:a="1" y:b="2"/>',
                  '<h:e xmlns:h="urn:h" xmlns:z="urn:z" z:a="1"/>'],
     [{'order': ['AG', 'Base', 'Other', 'Ext', 'o', 'e'], 'part': []},
      {'order': ['Other', 'o', 'e', 'AG', 'Base', 'Ext'], 'part': ['AG', 'Base', 'Ext']}]),
    (F2_NAME, '''<xs:schema xmlns:xs="http://www.w3.org/2001/XMLSchema" targetNamespace="urn:h" xmlns:h="urn:h" elementFormDefault="qualified">
 <xs:complexType name="T"><xs:anyAttribute notQName="##defined" processContents="lax"/></xs:complexType>
 <xs:attribute name="ga" type="xs:int"/>
 <xs:attribute name="gb" type="xs:string"/>
 <xs:element name="r" type="h:T"/>
 <xs:element name="s"><xs:complexType><xs:attribute ref="h:ga"/><xs:anyAttribute namespace="##other" processContents="lax"/></xs:complexType></xs:element>
</xs:schema>''', ['<h:r xmlns:h="urn:h" h:ga="1"/>', '<h:r xmlns:h="urn:h" h:gb="x" h:other="1"/>',
                  '<h:r xmlns:h="urn:h" h:other="x"/>', '<h:s xmlns:h="urn:h" h:ga="1"/>'],
     [{'order': ['T', 'r', 's', 'ga', 'gb'], 'part': ['ga', 'gb']},
      {'order': ['ga', 'T', 'r', 's', 'gb'], 'part': ['T', 'r', 's', 'gb']}]),
    (F3_NAME, '''<xs:schema xmlns:xs="http://www.w3.org/2001/XMLSchema" targetNamespace="urn:h" xmlns:h="urn:h" elementFormDefault="qualified">
 <xs:attributeGroup name="ag1"><xs:attribute name="a" type="xs:int"/><xs:attributeGroup ref="h:ag2"/></xs:attributeGroup>
 <xs:attributeGroup name="ag2"><xs:attribute name="b" type="xs:int"/><xs:attributeGroup ref="h:ag3"/></xs:attributeGroup>
 <xs:attributeGroup name="ag3"><xs:attribute name="c" type="xs:int"/><xs:attributeGroup ref="h:ag1"/></xs:attributeGroup>
 <xs:attributeGroup name="agU"><xs:attribute name="u" type="xs:int"/><xs:attributeGroup ref="h:ag2"/></xs:attributeGroup>
 <xs:complexType name="T1"><xs:attributeGroup ref="h:ag1"/></xs:complexType>
 <xs:complexType name="T2"><xs:attributeGroup ref="h:ag2"/></xs:complexType>
 <xs:complexType name="T3"><xs:attributeGroup ref="h:ag3"/></xs:complexType>
 <xs:complexType name="TU"><xs:attributeGroup ref="h:agU"/></xs:complexType>
 <xs:element name="e1" type="h:T1"/><xs:element name="e2" type="h:T2"/><xs:element name="e3" type="h:T3"/><xs:element name="eu" type="h:TU"/>
</xs:schema>''', ['<h:e1 xmlns:h="urn:h" a="1" b="2" c="3"/>', '<h:e2 xmlns:h="urn:h" a="1" b="2" c="3"/>',
                  '<h:e3 xmlns:h="urn:h" a="1" b="2" c="3"/>', '<h:eu xmlns:h="urn:h" a="1" b="2" c="3" u="4"/>',
                  '<h:e1 xmlns:h="urn:h" a="x" u="4"/>'],
     [{'order': ['ag3', 'ag2', 'ag1', 'agU', 'T1', 'T2', 'T3', 'TU', 'e1', 'e2', 'e3', 'eu'], 'part': []},
      {'order': ['TU', 'eu', 'agU', 'ag2', 'e1', 'e2', 'e3', 'T1', 'T2', 'T3', 'ag1', 'ag3'], 'part': ['T1', 'T2', 'T3', 'ag1', 'ag3']}]),
    ("element wildcards resolved through the global maps: strict / lax / notQName='##defined' (1.1)", '''<xs:schema xmlns:xs="http://www.w3.org/2001/XMLSchema" targetNamespace="urn:h" xmlns:h="urn:h" elementFormDefault="qualified">
 <xs:element name="box"><xs:complexType><xs:sequence>
   <xs:any namespace="##targetNamespace" processContents="strict" minOccurs="0" maxOccurs="2"/>
   <xs:element name="sep" type="xs:string"/>
   <xs:any namespace="##any" notQName="##defined" processContents="lax" minOccurs="0" maxOccurs="unbounded"/>
 </xs:sequence><xs:anyAttribute namespace="##targetNamespace" processContents="lax"/></xs:complexType></xs:element>
 <xs:element name="g1" type="xs:int"/>
 <xs:element name="g2" type="h:G2"/>
 <xs:complexType name="G2"><xs:sequence><xs:element ref="h:g1" minOccurs="0"/></xs:sequence></xs:complexType>
 <xs:attribute name="ga" type="xs:int"/>
</xs:schema>''', ['<h:box xmlns:h="urn:h" h:ga="1"><h:g1>1</h:g1><h:g2><h:g1>2</h:g1></h:g2><h:sep/><h:free/></h:box>',
                  '<h:box xmlns:h="urn:h" h:ga="x"><h:g1>x</h:g1><h:sep/><h:g2/></h:box>',
                  '<h:box xmlns:h="urn:h"><h:unknown/><h:sep/></h:box>'],
     [{'order': ['box', 'G2', 'ga', 'g1', 'g2'], 'part': ['g1', 'g2', 'ga']}]),
]


def known_match(case: dict, detail: dict) -> Optional[str]:
    """`detail` = the difference between the original document and one arrangement of it (diff_obs).  Returns the
    id of the listed finding of notes/findings/C09.json that explains exactly this difference, else None."""
    # (C09-F1 and C09-F2 are fixed — c02201c, a59bff1 —: no rule any more, a recurrence is a violation)
    if not isinstance(detail, dict) or detail.get('what') != 'errors of a probe instance differ':
        return None
    a, b = detail['base'], detail['variant']
    if case.get('corpus') == 'registry-family: ' + F3_NAME:
        # C09-F3: which member of a cycle of XSD 1.1 attribute groups lacks the attributes of the others
        extra = [e for e in a if e not in b] + [e for e in b if e not in a]
        if extra and all(len(e) == 3 and re.search(r"'[abc]' attribute not allowed for element", e[2]) for e in extra):
            return 'C09-F3'
    # (C09-F4 is fixed: the shallow copy of a built schema that has not validated yet works; no rule any more)
    return None


def load_findings(ctx: Ctx) -> None:
    if FINDINGS_FILE.exists():
        have = {e['id'] for e in ctx.known}
        for e in json.loads(FINDINGS_FILE.read_text()).get('findings', []):
            if e['id'] not in have:
                ctx.known.append(e)


def registry_family(ctx: Ctx, tmp: str, batch: Optional[Batch] = None) -> None:
    from pathlib import Path
    for k, (name, xsd, docs, forced) in enumerate(REGISTRY_FAMILY):
        d = os.path.join(tmp, f'reg{k}')
        orig = os.path.join(d, 'orig')
        os.makedirs(orig)
        with open(os.path.join(orig, 'main.xsd'), 'w') as f:
            f.write(xsd)
        probes = []
        for j, x in enumerate(docs):
            pth = os.path.join(orig, f'probe{j}.xml')
            with open(pth, 'w') as f:
                f.write(x)
            probes.append(pth)
        arrangements_of(ctx, d, Path(orig), 'main.xsd', probes, 'registry-family: ' + name, ctx.pick(6, 16), batch, forced)


# =============================================================================================
#  exhaustive small scope: every ordered pair of wildcard constraint forms, combined by intersection (two
#  referenced groups / referenced group + local anyAttribute) and by union (extension), three declaration orders
# =============================================================================================
def wildcard_pairs(ctx: Ctx, tmp: str) -> None:
    from harness.lib_c09reg import ATTR_FORMS, ATTR_FORMS_11
    head = HEAD.replace(' xmlns:b="urn:b"', '')
    ns = ' xmlns:t="urn:t" xmlns:x="urn:x" xmlns:y="urn:y" xmlns:z="urn:z" xmlns:a="urn:a"'
    probes = [f'<t:{e}{ns} foo="1" t:foo="1" x:foo="1" y:foo="1" z:foo="1" a:foo="1"/>' for e in 'abce']
    jobs = [(f1, f2, 'XMLSchema10') for f1 in ATTR_FORMS for f2 in ATTR_FORMS]
    all11 = ATTR_FORMS + ATTR_FORMS_11
    jobs += [(f1, f2, 'XMLSchema11') for f1 in all11 for f2 in all11 if f1 in ATTR_FORMS_11 or f2 in ATTR_FORMS_11]
    if not ctx.quick():
        jobs += [(f1, f2, 'XMLSchema11') for f1 in ATTR_FORMS for f2 in ATTR_FORMS]
    for n, (f1, f2, cls) in enumerate(jobs):
        d = {'G1': f'<xs:attributeGroup name="G1"><xs:anyAttribute {f1} processContents="lax"/></xs:attributeGroup>',
             'G2': f'<xs:attributeGroup name="G2"><xs:anyAttribute {f2} processContents="lax"/></xs:attributeGroup>',
             'GA': '<xs:attributeGroup name="GA"><xs:anyAttribute namespace="##any" processContents="lax"/></xs:attributeGroup>',
             'A': '<xs:complexType name="A"><xs:attributeGroup ref="t:G1"/><xs:attributeGroup ref="t:G2"/></xs:complexType>',
             'B': '<xs:complexType name="B"><xs:attributeGroup ref="t:GA"/><xs:attributeGroup ref="t:G2"/></xs:complexType>',
             'C': f'<xs:complexType name="C"><xs:attributeGroup ref="t:G2"/><xs:anyAttribute {f1} processContents="lax"/></xs:complexType>',
             'BT': f'<xs:complexType name="BT"><xs:anyAttribute {f1} processContents="lax"/></xs:complexType>',
             'E': '<xs:complexType name="E"><xs:complexContent><xs:extension base="t:BT"><xs:attributeGroup ref="t:G2"/>'
                  '</xs:extension></xs:complexContent></xs:complexType>',
             'el': '<xs:element name="a" type="t:A"/><xs:element name="b" type="t:B"/><xs:element name="c" type="t:C"/>'
                   '<xs:element name="e" type="t:E"/>'}
        orders = [['G1', 'G2', 'GA', 'A', 'B', 'C', 'BT', 'E', 'el'], ['el', 'E', 'BT', 'C', 'B', 'A', 'GA', 'G2', 'G1'],
                  ['B', 'E', 'G2', 'C', 'A', 'el', 'BT', 'G1', 'GA']]
        base = None
        rejected = []
        for oi, order in enumerate(orders):
            root = os.path.join(tmp, f'wp{n}_{oi}')
            os.makedirs(root)
            text = head + '\n'.join(d[x] for x in order) + '\n' + TAIL
            with open(os.path.join(root, 'main.xsd'), 'w') as f:
                f.write(text)
            case = {'wildcard-pair': [f1, f2], 'order': order, 'class': cls}
            files = {'main.xsd': text}
            try:
                schema, view = build_real(os.path.join(root, 'main.xsd'), cls=cls)
            except Exception as e:   # noqa
                rejected.append((case, files, {'error': type(e).__name__, 'message': norm_text(str(e))[:300]}))
                continue
            obs = observe(schema, probes)
            purity(ctx, case, {'base_files': base[1] if base else files, 'files': files, 'probes': probes, 'open': 'abs'})
            ctx.case(case, True, tag='wildcard-pair:' + cls)
            if base is None:
                base = (obs, files)
                for p in obs['probes']:
                    ctx.count('wildcard-pair-probe:%d-of-6-attributes-refused' % min(len(p['errors']), 6))
            else:
                dd = diff_obs(base[0], obs)
                if dd is not None:
                    ctx.failure('declaration order changes a computed attribute wildcard: ' + dd['what'],
                                dict(case, base_files=base[1], files=files, probes=probes, open='abs'), dd)
        if base is None:
            ctx.count('wildcard-pair: combination refused in every order')
        else:
            for case, files, err in rejected:
                ctx.failure('an order of the declarations is rejected while another order of the same declarations is accepted',
                            dict(case, base_files=base[1], files=files, probes=probes, open='abs'), err)


# =============================================================================================
#  schemas of several directories with repeated file names, composed by include / redefine / override / import:
#  every spelling of every location and both orders of the composition children give the same schema
#  (redefine / override are ordered by definition: only spelling and the order of INDEPENDENT children vary)
# =============================================================================================
DIR_HEAD = ('<xs:schema xmlns:xs="http://www.w3.org/2001/XMLSchema" targetNamespace="urn:h" xmlns:h="urn:h" '
            'xmlns:o="urn:o" elementFormDefault="qualified">\n')
DIR_FAMILY = [
    # (name, processor, {relative path: [composition children as (tag, target path, body)], declarations}, probes)
    ('include + redefine of twins', 'XMLSchema10', 'redefine'),
    ('include + override of twins (1.1)', 'XMLSchema11', 'override'),
    ('plain includes of twins', 'XMLSchema10', 'include'),
]


def dir_family_files(how: str, spells: list, swap_main: bool, swap_sub: bool, root: str) -> dict:
    """files of the layout  main.xsd, common.xsd, other.xsd | sub/part.xsd, sub/common.xsd, sub/other.xsd:
    main composes common.xsd (by `how`) and includes sub/part.xsd; sub/part.xsd composes ITS common.xsd (by `how`)
    and imports urn:o from ITS other.xsd, main imports nothing from other.xsd of its own directory but includes it"""
    sp = iter(spells * 6)

    def loc(frm: str, to: str) -> str:
        return spell(os.path.join(root, to), os.path.dirname(os.path.join(root, frm)), next(sp))

    def compose(frm: str, to: str, tname: str, base: str, facet: str) -> str:
        if how == 'include':
            return f'<xs:include schemaLocation="{loc(frm, to)}"/>\n'
        b = f'h:{tname}' if how == 'redefine' else base
        return (f'<xs:{how} schemaLocation="{loc(frm, to)}"><xs:simpleType name="{tname}"><xs:restriction base="{b}">'
                f'{facet}</xs:restriction></xs:simpleType></xs:{how}>\n')
    m = [compose('main.xsd', 'common.xsd', 'Code', 'xs:string', '<xs:maxLength value="3"/>'),
         f'<xs:include schemaLocation="{loc("main.xsd", "sub/part.xsd")}"/>\n',
         f'<xs:include schemaLocation="{loc("main.xsd", "other.xsd")}"/>\n']
    if swap_main:
        m = [m[1], m[2], m[0]]
    s_ = [compose('sub/part.xsd', 'sub/common.xsd', 'Size', 'xs:int', '<xs:maxInclusive value="10"/>'),
          f'<xs:import namespace="urn:o" schemaLocation="{loc("sub/part.xsd", "sub/other.xsd")}"/>\n']
    if swap_sub:
        s_ = [s_[1], s_[0]]      # (xs:import may precede or follow xs:redefine / xs:include)
    return {
        'main.xsd': DIR_HEAD + ''.join(m) + '<xs:element name="doc"><xs:complexType><xs:sequence>'
                    '<xs:element name="code" type="h:Code"/><xs:element name="size" type="h:Size"/>'
                    '<xs:element name="tag" type="h:Tag"/><xs:element ref="h:item" minOccurs="0"/>'
                    '</xs:sequence></xs:complexType></xs:element>\n' + TAIL,
        'common.xsd': DIR_HEAD + '<xs:simpleType name="Code"><xs:restriction base="xs:string"><xs:maxLength value="5"/>'
                      '</xs:restriction></xs:simpleType>\n' + TAIL,
        'other.xsd': DIR_HEAD + '<xs:simpleType name="Tag"><xs:restriction base="xs:string"><xs:enumeration value="x"/>'
                     '<xs:enumeration value="y"/></xs:restriction></xs:simpleType>\n' + TAIL,
        'sub/part.xsd': DIR_HEAD + ''.join(s_) + '<xs:element name="item"><xs:complexType><xs:sequence>'
                        '<xs:element name="size" type="h:Size"/><xs:element ref="o:ext" minOccurs="0"/></xs:sequence>'
                        '</xs:complexType></xs:element>\n' + TAIL,
        'sub/common.xsd': DIR_HEAD + '<xs:simpleType name="Size"><xs:restriction base="xs:int"><xs:maxInclusive value="100"/>'
                          '</xs:restriction></xs:simpleType>\n' + TAIL,
        'sub/other.xsd': '<xs:schema xmlns:xs="http://www.w3.org/2001/XMLSchema" targetNamespace="urn:o" '
                         'elementFormDefault="qualified"><xs:element name="ext" type="xs:boolean"/></xs:schema>\n',
    }


DIR_PROBES = ['<h:doc xmlns:h="urn:h" xmlns:o="urn:o"><h:code>abc</h:code><h:size>7</h:size><h:tag>x</h:tag>'
              '<h:item><h:size>9</h:size><o:ext>true</o:ext></h:item></h:doc>',
              '<h:doc xmlns:h="urn:h"><h:code>abcd</h:code><h:size>50</h:size><h:tag>z</h:tag></h:doc>',
              '<h:doc xmlns:h="urn:h" xmlns:o="urn:o"><h:code>abcdef</h:code><h:size>500</h:size><h:tag>y</h:tag>'
              '<h:item><h:size>x</h:size><o:ext>2</o:ext></h:item></h:doc>']


def directory_family(ctx: Ctx, tmp: str) -> None:
    for fi, (name, cls, how) in enumerate(DIR_FAMILY):
        variants = [(['abs'], False, False)]
        for spl in (['rel'], ['dot'], ['updown'], ['url']):
            for sm in (False, True):
                variants.append((spl, sm, sm))
        variants.append((['rel'], False, True))
        for _ in range(ctx.pick(3, 12)):
            variants.append(([ctx.rng.choice(SPELLS) for _ in range(5)], ctx.rng.random() < 0.5, ctx.rng.random() < 0.5))
        base = None
        for vi, (spl, sm, ss) in enumerate(variants):
            root = os.path.join(tmp, f'dir{fi}_{vi}')
            files = dir_family_files(how, spl, sm, ss, root)
            files['__root__'] = root
            materialise(files, root)
            case = {'directory-family': name, 'class': cls, 'spells': spl, 'main children swapped': sm,
                    'sub children swapped': ss}
            extra = {'base_files': base[1] if base else files, 'files': files, 'probes': DIR_PROBES, 'open': 'abs'}
            try:
                schema, view = build_real(os.path.join(root, 'main.xsd'), cls=cls)
            except Exception as e:   # noqa
                if base is None:
                    ctx.count('directory-family: base does not build')
                    break
                ctx.failure('a spelling of the schema locations is rejected while the absolute spelling is accepted',
                            dict(case, **extra), {'error': type(e).__name__, 'message': norm_text(str(e))[:300]})
                continue
            obs = observe(schema, DIR_PROBES)
            purity(ctx, case, extra)
            ctx.case(case, True, tag='directory-family:' + how + '/' + ('mixed' if len(spl) > 1 else spl[0]))
            regs = sorted(os.path.relpath(s.source.url[7:], root) for s in schema.maps.namespaces['urn:h'])
            if regs != sorted(k for k in files if k not in ('sub/other.xsd', '__root__')):
                ctx.failure('a document of the layout is registered twice or not at all', dict(case, **extra),
                            {'registered': regs, 'files': sorted(k for k in files if k != '__root__')})
            if base is None:
                base = (obs, files)
                ctx.count('directory-family-probes:invalid', sum(1 for p in obs['probes'] if p['errors']))
                ctx.count('directory-family-probes:valid', sum(1 for p in obs['probes'] if not p['errors']))
            else:
                dd = diff_obs(base[0], obs)
                if dd is not None:
                    ctx.failure('the spelling of a schema location / the order of independent composition children changes '
                                'the schema: ' + dd['what'], dict(case, **extra), dd)


# =============================================================================================
#  imports WITHOUT schemaLocation that are satisfied through another imported document (transitively):
#  every order of the xs:import children of the main document × every admissible set of location-less imports
#  (the namespace is reachable over located imports from a located import of the main document) × both orders of
#  the imports inside an imported document × location-less imports INSIDE the imported documents, with references
#  by QName from the main document to every namespace: one schema, one build outcome
# =============================================================================================
TI_NS = {'a': 'urn:ta', 'b': 'urn:tb', 'c': 'urn:tc'}
TI_FACET = {'a': '<xs:restriction base="xs:string"><xs:maxLength value="3"/></xs:restriction>',
            'b': '<xs:restriction base="xs:int"><xs:maxInclusive value="100"/></xs:restriction>',
            'c': '<xs:restriction base="xs:string"><xs:enumeration value="x"/><xs:enumeration value="y"/></xs:restriction>'}
TI_SHAPES = [('chain2', 'ab', {'a': 'b'}), ('chain3', 'abc', {'a': 'b', 'b': 'c'}), ('diamond', 'abc', {'a': 'c', 'b': 'c'}),
             ('fan', 'abc', {'a': 'bc'}), ('fan+chain', 'abc', {'a': 'bc', 'b': 'c'})]
TI_XMLNS = ' '.join(f'xmlns:{k}="{v}"' for k, v in TI_NS.items())
TI_VALUES = {'a': ('abc', 'abcd'), 'b': ('7', '700'), 'c': ('x', 'z')}


def ti_reachable(edges: dict, located: list) -> set:
    seen, todo = set(), list(located)
    while todo:
        x = todo.pop()
        if x not in seen:
            seen.add(x)
            todo.extend(edges.get(x, ''))
    return seen


def ti_files(nss: str, edges: dict, order: list, noloc: set, inner_rev: bool, inner_noloc: bool) -> dict:
    files = {}
    for x in nss:
        targets = list(edges.get(x, ''))
        if inner_rev:
            targets.reverse()
        text = (f'<xs:schema xmlns:xs="http://www.w3.org/2001/XMLSchema" targetNamespace="{TI_NS[x]}" {TI_XMLNS} '
                'elementFormDefault="qualified">\n')
        for y in targets:
            text += (f'<xs:import namespace="{TI_NS[y]}"/>\n' if inner_noloc else
                     f'<xs:import namespace="{TI_NS[y]}" schemaLocation="t{y}.xsd"/>\n')
        text += f'<xs:simpleType name="T">{TI_FACET[x]}</xs:simpleType>\n<xs:element name="item" type="{x}:T"/>\n'
        for y in targets:
            text += f'<xs:element name="e_{y}" type="{y}:T"/>\n<xs:attribute name="at_{y}" type="{y}:T"/>\n'
        files[f't{x}.xsd'] = text + TAIL
    text = (f'<xs:schema xmlns:xs="http://www.w3.org/2001/XMLSchema" targetNamespace="urn:tm" xmlns="urn:tm" {TI_XMLNS} '
            'elementFormDefault="qualified">\n')
    for x in order:
        text += (f'<xs:import namespace="{TI_NS[x]}"/>\n' if x in noloc else
                 f'<xs:import namespace="{TI_NS[x]}" schemaLocation="t{x}.xsd"/>\n')
    text += '<xs:element name="root"><xs:complexType><xs:sequence>\n'
    for x in nss:
        text += f'<xs:element ref="{x}:item"/><xs:element name="l_{x}" type="{x}:T" maxOccurs="unbounded"/>\n'
        for y in edges.get(x, ''):
            text += f'<xs:element ref="{x}:e_{y}" minOccurs="0"/>\n'
    text += '</xs:sequence>\n'
    for x in nss:
        for y in edges.get(x, ''):
            text += f'<xs:attribute ref="{x}:at_{y}"/>\n'
    files['main.xsd'] = text + '</xs:complexType></xs:element>\n' + TAIL
    return files


def ti_probes(nss: str, edges: dict) -> list:
    out = []
    for bad in [None] + list(nss):
        body, attrs = '', ''
        for x in nss:
            v = TI_VALUES[x][1 if bad == x else 0]
            body += f'<{x}:item>{v}</{x}:item><l_{x}>{v}</l_{x}><l_{x}>{TI_VALUES[x][0]}</l_{x}>'
            for y in edges.get(x, ''):
                w = TI_VALUES[y][1 if bad == y else 0]
                body += f'<{x}:e_{y}>{w}</{x}:e_{y}>'
                attrs += f' {x}:at_{y}="{w}"'
        out.append(f'<root xmlns="urn:tm" {TI_XMLNS}{attrs}>{body}</root>')
    out.append(f'<root xmlns="urn:tm" {TI_XMLNS}><l_a>abc</l_a></root>')
    return out


def transitive_imports(ctx: Ctx, tmp: str) -> None:
    import itertools
    for si, (name, nss, edges) in enumerate(TI_SHAPES):
        probes = ti_probes(nss, edges)
        variants: list = [(list(nss), frozenset(), False, False)]
        subsets = [frozenset(c) for r in range(len(nss)) for c in itertools.combinations(nss, r)]
        for order in itertools.permutations(nss):
            for noloc in subsets:
                located = [x for x in order if x not in noloc]
                if not noloc <= ti_reachable(edges, located):
                    continue    # (a location-less import of a namespace nobody loads: legitimately unresolved)
                for inner_rev in ((False, True) if any(len(v) > 1 for v in edges.values()) else (False,)):
                    variants.append((list(order), noloc, inner_rev, False))
            # location-less imports inside the imported documents, every namespace located in the main document
            variants.append((list(order), frozenset(), False, True))
        bases: dict = {}
        n_before = len(ctx.failures)
        for vi, (order, noloc, inner_rev, inner_noloc) in enumerate(variants):
            if len(ctx.failures) - n_before >= 4:
                break    # (enough failing inputs of this shape)
            for cls in ('XMLSchema10', 'XMLSchema11'):
                if cls == 'XMLSchema11' and vi and vi % 3 != ctx.seed % 3 and ctx.tier == 'quick':
                    continue
                base = bases.get(cls)
                root = os.path.join(tmp, f'ti{si}_{vi}_{cls[-2:]}')
                files = ti_files(nss, edges, order, noloc, inner_rev, inner_noloc)
                materialise(files, root)
                case = {'transitive-imports': name, 'class': cls, 'main import order': order,
                        'imports without schemaLocation': sorted(noloc), 'inner imports reversed': inner_rev,
                        'inner imports without schemaLocation': inner_noloc}
                extra = {'base_files': base[1] if base else files, 'files': files, 'probes': probes, 'open': 'abs'}
                try:
                    schema, view = build_real(os.path.join(root, 'main.xsd'), cls=cls)
                except Exception as e:   # noqa
                    if base is None:
                        ctx.count('transitive-imports: base does not build')
                        ctx.broken.append(f'transitive-imports: the fully located arrangement of {name} is rejected: '
                                          f'{type(e).__name__}: {norm_text(str(e))[:200]}')
                        continue
                    ctx.failure('an arrangement of the xs:import statements (order / location-less import of a namespace '
                                'loaded through another imported document) is rejected while the fully located one is accepted',
                                dict(case, **extra), {'error': type(e).__name__, 'message': norm_text(str(e))[:300]})
                    continue
                obs = observe(schema, probes)
                purity(ctx, case, extra)
                ctx.case(case, True, tag='transitive-imports:' + name + '/' + ('located' if not noloc and not inner_noloc
                                                                                  else 'inner-noloc' if inner_noloc else 'noloc'))
                # (Imports.imports_loaded_spec: the union of the closures of the located imports)
                loaded = sorted(ns for ns in schema.maps.namespaces if ns.startswith('urn:t'))
                want = sorted({'urn:tm'} | {TI_NS[y] for y in ti_reachable(edges, [x for x in order if x not in noloc])})
                if loaded != want or any(len(schema.maps.namespaces[ns]) != 1 for ns in want):
                    ctx.failure('a namespace of the layout is loaded twice or not at all', dict(case, **extra),
                                {'loaded': {ns: len(schema.maps.namespaces[ns]) for ns in loaded}, 'expected': want})
                # (Props/C09 Imports.imports_recorded: exactly the namespace attributes, in document order)
                if list(schema.imported_namespaces) != [TI_NS[x] for x in order]:
                    ctx.failure('the namespaces recorded as imported by the main document depend on the arrangement of '
                                'its xs:import statements', dict(case, **extra),
                                {'imported_namespaces': list(schema.imported_namespaces),
                                 'declared': [TI_NS[x] for x in order]})
                if base is None:
                    bases[cls] = (obs, files)
                    ctx.count('transitive-imports-probes:invalid', sum(1 for p in obs['probes'] if p['errors']))
                    ctx.count('transitive-imports-probes:valid', sum(1 for p in obs['probes'] if not p['errors']))
                else:
                    dd = diff_obs(base[0], obs)
                    if dd is not None:
                        ctx.failure('the order of the xs:import statements / omitting the schemaLocation of a namespace '
                                    'loaded through another import changes the schema: ' + dd['what'],
                                    dict(case, **extra), dd)


# =============================================================================================
#  exhaustive small scope (XSD 1.1): every ordered pair of operand typings under textually identical XPath tests
#  (xs:assert on attributes and on children, assertion facet on $value), three declaration orders
# =============================================================================================
def assertion_pairs(ctx: Ctx, tmp: str) -> None:
    from harness.lib_c09reg import XPATH_TYPINGS, XPATH_TEST_A, XPATH_TEST_B, XPATH_TEST_V
    head = HEAD.replace(' xmlns:a="urn:a" xmlns:b="urn:b"', '')
    ns = ' xmlns:t="urn:t"'
    pairs = [('9', '10'), ('10', '9'), ('9.5', '10.0'), ('abc', 'abd'), ('2024-01-09', '2024-01-10')]
    probes = [f'<t:{e}{ns} min="{a}" max="{b}"><t:lo>{a}</t:lo><t:hi>{b}</t:hi></t:{e}>' for e in ('ea', 'eb') for a, b in pairs]
    probes += [f'<t:{e}{ns}>{v}</t:{e}>' for e in ('sa', 'sb') for v in ('10', '10.0', '010')]
    simple = {'xs:int': 'xs:int', 'xs:string': 'xs:string', 'xs:decimal': 'xs:decimal', 'xs:double': 'xs:double', 'xs:date': 'xs:string'}
    for n, (t1, t2) in enumerate((a, b) for a in XPATH_TYPINGS for b in XPATH_TYPINGS if a != b):
        def ct(name: str, ty: str) -> str:
            return (f'<xs:complexType name="{name}"><xs:sequence><xs:element name="lo" type="{ty}" minOccurs="0"/>'
                    f'<xs:element name="hi" type="{ty}" minOccurs="0"/></xs:sequence><xs:attribute name="min" type="{ty}"/>'
                    f'<xs:attribute name="max" type="{ty}"/><xs:assert test="{XPATH_TEST_A}"/><xs:assert test="{XPATH_TEST_B}"/>'
                    f'</xs:complexType>')

        def st(name: str, ty: str) -> str:
            return (f'<xs:simpleType name="{name}"><xs:restriction base="{simple[ty]}"><xs:assertion test="{XPATH_TEST_V}"/>'
                    f'</xs:restriction></xs:simpleType>')
        d = {'A': ct('A', t1), 'B': ct('B', t2), 'SA': st('SA', t1), 'SB': st('SB', t2),
             'el': '<xs:element name="ea" type="t:A"/><xs:element name="eb" type="t:B"/><xs:element name="sa" type="t:SA"/>'
                   '<xs:element name="sb" type="t:SB"/>'}
        base = None
        for oi, order in enumerate((['A', 'B', 'SA', 'SB', 'el'], ['el', 'SB', 'SA', 'B', 'A'], ['B', 'el', 'SA', 'A', 'SB'])):
            root = os.path.join(tmp, f'ap{n}_{oi}')
            os.makedirs(root)
            text = head + '\n'.join(d[x] for x in order) + '\n' + TAIL
            with open(os.path.join(root, 'main.xsd'), 'w') as f:
                f.write(text)
            case = {'assertion-pair': [t1, t2], 'order': order, 'class': 'XMLSchema11'}
            files = {'main.xsd': text}
            try:
                schema, view = build_real(os.path.join(root, 'main.xsd'), cls='XMLSchema11')
            except Exception as e:   # noqa
                ctx.failure('an order of the declarations is rejected', dict(case, base_files=base[1] if base else files, files=files,
                                                                            probes=probes, open='abs'),
                            {'error': type(e).__name__, 'message': norm_text(str(e))[:300]})
                continue
            obs = observe(schema, probes)
            purity(ctx, case, {'base_files': base[1] if base else files, 'files': files, 'probes': probes, 'open': 'abs'})
            ctx.case(case, True, tag='assertion-pair')
            if base is None:
                base = (obs, files)
                ctx.count('assertion-pair-probes:valid', sum(1 for p in obs['probes'] if not p['errors']))
                ctx.count('assertion-pair-probes:invalid', sum(1 for p in obs['probes'] if p['errors']))
            else:
                dd = diff_obs(base[0], obs)
                if dd is not None:
                    ctx.failure('declaration order changes the outcome of textually identical XPath tests: ' + dd['what'],
                                dict(case, base_files=base[1], files=files, probes=probes, open='abs'), dd)


def header_family(ctx: Ctx, tmp: str, batch: Optional[Batch] = None) -> None:
    from pathlib import Path
    for k, (name, xsd, docs) in enumerate(HEADER_FAMILY):
        d = os.path.join(tmp, f'hdr{k}')
        orig = os.path.join(d, 'orig')
        os.makedirs(orig)
        with open(os.path.join(orig, 'main.xsd'), 'w') as f:
            f.write(xsd)
        probes = []
        for j, x in enumerate(docs):
            pth = os.path.join(orig, f'probe{j}.xml')
            with open(pth, 'w') as f:
                f.write(x)
            probes.append(pth)
        arrangements_of(ctx, d, Path(orig), 'main.xsd', probes, 'header-family: ' + name, ctx.pick(6, 16), batch)


CORPUS_HISTORY = ['pickle', 'clear+build', 'pickle', 'clear+schema.build', 'maps.copy+build']


def arrangements_of(ctx: Ctx, d: str, srcdir: Any, srcname: str, probes: list, rel: str, n_variants: int,
                    batch: Optional[Batch] = None, forced: Optional[list] = None) -> bool:
    """permutations and include-splits (same header) of one schema document, compared with the original"""
    import lxml.etree as ET
    main0 = os.path.join(d, 'orig', srcname)
    try:
        with Recorder(monitor=True) as rec0:
            s0, cls = build_any(main0)
    except Exception:   # noqa  (deliberately invalid test schemas, remote imports)
        ctx.count('corpus: base does not build (skipped)')
        return False
    o0 = observe(s0, probes)
    # purity monitor on the document as it stands
    ctx.count('purity-monitor:components-fingerprinted', len(rec0.fp2))
    for m in (rec0.mutations + rec0.after_validation())[:3]:
        ctx.failure('constructors are not pure: a component that was already built was changed in place (' + m['component'] + ')',
                    {'corpus': rel, 'class': cls.__name__, 'purity': True, 'probe_files': probes}, m)
    # building twice / pickle / copy of the schema as it stands in the corpus (identity constraints, notations,
    # substitution groups, redefinitions … of the hand-written test schemas)
    if batch is not None:
        hcase = {'corpus': rel, 'class': cls.__name__}
        run_history(ctx, batch, s0, CORPUS_HISTORY, hcase, o0, probes, [{'block': 'corpus', 'tag': os.path.basename(x)} for x in probes],
                    dict(hcase, probe_files=probes), None, True, tie=True, model_build=False)
    tree = ET.parse(main0)
    rootel = tree.getroot()
    if any(c.tag in (XSD + 'redefine', XSD + 'override') for c in rootel):
        return True
    forced = forced or []
    for vi in range(n_variants + len(forced)):
        t = ET.parse(main0)
        r = t.getroot()
        globs = [c for c in r if c.tag in GLOBAL_TAGS]
        names = [(c.tag, c.get('name')) for c in globs]
        if len(set(names)) != len(names) or len(globs) < 2:
            break
        for c in globs:
            r.remove(c)
        fz = forced[vi - n_variants] if vi >= n_variants else None
        if fz is None:
            ctx.rng.shuffle(globs)
        else:
            globs.sort(key=lambda c: fz['order'].index(c.get('name')))
        vd = os.path.join(d, f'v{vi}')
        shutil.copytree(srcdir, vd)
        kind = 'perm'
        if (vi % 2 == 1 and fz is None) or (fz is not None and fz['part']):
            # move a suffix of the declarations into a new included document with the same header
            cut = ctx.rng.randint(1, len(globs) - 1) if fz is None else len(globs) - len(fz['part'])
            t2 = ET.parse(main0)
            r2 = t2.getroot()
            for c in list(r2):
                if c.tag in GLOBAL_TAGS:
                    r2.remove(c)
            for c in globs[cut:]:
                r2.append(c)
            t2.write(os.path.join(vd, 'zz_part.xsd'))
            inc = ET.SubElement(r, XSD + 'include')
            inc.set('schemaLocation', ctx.rng.choice(['zz_part.xsd', './zz_part.xsd', 'q/../zz_part.xsd']))
            r.remove(inc)
            # includes must precede the declarations: insert after the last include/import/annotation prefix
            pos = 0
            for k2, c in enumerate(r):
                if c.tag in (XSD + 'include', XSD + 'import'):
                    pos = k2 + 1
            r.insert(pos, inc)
            globs = globs[:cut]
            kind = 'split2'
        for c in globs:
            r.append(c)
        t.write(os.path.join(vd, srcname))
        case = {'corpus': rel, 'variant': vi, 'kind': kind, 'class': cls.__name__}
        if fz is not None:
            case['forced'] = fz
        try:
            s1 = cls(os.path.join(vd, srcname))
        except Exception as e:   # noqa
            ctx.failure('an arrangement of a corpus schema is rejected', case,
                        {'error': type(e).__name__, 'message': str(e)[:400]})
            continue
        o1 = observe(s1, [os.path.join(vd, os.path.basename(p)) if os.path.exists(os.path.join(vd, os.path.basename(p))) else p
                          for p in probes])
        ctx.case(case, True, tag='corpus:' + kind)
        dd = diff_obs(o0, o1)
        if dd is not None:
            fid = known_match(case, dd)
            if fid:
                ctx.known_hit(fid, case, dd)
            else:
                ctx.failure('arrangement changes a corpus schema: ' + dd['what'], case, dd)
    return True


# =============================================================================================
def run(ctx: Ctx, driver_ok: bool) -> None:
    import warnings
    warnings.simplefilter('ignore')
    drv = Driver('drv_c09') if driver_ok else None
    tmp = tempfile.mkdtemp(prefix='c09-')
    batch = Batch()
    load_findings(ctx)
    try:
        ill_formed(ctx, drv, batch, tmp)
        header_family(ctx, tmp, batch)
        registry_family(ctx, tmp, batch)
        wildcard_pairs(ctx, tmp)
        directory_family(ctx, tmp)
        transitive_imports(ctx, tmp)
        assertion_pairs(ctx, tmp)
        corpus(ctx, tmp, batch)
        flush(ctx, batch, drv)
        n = ctx.pick(60, 540)
        for i in range(n):
            size = ctx.rng.choice([8, 12, 16, 24, 32])
            one_schema(ctx, drv, batch, i, tmp, size, n_perm=ctx.pick(2, 3), n_split=ctx.pick(3, 5),
                       n_roots=ctx.pick(3, 4))
            ctx.count(f'schema-size:{size}')
            if ctx.time_left() < 120:
                ctx.notes.append(f'stopped after {i + 1} schemas (time budget)')
                break
        flush(ctx, batch, drv)
    finally:
        shutil.rmtree(tmp, ignore_errors=True)
        if _DYN.get('dir'):
            shutil.rmtree(_DYN['dir'], ignore_errors=True)
            _DYN.clear()
    if ctx.extra.get('schemas_built', 0) < 0.8 * (ctx.extra.get('schemas_built', 0) + ctx.extra.get('schemas_rejected', 0)) \
            or not ctx.extra.get('schemas_built'):
        # legal generated schemas are refused wholesale: nothing was compared, so nothing is established
        ctx.lean_ok = False
        ctx.broken.append('precondition of the correspondence: the real code rejects the generated (legal) schemas in '
                          'every arrangement (%d of %d)' % (ctx.extra.get('schemas_rejected', 0),
                                                            ctx.extra.get('schemas_rejected', 0) + ctx.extra.get('schemas_built', 0)))
    ctx.extra['explanation'] = ('metamorphic: every arrangement and every step of a storage history compared with the '
                                'base arrangement of the same schema on the real code; model tie: staged list, build '
                                'trace, duplicate errors, normalised locations, include registration order, and after '
                                'every build of a history the registries (stores, identities, substitution groups, '
                                'keyref bindings, cached views) with the generation of every object')


def search(ctx: Ctx) -> None:
    """A tie broke and nothing failed: evaluate the property itself on a wider family (no driver)."""
    tmp = tempfile.mkdtemp(prefix='c09-s-')
    batch = Batch()
    try:
        for i in range(ctx.pick(60, 150)):
            one_schema(ctx, None, batch, 10_000 + i, tmp, ctx.rng.choice([12, 24, 40]), 4, 6, 4,
                       plan=['identity', 'identity', 'poly', 'notation'], xsd11=(i % 2 == 1))
            batch.reqs, batch.pend = [], []
            if ctx.failures or ctx.time_left() < 60:
                break
    finally:
        shutil.rmtree(tmp, ignore_errors=True)
        if _DYN.get('dir'):
            shutil.rmtree(_DYN['dir'], ignore_errors=True)
            _DYN.clear()


def replay_corpus_history(case: dict) -> int:
    """a storage history on a corpus / family schema as it stands (no re-arrangement)"""
    tmp = tempfile.mkdtemp(prefix='c09-r-')
    try:
        rel = case['corpus']
        fam = {('header-family: ' + n): (x, d) for n, x, d in HEADER_FAMILY}
        fam.update({('registry-family: ' + n): (x, d) for n, x, d, _ in REGISTRY_FAMILY})
        if rel in fam:
            main = os.path.join(tmp, 'main.xsd')
            with open(main, 'w') as f:
                f.write(fam[rel][0])
            probes = []
            for j, x in enumerate(fam[rel][1]):
                probes.append(os.path.join(tmp, f'probe{j}.xml'))
                with open(probes[-1], 'w') as f:
                    f.write(x)
        else:
            main = str(REPO / 'tests' / 'test_cases' / rel)
            probes = [str(Path(main).parent / os.path.basename(x)) for x in case.get('probe_files', [])]
        schema, _ = build_any(main)
        o0 = observe(schema, probes)
        s2 = schema
        for name in case.get('history') or [case['storage']]:
            try:
                s2, kind = OPS[name](schema, {})
            except Exception as e:   # noqa
                print(f'storage operation {name} fails: {type(e).__name__}: {str(e)[:300]}')
                return 1
            if kind == 'rebuild':
                schema = s2
        d = diff_obs(o0, observe(schema if case['storage'] == '(original)' else s2, probes))
        print('history applied:', case.get('history'))
        print('REAL CODE, schema as built vs after the history:', 'SAME' if d is None else json.dumps(d, indent=1)[:3000])
        return 1 if d is not None else 0
    finally:
        shutil.rmtree(tmp, ignore_errors=True)


def replay(ctx: Ctx, obj: dict) -> int:
    print(json.dumps({k: v for k, v in obj.items() if k != 'input'}, indent=1)[:3000])
    case = obj.get('input') or {}
    if 'corpus' in case and case.get('storage'):
        return replay_corpus_history(case)
    if case.get('purity') and case.get('corpus'):
        rel = case['corpus']
        fam = {('header-family: ' + n): x for n, x, d in HEADER_FAMILY}
        fam.update({('registry-family: ' + n): x for n, x, d, _ in REGISTRY_FAMILY})
        tmp = tempfile.mkdtemp(prefix='c09-r-')
        try:
            if rel in fam:
                main = os.path.join(tmp, 'main.xsd')
                with open(main, 'w') as f:
                    f.write(fam[rel])
            else:
                main = str(REPO / 'tests' / 'test_cases' / rel)
            with Recorder(monitor=True) as rec:
                schema, _ = build_any(main)
            muts = rec.mutations + rec.after_validation()
            print('REAL CODE, components changed in place after they were built:',
                  'NONE' if not muts else json.dumps(muts, indent=1)[:3000])
            return 1 if muts else 0
        finally:
            shutil.rmtree(tmp, ignore_errors=True)
    if case.get('purity') and case.get('files'):
        tmp = tempfile.mkdtemp(prefix='c09-r-')
        try:
            materialise(case['files'], tmp)
            src = open_source(os.path.join(tmp, 'main.xsd'), case.get('open', 'abs'))
            try:
                schema, _ = build_real(src, cls=case.get('class', 'XMLSchema10'))
            except Exception as e:   # noqa
                print(f'build fails: {type(e).__name__}: {str(e)[:300]}')
                return 0
            observe(schema, case.get('probes', []))
            rec = LAST['rec']
            muts = rec.mutations + rec.after_validation()
            print('REAL CODE, components changed in place after they were built:',
                  'NONE' if not muts else json.dumps(muts, indent=1)[:3000])
            return 1 if muts else 0
        finally:
            shutil.rmtree(tmp, ignore_errors=True)
    if 'files' not in case or 'base_files' not in case or not case['base_files']:
        print('nothing to replay on the real code (broken obligation, see "broken")')
        return 0
    tmp = tempfile.mkdtemp(prefix='c09-r-')
    try:
        res = []
        for tag in ('base_files', 'files'):
            root = os.path.join(tmp, tag)
            materialise(case[tag], root)
            main = os.path.join(root, 'main.xsd')
            src = open_source(main, case.get('open', 'abs')) if tag == 'files' else main
            try:
                schema, view = build_real(src, cls=case.get('class', 'XMLSchema10'))
            except Exception as e:   # noqa
                print(f'{tag}: build fails: {type(e).__name__}: {str(e)[:300]}')
                res.append(None)
                continue
            if tag == 'files' and str(case.get('storage', '')).startswith('cold:'):
                import xmlschema
                sd = getattr(xmlschema, case.get('class', 'XMLSchema10'))(src, build=False)
                sd.build()
                schema = {'cold:copy.copy': lambda: copy.copy(sd), 'cold:pickle': lambda: pickle.loads(pickle.dumps(sd)),
                          'cold:maps.copy+build': lambda: _op_maps_copy(sd, {})[0]}[case['storage']]()
            elif tag == 'files' and case.get('storage') == 'deferred-build':
                import xmlschema
                schema = getattr(xmlschema, case.get('class', 'XMLSchema10'))(src, build=False)
                schema.build()
            elif tag == 'files' and case.get('storage'):
                # the whole history up to the failing operation (in-place operations change `schema`)
                renv: dict = {'dyn_xml': None}
                o0 = observe(schema, case.get('probes', []))
                for x, o in zip(case.get('probes', []), o0['probes']):
                    if not o['errors'] and renv['dyn_xml'] is None:
                        renv['dyn_xml'] = dynamic_instance(x, dyn_file())
                for name in case.get('history') or [case['storage']]:
                    try:
                        s2, kind = OPS[name](schema, renv)
                    except Exception as e:   # noqa
                        print(f"storage operation {name} fails: {type(e).__name__}: {str(e)[:300]}")
                        return 1
                    if kind == 'rebuild':
                        schema = s2
                if case['storage'] != '(original)':
                    schema = s2
                print('history applied on the variant:', case.get('history') or [case['storage']])
            res.append(observe(schema, case.get('probes', [])))
        if res[0] is None or res[1] is None:
            print('REAL CODE: one arrangement is rejected, the other accepted' if (res[0] is None) != (res[1] is None)
                  else 'both arrangements rejected')
            return 1 if (res[0] is None) != (res[1] is None) else 0
        d = diff_obs(res[0], res[1])
        print('REAL CODE, base arrangement vs variant:', 'SAME' if d is None else json.dumps(d, indent=1)[:3000])
        return 1 if d is not None else 0
    finally:
        shutil.rmtree(tmp, ignore_errors=True)
        if _DYN.get('dir'):
            shutil.rmtree(_DYN['dir'], ignore_errors=True)
            _DYN.clear()
