"""
C09 — a schema means the same however its declarations are ordered, split or stored.

Metamorphic check on the real code: seeded random schemas (harness/lib_schemagen.py: simple/complex types,
groups, attribute groups, attributes, elements with substitution groups, two imported namespaces, forward
references everywhere) and corpus schemas (tests/test_cases/examples) are re-arranged
  * permutation of the global declarations,
  * 2-3 way splits into included documents (flat / chain / diamond / sub-directory / include cycle),
  * location spellings (relative, dotted, x/../, absolute path, file: URL) of includes, imports and of
    the schema itself,
  * import order of the other namespaces,
  * build twice, shallow copy, maps.copy()+build, pickle round trip,
and every arrangement is compared with the base arrangement on: sorted (class, qname) of the global
components, and for every probe instance (valid and seeded-invalid) the error list and the decoded data.

Tie to the Lean model (XsVerif/Model/Staged.lean, theorems in Props/C09.lean): the real build is
instrumented from the outside (StagedMap.load / __getitem__ / _build_global / GlobalMaps.build are
wrapped, nothing in /repo is modified); the flattened declaration list (what the loader really staged, in
order, with the identity of each (elem, schema)), the names each constructor looked up, the staging order,
the DFS event trace (enter/exit/hit/circ/missing), the duplicate-declaration errors, the normalised
include/import locations and the registration order of included documents are compared with the model.
For arrangement B the model is ALSO run with the dependencies observed in arrangement A (purity of the
constructors: the looked-up names do not depend on the order) and must predict B's trace.
"""
from __future__ import annotations

import copy
import json
import os
import pickle
import re
import shutil
import tempfile
import random
from pathlib import Path
from typing import Any, Optional

from harness.core import Ctx, Driver, REPO
from harness.lib_schemagen import Schema, HEAD, TAIL, NSA, NSB, TNS

PROPS = 'XsVerif.Props.C09'
AUDIT = 'XsVerif.Audit.C09'
LEAN_TARGETS = ['XsVerif.Props.C09', 'drv_c09']
LEANCHECK = ['XsVerif.Model.Staged', 'XsVerif.Lemmas.Staged', 'XsVerif.Props.C09']
RULE = ('a case = (schema, arrangement, probe set) compared with the base arrangement of the same schema; '
        'non-trivial = the real build of the arrangement resolved at least one forward reference on demand '
        '(an `enter` nested inside another `enter` in the observed trace) and the probe set produced both '
        'valid and invalid verdicts; distinct by canonical JSON of (schema id, arrangement description)')
TRUSTED = ['component constructors are modelled by the free interpretation (a component = tree of what its '
           'constructor looked up); their purity is monitored (deps observed in one arrangement must predict '
           'the trace of every other arrangement), not proved',
           'urlsplit / pathlib / the file system: only the dot-segment normalisation of joined paths is modelled',
           'copy / pickle / rebuild are exercised on the real code, not modelled']
ASSUMPTIONS = ['no circular definitions and pairwise distinct global names per symbol space (hypotheses of '
               'arrangement_independent; circular and duplicate declarations are generated too, for the '
               'model correspondence only: there the reported error legitimately depends on the order)',
               'redefine/override are out of scope of the order-independence statement (they are ordered by definition)']

KINDS = {'NotationsMap': 0, 'AttributesMap': 1, 'AttributeGroupsMap': 2, 'TypesMap': 3, 'ElementsMap': 4,
         'GroupsMap': 5}


# =============================================================================================
#  instrumentation of the real build (from outside)
# =============================================================================================
class Recorder:
    """Wraps StagedMap.load/__getitem__/_build_global and GlobalMaps.build; records per map object."""
    active: Optional['Recorder'] = None
    installed = False

    def __init__(self) -> None:
        self.loads: list = []        # (map, name, elem, schema, dup_error)
        self.events: list = []       # (map, tag, name)
        self.deps: dict = {}         # (id(map), qname) -> [names]
        self.snap: list = []         # (globalmaps, [[names of staging per map]])
        self.stack: list = []
        self.keep: list = []

    @classmethod
    def install(cls) -> None:
        if cls.installed:
            return
        from xmlschema.validators import builders as B
        SM, GM = B.StagedMap, B.GlobalMaps
        o_load, o_get, o_bg, o_build = SM.load, SM.__getitem__, SM._build_global, GM.build

        def load(self, qname, elem, schema):
            r = cls.active
            if r is None:
                return o_load(self, qname, elem, schema)
            n0 = len(schema.errors)
            try:
                return o_load(self, qname, elem, schema)
            finally:
                r.keep.append(self)
                r.loads.append((id(self), type(self).__name__, qname, elem, schema, len(schema.errors) > n0))

        def getitem(self, qname):
            r = cls.active
            if r is not None and r.stack:
                top = r.stack[-1]
                name = f'{KINDS[type(self).__name__]}|{qname}'
                r.deps.setdefault(top, []).append(name)
                if qname in self._store:
                    r.events.append((top[0], 'hit', name))
                elif qname not in self._staging:
                    r.events.append((top[0], 'missing', name))
            return o_get(self, qname)

        def build_global(self, qname):
            r = cls.active
            if r is None:
                return o_bg(self, qname)
            name = f'{KINDS[type(self).__name__]}|{qname}'
            obj = self._staging.get(qname)
            root = id(self)
            r.keep.append(self)
            if isinstance(obj, tuple) and len(obj) == 1:
                r.events.append((root, 'circ', name))
                return o_bg(self, qname)
            r.events.append((root, 'enter', name))
            key = (root, name)
            r.stack.append(key)
            r.deps.setdefault(key, [])
            try:
                res = o_bg(self, qname)
            except BaseException:
                r.stack.pop()
                r.events.append((root, 'abort', name))
                raise
            r.stack.pop()
            r.events.append((root, 'exit', name))
            return res

        def gbuild(self, schemas):
            r = cls.active
            if r is not None:
                ms = sorted(self, key=lambda m: KINDS[type(m).__name__])
                r.snap.append((self, [list(m._staging) for m in ms],
                               [{q: v for q, v in m._staging.items()} for m in ms]))
            return o_build(self, schemas)

        SM.load, SM.__getitem__, SM._build_global, GM.build = load, getitem, build_global, gbuild
        cls.installed = True

    def __enter__(self) -> 'Recorder':
        Recorder.install()
        Recorder.active = self
        return self

    def __exit__(self, *a: Any) -> None:
        Recorder.active = None

    # ---- view for one XsdGlobals -----------------------------------------------------------
    def view(self, maps: Any) -> dict:
        gm = maps.global_maps
        mine = {id(m) for m in gm}
        ids: dict = {}

        def did(elem, schema):
            return ids.setdefault((id(elem), id(schema)), len(ids) + 1)
        snaps = [s for s in self.snap if s[0] is gm]
        # the last build of these maps (rebuilds append)
        flat = [(f'{KINDS[cn]}|{q}', did(e, s), dup) for (m, cn, q, e, s, dup) in self.loads if m in mine]
        ev = [[t, n] for (m, t, n) in self.events if m in mine]
        deps = {k[1]: v for k, v in self.deps.items() if k[0] in mine}
        staged = None
        winners = None
        if snaps:
            staged = [f'{k}|{q}' for k, names in enumerate(snaps[-1][1]) for q in names]
            winners = {}
            for k, d in enumerate(snaps[-1][2]):
                for q, v in d.items():
                    if isinstance(v, tuple) and len(v) == 2:
                        winners[f'{k}|{q}'] = did(v[0], v[1])
        return {'flat': flat, 'events': ev, 'deps': deps, 'staged': staged, 'winners': winners,
                'builds': len(snaps)}


def model_request(view: dict, deps_from: Optional[dict] = None) -> dict:
    """JSON request for drv_c09 from what was really staged (+ deps observed here or in another arrangement)."""
    deps = deps_from if deps_from is not None else view['deps']
    declared = {n for n, _, _ in view['flat']}
    pre = sorted({d for ds in deps.values() for d in ds if d not in declared
                  and any(e[0] == 'hit' and e[1] == d for e in view['events'])})
    winners = view['winners'] or {}
    decls = []
    for n, i, _ in view['flat']:
        # only the winning declaration is ever constructed: its lookups are the observed ones
        decls.append({'n': n, 'id': i, 'deps': deps.get(n, []) if winners.get(n, i) == i else []})
    return {'op': 'build', 'pre': pre, 'decls': decls}


# =============================================================================================
#  arrangements
# =============================================================================================
def spell(target: str, from_dir: str, how: str) -> str:
    rel = os.path.relpath(target, from_dir)
    if how == 'rel':
        return rel
    if how == 'dot':
        return './' + rel
    if how == 'updown':
        return 'zz/../' + rel
    if how == 'abs':
        return target
    return 'file://' + target


SPELLS = ['rel', 'dot', 'updown', 'abs', 'url']


def arrangements(sc: Schema, rng: random.Random, n_perm: int, n_split: int) -> list[dict]:
    """Descriptions of arrangements: {'kind', 'parts': [[decl idx]], 'topology', 'spells', 'imports', 'open'}"""
    n = len(sc.decls)
    out: list[dict] = [{'kind': 'base', 'parts': [list(range(n))], 'topology': 'single', 'imports': [0, 1],
                        'open': 'abs', 'spells': ['rel'] * 8}]
    df = sc.defs_first()
    out.append({'kind': 'defs-first', 'parts': [df], 'topology': 'single', 'imports': [0, 1], 'open': 'abs',
                'spells': ['rel'] * 8})
    out.append({'kind': 'uses-first', 'parts': [df[::-1]], 'topology': 'single', 'imports': [0, 1], 'open': 'abs',
                'spells': ['rel'] * 8})
    for _ in range(n_perm):
        p = list(range(n))
        rng.shuffle(p)
        out.append({'kind': 'perm', 'parts': [p], 'topology': 'single', 'imports': [0, 1], 'open': 'abs',
                    'spells': ['rel'] * 8})
    p = list(range(n))
    rng.shuffle(p)
    out.append({'kind': 'imports-swapped', 'parts': [p], 'topology': 'single', 'imports': [1, 0],
                'open': rng.choice(['abs', 'url']), 'spells': [rng.choice(SPELLS) for _ in range(8)]})
    out.append({'kind': 'spelling', 'parts': [list(range(n))], 'topology': 'single', 'imports': [0, 1],
                'open': rng.choice(['url', 'relcwd', 'dotted']), 'spells': [rng.choice(SPELLS) for _ in range(8)]})
    for _ in range(n_split):
        p = list(range(n))
        rng.shuffle(p)
        k = rng.choice([2, 3, 3])
        cuts = sorted(rng.sample(range(0, n + 1), k - 1))
        parts = [p[a:b] for a, b in zip([0] + cuts, cuts + [n])]
        topo = rng.choice(['flat', 'chain', 'diamond', 'subdir', 'cycle'] if k == 3 else ['flat', 'cycle', 'subdir'])
        out.append({'kind': f'split{k}', 'parts': parts, 'topology': topo, 'imports': rng.choice([[0, 1], [1, 0]]),
                    'open': rng.choice(['abs', 'url', 'dotted']), 'spells': [rng.choice(SPELLS) for _ in range(8)]})
    return out


def write_arrangement(sc: Schema, arr: dict, root: str) -> dict:
    """Writes the files of an arrangement under `root`; returns {'main', 'files', 'docs', 'includes'}"""
    os.makedirs(root, exist_ok=True)
    files: dict[str, str] = {}
    for ns, doc in sc.import_docs.items():
        files[f'ns_{ns[-1]}.xsd'] = doc
    k = len(arr['parts'])
    topo = arr['topology']
    names = ['main.xsd'] + [f'p{i}.xsd' for i in range(1, k)]
    if topo == 'subdir' and k >= 2:
        names[-1] = 'sub/' + names[-1]
    inc: dict[int, list[int]] = {i: [] for i in range(k)}
    if k == 2:
        inc[0] = [1]
        if topo == 'cycle':
            inc[1] = [0]
        if topo == 'subdir':
            inc[1] = []
    elif k == 3:
        if topo in ('flat', 'subdir'):
            inc[0] = [1, 2]
            if topo == 'subdir':
                inc[2] = [1]
        elif topo == 'chain':
            inc[0] = [1]
            inc[1] = [2]
        elif topo == 'diamond':
            inc[0] = [1, 2]
            inc[1] = [2]
            inc[2] = [1]
        else:   # cycle
            inc[0] = [1]
            inc[1] = [2]
            inc[2] = [0]
    sp = iter(arr['spells'] * 4)
    imports_all = sc.import_list()
    locs: list[dict] = []
    docs: list[dict] = []
    for i in range(k):
        path = os.path.join(root, names[i])
        d = os.path.dirname(path)
        text = HEAD
        for j in arr['imports']:
            if j < len(imports_all):
                ns, f = imports_all[j]
                how = next(sp)
                loc = spell(os.path.join(root, f), d, how)
                text += f'<xs:import namespace="{ns}" schemaLocation="{loc}"/>\n'
                locs.append({'dir': d, 'loc': loc, 'target': os.path.join(root, f)})
        incs = []
        for j in inc[i]:
            how = next(sp)
            loc = spell(os.path.join(root, names[j]), d, how)
            text += f'<xs:include schemaLocation="{loc}"/>\n'
            locs.append({'dir': d, 'loc': loc, 'target': os.path.join(root, names[j])})
            incs.append(loc)
        text += '\n'.join(sc.decls[x][2] for x in arr['parts'][i]) + '\n' + TAIL
        files[names[i]] = text
        docs.append({'path': path, 'dir': d, 'includes': incs})
    for rel, text in files.items():
        p = os.path.join(root, rel)
        os.makedirs(os.path.dirname(p), exist_ok=True)
        with open(p, 'w') as f:
            f.write(text)
    main = os.path.join(root, 'main.xsd')
    return {'main': main, 'files': files, 'locs': locs, 'docs': docs}


def open_source(main: str, how: str) -> str:
    if how == 'url':
        return 'file://' + main
    if how == 'relcwd':
        return os.path.relpath(main, os.getcwd())
    if how == 'dotted':
        d, f = os.path.split(main)
        return d + '/./qq/../' + f
    return main


# =============================================================================================
#  observation of the real code
# =============================================================================================
def globals_of(schema: Any) -> list:
    return sorted([type(c).__name__, c.name] for c in schema.maps.iter_globals()
                  if not c.name.startswith(('{http://www.w3.org/', 'xml:')))


_ADDR = re.compile(r' at 0x[0-9a-fA-F]+')
_TMPPATH = re.compile(r"(?:file://)?/tmp/c09-[\w-]+/[^\s'\"]*/([^/\s'\"]+)")


def norm_text(s: str) -> str:
    """object addresses and the scratch directory of the arrangement are not part of an error"""
    return _TMPPATH.sub(r'<dir>/\1', _ADDR.sub(' at 0x?', s))


def observe(schema: Any, probes: list[str]) -> dict:
    import xmlschema
    res = []
    for xml in probes:
        try:
            errs = [[type(e).__name__, e.path, norm_text(str(e.reason))] for e in schema.iter_errors(xml)]
        except Exception as e:   # noqa  (whatever escapes must escape identically in every arrangement)
            errs = [['raised', type(e).__name__, norm_text(str(e))[:200]]]
        try:
            data, e2 = schema.decode(xml, validation='lax')
            dec = norm_text(json.dumps(data, default=str, sort_keys=True))
            ne = len(e2)
        except Exception as e:   # noqa
            dec, ne = 'raised ' + type(e).__name__, -1
        res.append({'errors': errs, 'decoded': dec, 'n': ne})
    return {'globals': globals_of(schema), 'probes': res,
            'schema_errors': sorted(str(e.message) for e in schema.all_errors)}


def build_real(main_source: str, validation: str = 'strict') -> tuple[Any, dict]:
    import xmlschema
    with Recorder() as rec:
        schema = xmlschema.XMLSchema(main_source, validation=validation)
    return schema, rec.view(schema.maps)


def segs(path: str) -> list[str]:
    return [s for s in path.split('/')]


def url_segs(url: str) -> list[str]:
    assert url.startswith('file://'), url
    return [s for s in url[7:].split('/') if s != '']


def nested_enter(events: list) -> bool:
    depth = 0
    for t, _ in events:
        if t == 'enter':
            depth += 1
            if depth > 1:
                return True
        elif t in ('exit', 'abort'):
            depth -= 1
    return False


# =============================================================================================
#  one schema, all its arrangements
# =============================================================================================
class Batch:
    def __init__(self) -> None:
        self.reqs: list = []
        self.pend: list = []     # (kind, case, expected)

    def add(self, req: dict, kind: str, case: Any, expected: Any) -> None:
        self.reqs.append(req)
        self.pend.append((kind, case, expected))


def check_model_build(ctx: Ctx, batch: Batch, case: dict, view: dict, base_view: Optional[dict]) -> None:
    if view['staged'] is None:
        return
    exp = {'staged': view['staged'], 'events': view['events'],
           'errors': sorted(n for n, _, dup in view['flat'] if dup),
           'winners': view['winners']}
    batch.add(model_request(view), 'build/self', case, exp)
    if base_view is not None and not any(e[0] in ('circ', 'abort') for e in base_view['events']):
        batch.add(model_request(view, deps_from=base_view['deps']), 'build/predicted-from-base', case, exp)


def flush(ctx: Ctx, batch: Batch, drv: Optional[Driver]) -> None:
    if drv is None or not batch.reqs:
        batch.reqs, batch.pend = [], []
        return
    answers = drv.query(batch.reqs)
    for (kind, case, exp), m in zip(batch.pend, answers):
        ctx.traces += 1
        if 'err' in m:
            ctx.mismatch('driver error', case, None, m)
            continue
        if kind.startswith('build'):
            if m['fuel']:
                ctx.count('model:fuel')
                ctx.mismatch(kind + ': model ran out of fuel', case, None, None)
                continue
            # per-map staging order: the model's global insertion order restricted to each map
            got_staged = [q for k in range(6) for q in m['staged'] if q.startswith(f'{k}|')]
            if got_staged != exp['staged']:
                ctx.mismatch(kind + ': staged names / insertion order', case, exp['staged'], got_staged)
            elif m['log'] != exp['events']:
                ctx.mismatch(kind + ': build trace (enter/exit/hit/circ/missing)', case, exp['events'][:60], m['log'][:60])
            if sorted(m['errors']) != exp['errors']:
                ctx.mismatch(kind + ': duplicate declaration errors', case, exp['errors'], sorted(m['errors']))
            if exp['winners'] is not None and {a: b for a, b in m['winners']} != exp['winners']:
                ctx.mismatch(kind + ': which declaration of a duplicated name is staged', case, exp['winners'], m['winners'])
        elif kind == 'resolve':
            if m['key'] != exp:
                ctx.mismatch('normalised location', case, exp, m['key'])
        elif kind == 'include':
            if m['order'] != exp:
                ctx.mismatch('registration order of included documents', case, exp, m['order'])
    batch.reqs, batch.pend = [], []


def diff_obs(a: dict, b: dict) -> Optional[dict]:
    if a['globals'] != b['globals']:
        return {'what': 'global components differ', 'base': [g for g in a['globals'] if g not in b['globals']],
                'variant': [g for g in b['globals'] if g not in a['globals']]}
    for i, (pa, pb) in enumerate(zip(a['probes'], b['probes'])):
        if pa['errors'] != pb['errors']:
            return {'what': 'errors of a probe instance differ', 'probe': i, 'base': pa['errors'], 'variant': pb['errors']}
        if pa['decoded'] != pb['decoded']:
            return {'what': 'decoded data of a probe instance differ', 'probe': i, 'base': pa['decoded'], 'variant': pb['decoded']}
    return None


def location_checks(ctx: Ctx, batch: Batch, case: dict, written: dict, schema: Any) -> None:
    from xmlschema.utils.urls import normalize_url
    for l in written['locs']:
        loc = l['loc']
        base_url = 'file://' + l['dir']
        real = normalize_url(loc, base_url)
        ctx.count('location:' + ('url' if loc.startswith('file:') else 'abs' if loc.startswith('/') else
                                 'updown' if '..' in loc.split('/') else 'dot' if loc.startswith('./') else 'rel'))
        # property on the real code: every spelling of the same file normalises to the same key
        want = 'file://' + os.path.normpath(l['target'])
        if real != want:
            ctx.failure('a spelling of a schema location does not normalise to the location of the file',
                        dict(case, location=loc, base_url=base_url), {'normalised': real, 'expected': want})
        is_abs = loc.startswith('/') or loc.startswith('file://')
        p = loc[7:] if loc.startswith('file://') else loc
        batch.add({'op': 'resolve', 'dir': [s for s in l['dir'].split('/') if s], 'abs': is_abs,
                   'loc': p.split('/')}, 'resolve', dict(case, location=loc), url_segs(real))
    # registration order of the documents of the target namespace
    docs = []
    for d in written['docs']:
        incs = []
        for loc in d['includes']:
            is_abs = loc.startswith('/') or loc.startswith('file://')
            p = loc[7:] if loc.startswith('file://') else loc
            incs.append({'abs': is_abs, 'loc': p.split('/')})
        docs.append({'key': [s for s in d['path'].split('/') if s], 'dir': [s for s in d['dir'].split('/') if s],
                     'includes': incs})
    real_order = [url_segs(s.source.url) for s in schema.maps.namespaces[TNS]]
    batch.add({'op': 'include', 'docs': docs, 'root': docs[0]['key']}, 'include', case, real_order)
    # property on the real code: every file registered exactly once
    if len({tuple(x) for x in real_order}) != len(real_order) or len(real_order) != len(docs):
        ctx.failure('a document of the arrangement is registered twice or not at all',
                    case, {'registered': real_order, 'files': [d['path'] for d in written['docs']]})


def storage_variants(schema: Any) -> list[tuple[str, Any]]:
    """build twice / copy / pickle on the real object"""
    out = []
    out.append(('copy.copy', lambda: copy.copy(schema)))

    def maps_copy():
        m2 = schema.maps.copy()
        m2.build()
        return m2.validator
    out.append(('maps.copy+build', maps_copy))
    out.append(('pickle', lambda: pickle.loads(pickle.dumps(schema))))

    def rebuild():
        schema.maps.clear()
        schema.maps.build()
        return schema
    out.append(('clear+build', rebuild))
    return out


def one_schema(ctx: Ctx, drv: Optional[Driver], batch: Batch, idx: int, tmp: str, size: int,
               n_perm: int, n_split: int, n_roots: int) -> None:
    rng = random.Random(ctx.rng.getrandbits(64))
    sc = Schema(rng, size)
    arrs = arrangements(sc, rng, n_perm, n_split)
    probes: list[str] = []
    for r in rng.sample(sc.roots(), min(n_roots, len(sc.roots()))):
        for m in (None, 'value', 'drop', 'extra', 'attr'):
            probes.append(sc.instance(r, m))
    base_obs = None
    base_view = None
    texts0 = None
    rejected: list = []
    both = False
    for ai, arr in enumerate(arrs):
        root = os.path.join(tmp, f's{idx}', f'a{ai}')
        written = write_arrangement(sc, arr, root)
        case = {'schema': idx, 'arrangement': {k: arr[k] for k in ('kind', 'topology', 'imports', 'open')},
                'spells': arr['spells'][:4], 'parts': [len(p) for p in arr['parts']]}
        src = open_source(written['main'], arr['open'])
        try:
            schema, view = build_real(src)
        except Exception as e:   # noqa
            rejected.append((case, written['files'], arr['open'], {'error': type(e).__name__, 'message': norm_text(str(e))[:400]}))
            ctx.count('arrangement rejected')
            continue
        obs = observe(schema, probes)
        if base_obs is None:
            base_obs, base_view, texts0 = obs, view, written['files']
            verdicts = {bool(p['errors']) for p in obs['probes']}
            ctx.count('probes:valid', sum(1 for p in obs['probes'] if not p['errors']))
            ctx.count('probes:invalid', sum(1 for p in obs['probes'] if p['errors']))
            both = len(verdicts) == 2
        else:
            d = diff_obs(base_obs, obs)
            if d is not None:
                ctx.failure('arrangement changes the schema: ' + d['what'],
                            dict(case, base_files=texts0, files=written['files'], probes=probes, open=arr['open']), d)
        nontrivial = nested_enter(view['events']) and both
        ctx.case(case, nontrivial, tag='arrangement:' + arr['kind'] + ('/' + arr['topology'] if arr['kind'].startswith('split') else ''))
        ctx.count('forward-refs-resolved-on-demand' if nested_enter(view['events']) else 'no-forward-ref')
        check_model_build(ctx, batch, case, view, base_view if view is not base_view else None)
        location_checks(ctx, batch, case, written, schema)
        # storage variants on this arrangement (cheap: only on the base and one split)
        if view is base_view or arr['kind'].startswith('split') and ai == len(arrs) - 1:
            for name, make in storage_variants(schema):
                scase = dict(case, storage=name)
                try:
                    with Recorder() as rec:
                        s2 = make()
                    v2 = rec.view(s2.maps)
                    o2 = observe(s2, probes)
                except Exception as e:   # noqa
                    ctx.failure('storage operation fails: ' + name, dict(scase, base_files=texts0, files=written['files'], probes=probes, open=arr['open']),
                                {'error': type(e).__name__, 'message': str(e)[:300]})
                    continue
                d = diff_obs(base_obs, o2)
                ctx.case(scase, nontrivial, tag='storage:' + name)
                if d is not None:
                    ctx.failure('storage operation changes the schema: ' + name + ': ' + d['what'],
                                dict(scase, base_files=texts0, files=written['files'], probes=probes, open=arr['open']), d)
                if v2['builds']:
                    check_model_build(ctx, batch, scase, v2, base_view)
    if base_obs is None:
        ctx.count('generated schema rejected in every arrangement')
        ctx.extra['schemas_rejected'] = ctx.extra.get('schemas_rejected', 0) + 1
    else:
        ctx.extra['schemas_built'] = ctx.extra.get('schemas_built', 0) + 1
        for case, files, how, err in rejected:
            ctx.failure('an arrangement of a schema is rejected while another arrangement of the same declarations is accepted',
                        dict(case, base_files=texts0, files=files, probes=probes, open=how), err)
    if len(batch.reqs) > 400:
        flush(ctx, batch, drv)


# =============================================================================================
#  duplicate / circular declarations: model correspondence only
# =============================================================================================
ILL = [
    # (description, declarations)   — built with validation='lax'
    ('circular simple types', ['<xs:simpleType name="A"><xs:restriction base="t:B"/></xs:simpleType>',
                               '<xs:simpleType name="B"><xs:restriction base="t:C"/></xs:simpleType>',
                               '<xs:simpleType name="C"><xs:restriction base="t:A"/></xs:simpleType>',
                               '<xs:element name="r" type="t:B"/>']),
    ('circular complex extension', ['<xs:complexType name="A"><xs:complexContent><xs:extension base="t:B"/></xs:complexContent></xs:complexType>',
                                    '<xs:complexType name="B"><xs:complexContent><xs:extension base="t:A"/></xs:complexContent></xs:complexType>',
                                    '<xs:element name="r" type="t:A"/>']),
    ('circular groups', ['<xs:group name="G"><xs:sequence><xs:group ref="t:H"/></xs:sequence></xs:group>',
                         '<xs:group name="H"><xs:sequence><xs:group ref="t:G"/><xs:element name="x" type="xs:int"/></xs:sequence></xs:group>',
                         '<xs:complexType name="T"><xs:group ref="t:G"/></xs:complexType>']),
    ('circular attribute groups', ['<xs:attributeGroup name="G"><xs:attributeGroup ref="t:H"/></xs:attributeGroup>',
                                   '<xs:attributeGroup name="H"><xs:attributeGroup ref="t:G"/><xs:attribute name="x" type="xs:int"/></xs:attributeGroup>',
                                   '<xs:complexType name="T"><xs:attributeGroup ref="t:G"/></xs:complexType>']),
    ('self reference', ['<xs:simpleType name="A"><xs:list itemType="t:A"/></xs:simpleType>',
                        '<xs:simpleType name="U"><xs:union memberTypes="t:U xs:int"/></xs:simpleType>']),
    ('duplicate type', ['<xs:simpleType name="A"><xs:restriction base="xs:int"/></xs:simpleType>',
                        '<xs:simpleType name="A"><xs:restriction base="xs:string"/></xs:simpleType>',
                        '<xs:element name="r" type="t:A"/>', '<xs:element name="r" type="xs:int"/>']),
    ('missing references', ['<xs:element name="r" type="t:Nope"/>',
                            '<xs:complexType name="T"><xs:sequence><xs:group ref="t:NoG"/></xs:sequence><xs:attributeGroup ref="t:NoAG"/></xs:complexType>',
                            '<xs:simpleType name="L"><xs:list itemType="t:NoItem"/></xs:simpleType>']),
]


def ill_formed(ctx: Ctx, drv: Optional[Driver], batch: Batch, tmp: str) -> None:
    import itertools
    head = HEAD.replace(' xmlns:a="urn:a" xmlns:b="urn:b"', '')
    for k, (desc, decls) in enumerate(ILL):
        perms = list(itertools.permutations(range(len(decls))))
        if ctx.quick():
            perms = perms[:6]
        for pi, p in enumerate(perms):
            root = os.path.join(tmp, f'ill{k}_{pi}')
            os.makedirs(root, exist_ok=True)
            main = os.path.join(root, 'main.xsd')
            with open(main, 'w') as f:
                f.write(head + '\n'.join(decls[i] for i in p) + '\n' + TAIL)
            case = {'ill-formed': desc, 'order': list(p)}
            try:
                schema, view = build_real(main, validation='lax')
            except Exception as e:   # noqa
                ctx.count('ill-formed: build raised ' + type(e).__name__)
                continue
            ctx.case(case, True, tag='ill-formed:' + desc)
            for t in {e[0] for e in view['events']}:
                ctx.count('trace-event:' + t)
            check_model_build(ctx, batch, case, view, None)
    flush(ctx, batch, drv)


# =============================================================================================
#  corpus schemas (tests/test_cases/examples): permutation + split with lxml
# =============================================================================================
def corpus_list(ctx: Ctx) -> list:
    """schemas of the test corpus (examples, features, issues) with the instance documents beside them"""
    base = REPO / 'tests' / 'test_cases'
    out = []
    for pat in ('examples/*/*.xsd', 'features/*/*.xsd', 'issues/*/*.xsd'):
        for f in sorted(base.glob(pat)):
            xmls = [x.name for x in sorted(f.parent.glob('*.xml')) if x.stat().st_size < 60_000][:4]
            out.append((str(f.relative_to(base)), xmls))
    return out


XSD = '{http://www.w3.org/2001/XMLSchema}'
GLOBAL_TAGS = {XSD + t for t in ('element', 'complexType', 'simpleType', 'group', 'attributeGroup', 'attribute', 'notation')}


def build_any(path: str):
    """the schema with the XSD 1.0 processor, or (when that fails, e.g. XSD 1.1 constructs) the 1.1 one"""
    import xmlschema
    try:
        return xmlschema.XMLSchema10(path), xmlschema.XMLSchema10
    except Exception:   # noqa
        return xmlschema.XMLSchema11(path), xmlschema.XMLSchema11


def corpus(ctx: Ctx, tmp: str) -> None:
    base = REPO / 'tests' / 'test_cases'
    usable = 0
    for ci, (rel, xmls) in enumerate(corpus_list(ctx)):
        if usable >= ctx.pick(30, 400) or ctx.time_left() < 400:
            break
        src = base / rel
        if sum(f.stat().st_size for f in src.parent.iterdir() if f.is_file()) > 2_000_000:
            continue
        d = os.path.join(tmp, f'corpus{ci}')
        shutil.copytree(src.parent, os.path.join(d, 'orig'))
        if arrangements_of(ctx, d, src.parent, src.name, [str(src.parent / x) for x in xmls if (src.parent / x).exists()],
                           rel, ctx.pick(3, 8)):
            usable += 1


# schema documents whose *header* carries defaults that every component of the document depends on: moving a
# declaration to an included document with the same header, or permuting, must not change anything
HEADER_FAMILY = [
    ('defaultAttributes (1.1)', '''<xs:schema xmlns:xs="http://www.w3.org/2001/XMLSchema" targetNamespace="urn:h" xmlns:h="urn:h"
   elementFormDefault="qualified" defaultAttributes="h:common">
 <xs:element name="doc" type="h:docType"/>
 <xs:complexType name="docType"><xs:sequence><xs:element name="node" type="h:nodeType" maxOccurs="unbounded"/></xs:sequence></xs:complexType>
 <xs:complexType name="nodeType"><xs:sequence><xs:element name="leaf" type="h:leafType" minOccurs="0"/></xs:sequence></xs:complexType>
 <xs:complexType name="leafType"><xs:simpleContent><xs:extension base="xs:int"/></xs:simpleContent></xs:complexType>
 <xs:attributeGroup name="common"><xs:attribute name="tag" type="xs:string"/><xs:attribute name="uid" type="xs:int" use="required"/></xs:attributeGroup>
</xs:schema>''', ['<h:doc xmlns:h="urn:h" uid="1"><h:node uid="2"><h:leaf uid="3">5</h:leaf></h:node></h:doc>',
                  '<h:doc xmlns:h="urn:h" uid="1"><h:node><h:leaf uid="3">5</h:leaf></h:node></h:doc>',
                  '<h:doc xmlns:h="urn:h" uid="1"><h:node uid="x" tag="t"/></h:doc>']),
    ('blockDefault/finalDefault', '''<xs:schema xmlns:xs="http://www.w3.org/2001/XMLSchema" targetNamespace="urn:h" xmlns:h="urn:h"
   elementFormDefault="qualified" blockDefault="extension" finalDefault="restriction">
 <xs:element name="doc"><xs:complexType><xs:sequence><xs:element ref="h:it" maxOccurs="unbounded"/></xs:sequence></xs:complexType></xs:element>
 <xs:element name="it" type="h:B"/>
 <xs:complexType name="B"><xs:sequence><xs:element name="a" type="xs:int" minOccurs="0"/></xs:sequence></xs:complexType>
 <xs:complexType name="E"><xs:complexContent><xs:extension base="h:B"><xs:sequence><xs:element name="b" type="xs:int"/></xs:sequence></xs:extension></xs:complexContent></xs:complexType>
 <xs:simpleType name="S"><xs:restriction base="xs:int"><xs:maxInclusive value="9"/></xs:restriction></xs:simpleType>
</xs:schema>''', ['<h:doc xmlns:h="urn:h"><h:it><h:a>1</h:a></h:it></h:doc>',
                  '<h:doc xmlns:h="urn:h" xmlns:xsi="http://www.w3.org/2001/XMLSchema-instance"><h:it xsi:type="h:E"><h:a>1</h:a><h:b>2</h:b></h:it></h:doc>']),
    ('unqualified forms + attributeFormDefault', '''<xs:schema xmlns:xs="http://www.w3.org/2001/XMLSchema" targetNamespace="urn:h" xmlns:h="urn:h"
   attributeFormDefault="qualified">
 <xs:element name="doc" type="h:T"/>
 <xs:complexType name="T"><xs:sequence><xs:element name="loc" type="h:U" maxOccurs="2"/></xs:sequence><xs:attribute name="k" type="xs:int"/></xs:complexType>
 <xs:complexType name="U"><xs:sequence><xs:element name="in" type="xs:string" minOccurs="0"/></xs:sequence><xs:attribute name="m" type="xs:int" use="required"/></xs:complexType>
</xs:schema>''', ['<h:doc xmlns:h="urn:h" h:k="1"><loc h:m="2"><in>x</in></loc></h:doc>',
                  '<h:doc xmlns:h="urn:h" k="1"><h:loc m="2"/></h:doc>']),
    ('defaultOpenContent + xpathDefaultNamespace (1.1)', '''<xs:schema xmlns:xs="http://www.w3.org/2001/XMLSchema" targetNamespace="urn:h" xmlns:h="urn:h"
   elementFormDefault="qualified" xpathDefaultNamespace="##targetNamespace">
 <xs:defaultOpenContent mode="suffix"><xs:any namespace="##other" processContents="lax"/></xs:defaultOpenContent>
 <xs:element name="doc" type="h:T"><xs:unique name="u"><xs:selector xpath="row"/><xs:field xpath="@id"/></xs:unique></xs:element>
 <xs:complexType name="T"><xs:sequence><xs:element name="row" type="h:R" maxOccurs="unbounded"/></xs:sequence></xs:complexType>
 <xs:complexType name="R"><xs:sequence><xs:element name="v" type="xs:int" minOccurs="0"/></xs:sequence><xs:attribute name="id" type="xs:int"/>
   <xs:assert test="not(v) or v ge 0"/></xs:complexType>
</xs:schema>''', ['<h:doc xmlns:h="urn:h" xmlns:o="urn:o"><h:row id="1"><h:v>1</h:v><o:x/></h:row><h:row id="2"/><o:y/></h:doc>',
                  '<h:doc xmlns:h="urn:h"><h:row id="1"/><h:row id="1"><h:v>-1</h:v></h:row></h:doc>']),
]


def header_family(ctx: Ctx, tmp: str) -> None:
    from pathlib import Path
    for k, (name, xsd, docs) in enumerate(HEADER_FAMILY):
        d = os.path.join(tmp, f'hdr{k}')
        orig = os.path.join(d, 'orig')
        os.makedirs(orig)
        with open(os.path.join(orig, 'main.xsd'), 'w') as f:
            f.write(xsd)
        probes = []
        for j, x in enumerate(docs):
            pth = os.path.join(orig, f'probe{j}.xml')
            with open(pth, 'w') as f:
                f.write(x)
            probes.append(pth)
        arrangements_of(ctx, d, Path(orig), 'main.xsd', probes, 'header-family: ' + name, ctx.pick(6, 16))


def arrangements_of(ctx: Ctx, d: str, srcdir: Any, srcname: str, probes: list, rel: str, n_variants: int) -> bool:
    """permutations and include-splits (same header) of one schema document, compared with the original"""
    import lxml.etree as ET
    main0 = os.path.join(d, 'orig', srcname)
    try:
        s0, cls = build_any(main0)
    except Exception:   # noqa  (deliberately invalid test schemas, remote imports)
        ctx.count('corpus: base does not build (skipped)')
        return False
    o0 = observe(s0, probes)
    tree = ET.parse(main0)
    rootel = tree.getroot()
    if any(c.tag in (XSD + 'redefine', XSD + 'override') for c in rootel):
        return True
    for vi in range(n_variants):
        t = ET.parse(main0)
        r = t.getroot()
        globs = [c for c in r if c.tag in GLOBAL_TAGS]
        names = [(c.tag, c.get('name')) for c in globs]
        if len(set(names)) != len(names) or len(globs) < 2:
            break
        for c in globs:
            r.remove(c)
        ctx.rng.shuffle(globs)
        vd = os.path.join(d, f'v{vi}')
        shutil.copytree(srcdir, vd)
        kind = 'perm'
        if vi % 2 == 1:
            # move a suffix of the declarations into a new included document with the same header
            cut = ctx.rng.randint(1, len(globs) - 1)
            t2 = ET.parse(main0)
            r2 = t2.getroot()
            for c in list(r2):
                if c.tag in GLOBAL_TAGS:
                    r2.remove(c)
            for c in globs[cut:]:
                r2.append(c)
            t2.write(os.path.join(vd, 'zz_part.xsd'))
            inc = ET.SubElement(r, XSD + 'include')
            inc.set('schemaLocation', ctx.rng.choice(['zz_part.xsd', './zz_part.xsd', 'q/../zz_part.xsd']))
            r.remove(inc)
            # includes must precede the declarations: insert after the last include/import/annotation prefix
            pos = 0
            for k2, c in enumerate(r):
                if c.tag in (XSD + 'include', XSD + 'import'):
                    pos = k2 + 1
            r.insert(pos, inc)
            globs = globs[:cut]
            kind = 'split2'
        for c in globs:
            r.append(c)
        t.write(os.path.join(vd, srcname))
        case = {'corpus': rel, 'variant': vi, 'kind': kind, 'class': cls.__name__}
        try:
            s1 = cls(os.path.join(vd, srcname))
        except Exception as e:   # noqa
            ctx.failure('an arrangement of a corpus schema is rejected', case,
                        {'error': type(e).__name__, 'message': str(e)[:400]})
            continue
        o1 = observe(s1, [os.path.join(vd, os.path.basename(p)) if os.path.exists(os.path.join(vd, os.path.basename(p))) else p
                          for p in probes])
        ctx.case(case, True, tag='corpus:' + kind)
        dd = diff_obs(o0, o1)
        if dd is not None:
            ctx.failure('arrangement changes a corpus schema: ' + dd['what'], case, dd)
    return True


# =============================================================================================
def run(ctx: Ctx, driver_ok: bool) -> None:
    import warnings
    warnings.simplefilter('ignore')
    drv = Driver('drv_c09') if driver_ok else None
    tmp = tempfile.mkdtemp(prefix='c09-')
    batch = Batch()
    try:
        ill_formed(ctx, drv, batch, tmp)
        header_family(ctx, tmp)
        corpus(ctx, tmp)
        n = ctx.pick(70, 900)
        for i in range(n):
            size = ctx.rng.choice([8, 12, 16, 24, 32])
            one_schema(ctx, drv, batch, i, tmp, size, n_perm=ctx.pick(2, 3), n_split=ctx.pick(3, 5),
                       n_roots=ctx.pick(3, 4))
            ctx.count(f'schema-size:{size}')
            if ctx.time_left() < 120:
                ctx.notes.append(f'stopped after {i + 1} schemas (time budget)')
                break
        flush(ctx, batch, drv)
    finally:
        shutil.rmtree(tmp, ignore_errors=True)
    if ctx.extra.get('schemas_built', 0) < 0.8 * (ctx.extra.get('schemas_built', 0) + ctx.extra.get('schemas_rejected', 0)) \
            or not ctx.extra.get('schemas_built'):
        # legal generated schemas are refused wholesale: nothing was compared, so nothing is established
        ctx.lean_ok = False
        ctx.broken.append('precondition of the correspondence: the real code rejects the generated (legal) schemas in '
                          'every arrangement (%d of %d)' % (ctx.extra.get('schemas_rejected', 0),
                                                            ctx.extra.get('schemas_rejected', 0) + ctx.extra.get('schemas_built', 0)))
    ctx.extra['explanation'] = ('metamorphic: every arrangement compared with the base arrangement of the same '
                                'schema on the real code; model tie: staged list, build trace, duplicate errors, '
                                'normalised locations, include registration order')


def search(ctx: Ctx) -> None:
    """A tie broke and nothing failed: evaluate the property itself on a wider family (no driver)."""
    tmp = tempfile.mkdtemp(prefix='c09-s-')
    batch = Batch()
    try:
        for i in range(ctx.pick(60, 150)):
            one_schema(ctx, None, batch, 10_000 + i, tmp, ctx.rng.choice([12, 24, 40]), 4, 6, 4)
            batch.reqs, batch.pend = [], []
            if ctx.failures or ctx.time_left() < 60:
                break
    finally:
        shutil.rmtree(tmp, ignore_errors=True)


def replay(ctx: Ctx, obj: dict) -> int:
    print(json.dumps({k: v for k, v in obj.items() if k != 'input'}, indent=1)[:3000])
    case = obj.get('input') or {}
    if 'files' not in case or 'base_files' not in case or not case['base_files']:
        print('nothing to replay on the real code (broken obligation, see "broken")')
        return 0
    tmp = tempfile.mkdtemp(prefix='c09-r-')
    try:
        res = []
        for tag in ('base_files', 'files'):
            root = os.path.join(tmp, tag)
            for rel, text in case[tag].items():
                p = os.path.join(root, rel)
                os.makedirs(os.path.dirname(p), exist_ok=True)
                with open(p, 'w') as f:
                    f.write(text)
            main = os.path.join(root, 'main.xsd')
            src = open_source(main, case.get('open', 'abs')) if tag == 'files' else main
            try:
                schema, view = build_real(src)
            except Exception as e:   # noqa
                print(f'{tag}: build fails: {type(e).__name__}: {str(e)[:300]}')
                res.append(None)
                continue
            if tag == 'files' and case.get('storage'):
                try:
                    schema = dict(storage_variants(schema))[case['storage']]()
                except Exception as e:   # noqa
                    print(f"storage operation {case['storage']} fails: {type(e).__name__}: {str(e)[:300]}")
                    return 1
            res.append(observe(schema, case.get('probes', [])))
        if res[0] is None or res[1] is None:
            print('REAL CODE: one arrangement is rejected, the other accepted' if (res[0] is None) != (res[1] is None)
                  else 'both arrangements rejected')
            return 1 if (res[0] is None) != (res[1] is None) else 0
        d = diff_obs(res[0], res[1])
        print('REAL CODE, base arrangement vs variant:', 'SAME' if d is None else json.dumps(d, indent=1)[:3000])
        return 1 if d is not None else 0
    finally:
        shutil.rmtree(tmp, ignore_errors=True)
