"""
C14 — accepted type restrictions only ever narrow what instances are valid.

S  (Lean)  Incl d b := ∀ w, Lang d.toRx w → Lang b.toRx w              XsVerif/Props/C14.lean
O  (Lean)  inclDecide: exploration of derivative pairs; `included` only with a re-checked closed
           certificate (incl_certificate_sound), `witness w` only after re-evaluation with the proved
           matcher (incl_witness_sound); fuel exhaustion = unknown        XsVerif/Model/Incl.lean
M  (Lean)  port of has_occurs_restriction, XsdElement/XsdAnyElement.is_restriction and the XSD 1.0 and
           1.1 group rules (is_restriction, is_element/sequence/all/choice_restriction, iter_model,
           effective occurs), admits_restriction                          XsVerif/Model/Restriction.lean
I          the real schema builder: a schema declares a base type B and a derived type D by
           <xs:restriction base="B">; verdict = D carries a restriction error or not

Facets (XsVerif/Model/Facets.lean) and attribute uses (XsVerif/Model/AttrRestriction.lean) have their own ports,
theorems and generated families: see `facets_family` / `attrs_family` below and harness/lib_c14facets.py,
harness/lib_c14attrs.py.

Per pair (version, base model, candidate restriction):
  correspondence   I vs M on the direct call D.content.is_restriction(B.content) and on the schema-level
                   verdict; introspected groups vs the generated ASTs; is_emptiable / effective occurs
  property         if the schema is accepted, O decides L(D) ⊆ L(B); a spec-level witness word only counts
                   after it was confirmed on the implementation (valid for the derived element, invalid
                   for the base element).  The pinned rules are heuristics that accept some non-inclusions
                   (finding C14-F0, by call site): a confirmed unsound acceptance is *known* iff the Lean
                   port of the pinned rules accepts the same pair; anything else is a violation.
"""
from __future__ import annotations

import json
from pathlib import Path
from typing import Any, Optional

from harness.core import Ctx, Driver, VERIF
from harness import lib_cm as cm
from harness import lib_cm14 as c14

PROPS = ['XsVerif.Props.C14', 'XsVerif.Props.C14ElemType']
AUDIT = 'XsVerif.Audit.C14'
LEAN_TARGETS = ['XsVerif.Props.C14', 'XsVerif.Props.C14ElemType', 'drv_c14']
LEANCHECK = ['XsVerif.Model.Incl', 'XsVerif.Lemmas.Incl', 'XsVerif.Model.Restriction', 'XsVerif.Model.Facets',
             'XsVerif.Lemmas.Facets', 'XsVerif.Model.AttrRestriction', 'XsVerif.Lemmas.AttrRestriction',
             'XsVerif.Props.C14']
RULE = ('case = (XSD version, base content model, candidate restriction). Bases: the complete family of groups with '
        '≤2 leaves over {a,b,wildcard} nested to depth 2 (seed-independent sample in the quick tier) and seeded random '
        'models (depth ≤3, substitution-group head, elements of a second namespace, wildcards with 5 namespace '
        'constraints, xs:all); candidates: every systematic change of one place of the base (tightened / widened / '
        'zeroed occurrences of every particle, dropped / added / wrapped / swapped particles, chosen or dropped choice '
        'branches, changed compositor, wildcard→element and element→wildcard, renamed element, changed wildcard '
        'namespace, emptied group); named groups (references to shared global groups); and a dedicated family '
        '`element-vs-choice`: sequence(sibling?, choice{..}(2-3 branches that ALL match one element name — the element, '
        'its substitution head, wildcards of 5 (1.1: 8) constraints admitting it — plus maybe one that does not), '
        'sibling?) against the same model with the choice replaced by ONE element whose range is taken around each '
        'branch range × choice range and around the sums over the matching branches (±1), sums-only ranges first. '
        'and a family `model-kind-change`: small groups of every kind (required/optional items, nested, '
        'single-item) against the same group with another MODEL KIND (sequence/choice/all) combined with keeping one '
        'item, dropping the first/last/middle item, single-branch wrappers and reset occurrences, at every group node. '
        'non-trivial = the candidate differs from the base and both types were built '
        'without structural errors; distinct by canonical JSON. Facets: chains of 2-3 restriction steps over '
        'xs:integer / decimal / short / nonNegativeInteger / string / normalizedString / token (the systematic pairs '
        'of the property text: every pair of bound kinds over {-1,0,1,2,5}, of length kinds over {0..3}, of digit '
        'kinds over {1..3}, of whiteSpace values; and seeded chains with bounds, lengths, digits, enumerations, '
        'whiteSpace, fixed flags, 60% of the steps derived from the previous one by moving its values inwards), '
        'each type judged on 21-28 values / 14 texts with white space. Attributes: (base, restriction) pairs of '
        'attribute groups (the systematic single-attribute family use × fixed × type × wildcard crossed with itself, '
        'and seeded groups of ≤3 attributes — local, qualified, reference to a global — × 6 types incl. a '
        'user-defined restriction and no type × use × fixed/default × wildcard namespace (6) × processContents (3) '
        '× notQName in 1.1; restrictions obtained by keeping / dropping / re-declaring each attribute with another '
        'use, type, fixed value, adding attributes, changing or dropping the wildcard) judged on 28 attribute sets; '
        'has_occurs_restriction on every pair of ranges over {0..3,∞}')
TRUSTED = ['alphabet of representative child names (one per class of names the leaves of the two models can tell '
           'apart: every declared element name of either model, and for wildcards an undeclared target-namespace '
           'name, a name of each foreign namespace and an unqualified name); inclusion is proved for words over it',
           'children are simple-typed (xs:string) global elements: their own validity is C02; element-level clauses '
           '(type derivation, fixed, nillable, block) are ported as opaque inputs and exercised by a small family',
           'independent python reference matcher (harness/lib_cm.py) cross-checks the proved oracle on bounded words',
           'facets: a value is what the facets look at (position in a linear order, length, digit counts, equality '
           'class), computed by the harness from the decoded python value; decoding itself, patterns, assertions, '
           'list/union varieties, date/time (partial order) and float NaN are outside the facet model (C02)',
           'attributes: validity of a lexical value for a simple type, value equality, type derivation and the '
           'normalisation of fixed values are recorded from the real types (parameters `Sem`, `RCtx`, hypothesis '
           '`TypeSem` of attr_restriction_sound_partial); validation of an attribute set is the C03 model, the '
           'wildcard operations the C16 model (imported)']
ASSUMPTIONS = ['xs:redefine is not generated', 'attribute groups (xs:attributeGroup ref) and the XSD 1.1 `inheritable` '
               'clause of the attribute check are not generated / not modelled',
               'value constraints (default / fixed) of the base type are valid for their own types (hypothesis hB)']

KNOWN_ID = 'C14-F0'
FINDINGS = VERIF / 'notes' / 'findings' / 'C14.json'
FUEL = 1500            # states of the inclusion oracle per pair (quick tier; thorough: 3000, set in run); exhaustion = unknown
FUEL_OC = 500          # open content: interleaving with a wildcard multiplies the derivative pairs
KNOWN_SEEN: list[list[str]] = []      # every pair matched by C14-F0 on this run (v, base, derived)


def register_findings(ctx: Ctx) -> None:
    """entries of notes/findings/C14.json that the committed known_findings.json does not list yet (core only
    reads the latter); the status listed there wins: a fixed finding is never suppressed"""
    try:
        entries = json.loads(FINDINGS.read_text())['findings']
    except Exception:
        return
    for e in entries:
        if not any(k.get('id') == e['id'] for k in ctx.known):
            ctx.known.append({k: v for k, v in e.items() if k != 'witness' or 'enumerated_pairs' not in v})


def known_match(case: dict, detail: dict) -> Optional[str]:
    """C14-F0 (groups.py:679-850 / 1287-1542): the unsound acceptance is known iff the Lean port of the
    pinned rules accepts exactly this pair as well; without the Lean driver only the pairs recorded one by
    one in notes/findings/C14.json match."""
    if detail.get('port_accepts') is True:
        return KNOWN_ID
    if detail.get('port_accepts') is None:
        try:
            rec = json.loads(FINDINGS.read_text())['findings'][0]['witness']['enumerated_pairs']
        except Exception:
            return None
        if [case['v'], case['base'], case['derived']] in rec:
            return KNOWN_ID
    return None


# ---------------------------------------------------------------------------------------------

def type_errors(xsd_type: Any) -> tuple[int, int, int]:
    """(restriction/parse errors on the type, model (UPA) errors on the type, errors on its components)"""
    from xmlschema.validators.exceptions import XMLSchemaModelError
    parse = sum(1 for e in xsd_type.errors if not isinstance(e, XMLSchemaModelError))
    model = sum(1 for e in xsd_type.errors if isinstance(e, XMLSchemaModelError))
    comp = 0
    for c in xsd_type.content.iter_components():
        comp += len(c.errors)
    return parse, model, comp


def confirm(schema: Any, i: int, j: int, word: list[str]) -> tuple[bool, bool]:
    ed = schema.elements[f'ed{i}_{j}']
    eb = schema.elements[f'eb{i}']
    return ed.is_valid(c14.instance(f'ed{i}_{j}', word)), eb.is_valid(c14.instance(f'eb{i}', word))


def ref_cex(d: tuple, b: tuple, alpha: list[str], maxlen: int, limit: int = 4000) -> Optional[list[str]]:
    """python reference: first word (shortest first) in L(d) \\ L(b), bounded"""
    acc, _ = cm.viable_words(d, alpha, maxlen, limit)
    for w in acc:
        if not cm.ref_accepts(b, w):
            return w
    return None


def run_batch(ctx: Ctx, drv: Optional[Driver], bases: list[tuple], v11: bool, fam: str, per_base: int,
              cands_of: Any = None) -> None:
    """`cands_of(base)`: the candidate restrictions of a base, [(kind of change, derived AST)] (default: every
    systematic one-place change, lib_cm14.candidates)"""
    rng = ctx.rng
    derived: list[list[tuple]] = []
    tags: list[list[str]] = []
    for b in bases:
        cands = cands_of(b) if cands_of is not None else c14.candidates(b, v11)
        if len(cands) > per_base:
            keep = [cands[0]] + rng.sample(cands[1:], per_base - 1)
        else:
            keep = cands
        derived.append([d for _, d in keep])
        tags.append([t for t, _ in keep])
    schema = c14.build(bases, derived, v11)
    reqs, pend = [], []
    for i, b in enumerate(bases):
        B = schema.types[f'B{i}']
        b_err = type_errors(B)
        b_ok = b_err == (0, 0, 0)
        ctx.count(f'{fam}:base-built={b_ok}')
        for j, d in enumerate(derived[i]):
            D = schema.types[f'D{i}_{j}']
            bx, dx = c14.expand_refs(b), c14.expand_refs(d)       # named groups: the trees they are built into
            case = {'v': '1.1' if v11 else '1.0', 'base': cm.show(b), 'derived': cm.show(d), 'change': tags[i][j],
                    'b_ast': bx, 'd_ast': dx}
            if c14.has_refs(b) or c14.has_refs(d):
                case['b_src'], case['d_src'] = b, d
                ctx.count('named-groups:pair-with-references')
            parse, model, comp = type_errors(D)
            b_struct_ok = b_err[0] == 0 and b_err[2] == 0
            if comp or not b_struct_ok:
                ctx.case(case, False, tag=f"{case['v']}/{fam}")
                ctx.count('skipped:structural-error-in-candidate' if comp else 'skipped:structural-error-in-base')
                continue
            intro = c14.PairIntrospector(D.content, B.content)
            got = (c14.canon_ns(c14.ast_of_json(intro.d)), c14.canon_ns(c14.ast_of_json(intro.b)))
            want = (c14.canon_ns(dx), c14.canon_ns(bx))
            if got != want:
                ctx.mismatch('parsed groups differ from the declared models', case, got, want)
                continue
            try:
                direct: Any = bool(D.content.is_restriction(B.content))
            except Exception as e:      # the rules may raise on odd inputs: a distinct outcome
                direct = 'raises'
                ctx.count('direct-call-raises:' + type(e).__name__)
            impl = {'direct': direct, 'rejected': parse > 0, 'model_errors': model,
                    'accepted_schema': b_ok and parse == 0 and model == 0,
                    'emptiable': [D.content.is_emptiable(), B.content.is_emptiable()],
                    'eff': [D.content.effective_min_occurs, D.content.effective_max_occurs,
                            B.content.effective_min_occurs, B.content.effective_max_occurs]}
            alpha = c14.alphabet(dx, bx)
            words = None
            if rng.random() < 0.25:
                words = list(cm.words_upto(alpha, 3 if len(alpha) <= 5 else 2))
            reqs.append(intro.request(v11, alpha, FUEL, words))
            pend.append((i, j, case, impl, alpha, words))
    answers = drv.query(reqs) if drv is not None and reqs else [None] * len(reqs)
    for (i, j, case, impl, alpha, words), ans in zip(pend, answers):
        b, d = case['b_ast'], case['d_ast']
        nontrivial = case['change'] != 'same'
        ctx.case(case, nontrivial, tag=f"{case['v']}/{fam}")
        ctx.count('change:' + case['change'])
        ctx.count('real:direct=%s,schema-accepted=%s' % (impl['direct'], impl['accepted_schema']))
        if ans is None:
            evaluate_without_lean(ctx, schema, i, j, case, impl, alpha)
            continue
        if 'err' in ans:
            ctx.mismatch('driver error', case, None, ans)
            continue
        # ---- correspondence I vs M ---------------------------------------------------------
        ctx.traces += 1
        if ans['m'] in ('fuel',):
            ctx.count('port-fuel-exhausted')
            ctx.mismatch('port ran out of fuel', case, impl, ans)
            continue
        if ans['ext'] > 1:
            ctx.count('port-inexact:several-extended-wildcards')
        elif ans['m'] != impl['direct']:
            ctx.mismatch('is_restriction port vs implementation (direct call)', case, impl['direct'], ans['m'])
        elif (not ans['acc']) != impl['rejected']:
            ctx.mismatch('schema-level restriction verdict: port vs implementation', case, impl['rejected'],
                         {'acc': ans['acc'], 'admits': ans['admits']})
        if ans['emptiable'] != impl['emptiable']:
            ctx.mismatch('is_emptiable port vs implementation', case, impl['emptiable'], ans['emptiable'])
        if case['v'] == '1.1' and ans['eff'] != impl['eff']:
            ctx.mismatch('effective occurs port vs implementation', case, impl['eff'], ans['eff'])
        # ---- oracle cross-checks -----------------------------------------------------------
        incl = ans['incl']
        if words is not None:
            ctx.count('oracle-cross-checked')
            bf = ans['bf']
            refw = next((w for w in words if cm.ref_accepts(d, w) and not cm.ref_accepts(b, w)), None)
            if (bf is None) != (refw is None) or (bf is not None and words[bf] != refw):
                ctx.mismatch('proved matcher vs python reference on bounded words', case, refw, bf)
            if incl == 'included' and bf is not None:
                ctx.mismatch('inclusion certificate contradicted by a bounded word', case, words[bf], incl)
        kind = incl if isinstance(incl, str) else 'witness'
        ctx.count('oracle:' + kind)
        ctx.count('accepted=%s/%s' % (impl['accepted_schema'], kind))
        if kind == 'unknown':
            continue
        if not impl['accepted_schema'] or kind == 'included':
            continue
        # ---- the property: the schema was accepted and L(D) ⊄ L(B) at the spec level ----------
        w = [c14.sym_of_qn(q) for q in incl['w']]
        if not (cm.ref_accepts(d, w) and not cm.ref_accepts(b, w)):
            ctx.mismatch('witness of the proved oracle rejected by the python reference', case, None, w)
            continue
        vd, vb = confirm(schema, i, j, w)
        if not (vd and not vb):
            # the validator itself deviates from the specification on some models (C01-F0): the shortest witness
            # of the oracle may be hidden by such a deviation, so a few more spec-level witnesses are tried
            ctx.count('witness-not-confirmed-on-implementation(valid_d=%s,valid_b=%s)' % (vd, vb))
            acc, _ = cm.viable_words(d, alpha, 7, 400)
            for w2 in [x for x in acc if not cm.ref_accepts(b, x)][:6]:
                vd, vb = confirm(schema, i, j, w2)
                if vd and not vb:
                    w = w2
                    ctx.count('witness-confirmed-with-a-longer-word')
                    break
            else:
                continue
        detail = {'witness_children': w, 'valid_for_derived': vd, 'valid_for_base': vb,
                  'port_accepts': ans['acc'] is True}
        fid = known_match(case, detail)
        if fid:
            ctx.known_hit(fid)
            KNOWN_SEEN.append([case['v'], case['base'], case['derived']])
            ctx.count('known-unsound-acceptance:' + case['change'])
            ctx.extra.setdefault('known_examples', [])
            if len(ctx.extra['known_examples']) < 12:
                ctx.extra['known_examples'].append({k: case[k] for k in ('v', 'base', 'derived')} | {'word': ''.join(w)})
        else:
            ctx.failure('accepted restriction admits an instance that the base type rejects', case, detail)


def evaluate_without_lean(ctx: Ctx, schema: Any, i: int, j: int, case: dict, impl: dict, alpha: list[str]) -> None:
    """Lean unavailable: judge with the python reference language on bounded words."""
    if not impl['accepted_schema']:
        return
    w = ref_cex(case['d_ast'], case['b_ast'], alpha, 6)
    if w is None:
        return
    vd, vb = confirm(schema, i, j, w)
    if vd and not vb:
        detail = {'witness_children': w, 'valid_for_derived': vd, 'valid_for_base': vb, 'port_accepts': None}
        fid = known_match(case, detail)
        if fid:
            ctx.known_hit(fid)
        else:
            ctx.failure('accepted restriction admits an instance that the base type rejects '
                        '(reference matcher; Lean oracle unavailable)', case, detail)


# ---------------------------------------------------------------------------------------------
# XSD 1.1 open content: (content model, open content) pairs

KNOWN_OC = 'C14-F7'


def run_oc_batch(ctx: Ctx, drv: Optional[Driver], bases: list[tuple], derived: list[list[tuple]]) -> None:
    """bases: [(model, oc)], derived[i]: [(change, model, oc)]"""
    schema = c14.build_oc(bases, [[(d, o) for _, d, o in ds] for ds in derived])
    reqs, pend = [], []
    for i, (b, ocb) in enumerate(bases):
        B = schema.types[f'B{i}']
        b_err = type_errors(B)
        for j, (tag, d, ocd) in enumerate(derived[i]):
            D = schema.types[f'D{i}_{j}']
            case = {'v': '1.1', 'base': cm.show(b), 'derived': cm.show(d), 'change': tag, 'b_ast': b, 'd_ast': d,
                    'oc_base': ocb, 'oc_derived': ocd}
            parse, model, comp = type_errors(D)
            if comp or b_err[0] or b_err[2]:
                ctx.case(case, False, tag='1.1/open-content')
                ctx.count('skipped:structural-error-in-open-content-pair')
                continue
            intro = c14.PairIntrospector(D.content, B.content)
            jd, jb = c14.intro_oc(D.open_content, intro), c14.intro_oc(B.open_content, intro)
            got = (c14.canon_ns(c14.ast_of_json(intro.d)), c14.canon_ns(c14.ast_of_json(intro.b)),
                   c14.canon_oc(c14.oc_of_json(jd)), c14.canon_oc(c14.oc_of_json(jb)))
            want = (c14.canon_ns(d), c14.canon_ns(b), c14.canon_oc(ocd), c14.canon_oc(ocb))
            if got != want:
                ctx.mismatch('parsed groups / open contents differ from the declared ones', case, got, want)
                continue
            impl = {'rejected': parse > 0, 'accepted_schema': b_err == (0, 0, 0) and parse == 0 and model == 0,
                    'messages': sorted(str(e.message)[:60] for e in D.errors)}
            alpha = c14.alphabet(d, b)
            for oc in (ocd, ocb):                      # an open content admits names of every class
                if oc is not None and len(oc) > 1:
                    alpha += [x for x in c14.WILD_REPS if x not in alpha]
            req = intro.request(True, alpha, FUEL_OC)
            req['ocd'], req['ocb'] = jd, jb
            reqs.append(req)
            pend.append((i, j, case, impl, alpha))
    answers = drv.query(reqs) if drv is not None and reqs else [None] * len(reqs)
    for (i, j, case, impl, alpha), ans in zip(pend, answers):
        b, d, ocb, ocd = case['b_ast'], case['d_ast'], case['oc_base'], case['oc_derived']
        ctx.case(case, True, tag='1.1/open-content')
        ctx.count('open-content:change:' + case['change'])
        ctx.count('open-content:accepted=%s' % impl['accepted_schema'])
        w = None
        if ans is None:
            if impl['accepted_schema']:
                for cand in cm.words_upto(alpha, 3 if len(alpha) <= 6 else 2):
                    if c14.ref_accepts_t(d, ocd, cand) and not c14.ref_accepts_t(b, ocb, cand):
                        w = cand
                        break
            port_acc = plain = None
            if w is not None and any(cm.ref_accepts(d, c) and not cm.ref_accepts(b, c)
                                     for c in cm.words_upto(alpha, 3 if len(alpha) <= 6 else 2)):
                # the content models alone are not included: C14-F0 territory, whose match rule needs the port
                ctx.count('open-content:undecided-without-lean')
                continue
        else:
            if 'err' in ans:
                ctx.mismatch('driver error (open content)', case, None, ans)
                continue
            ctx.traces += 1
            if ans['acc'] == 'fuel':
                ctx.mismatch('port ran out of fuel', case, impl, ans)
                continue
            port_acc = (ans['acc'] is True) and ans['ocacc']
            if (not port_acc) != impl['rejected'] and ans['ext'] <= 1:
                ctx.mismatch('restriction verdict with open content: port vs implementation', case, impl,
                             {'acc': ans['acc'], 'ocacc': ans['ocacc']})
            incl = ans['incl']
            kind = incl if isinstance(incl, str) else 'witness'
            ctx.count('open-content:oracle:' + kind)
            plain = ans.get('inclPlain')
            if kind != 'witness' or not impl['accepted_schema']:
                continue
            w = [c14.sym_of_qn(q) for q in incl['w']]
            if not (c14.ref_accepts_t(d, ocd, w) and not c14.ref_accepts_t(b, ocb, w)):
                ctx.mismatch('witness of the proved oracle rejected by the python reference (open content)', case, None, w)
                continue
        if w is None:
            continue
        vd, vb = confirm(schema, i, j, w)
        if not (vd and not vb):
            ctx.count('open-content:witness-not-confirmed(valid_d=%s,valid_b=%s)' % (vd, vb))
            continue
        detail = {'witness_children': w, 'valid_for_derived': vd, 'valid_for_base': vb, 'port_accepts': port_acc,
                  'plain_models_included': None if plain is None else plain == 'included'}
        if ocd is None and ocb is None and ans is not None:
            detail['plain_models_included'] = False       # no open content at all: the witness is one of the plain models
        fid = oc_known_match(case, detail)
        if fid:
            ctx.known_hit(fid, case, detail)
            ctx.count('open-content:known:' + fid)
        else:
            ctx.failure('accepted restriction (open content) admits an instance that the base type rejects', case, detail)


def oc_known_match(case: dict, detail: dict) -> Optional[str]:
    """C14-F7: the derived type has an EMPTY content group and an open content that is not a restriction of the
    base type's (the clause of complex_types.py:402 is skipped for an empty group).  C14-F0: the content models
    alone (without the open contents) are already an unsound acceptance that the port reproduces."""
    d = case['d_ast']
    ocd = case['oc_derived']
    if not d[4] and ocd is not None and ocd[0] != 'none' and not c14.REPAIRED_OC['on']:
        return KNOWN_OC
    if detail.get('port_accepts') is True and detail.get('plain_models_included') is False:
        return KNOWN_ID
    return None


def open_content_family(ctx: Ctx, drv: Optional[Driver]) -> None:
    rng = ctx.rng
    c14.detect_repaired_oc()
    ctx.extra['open_content_clause'] = 'repaired' if c14.REPAIRED_OC['on'] else 'pinned'
    ocs = [None, ('none',)] + [(m, ns) for m in ('interleave', 'suffix') for ns in c14.OC_NS]

    def small_base() -> tuple:
        for _ in range(50):
            m = c14.random_base(rng, True)
            if len(cm.leaves(m)) <= 4 and m[1] != 'all':
                return m
        return ('g', 'sequence', 1, 1, [('e', 'a', 0, 1)])
    bases, derived = [], []
    for _ in range(ctx.pick(40, 300)):
        b = small_base()
        ocb = rng.choice(ocs + ocs[2:])
        cands = c14.candidates(b, True)
        ds = [('same-model', b, o) for o in rng.sample(ocs, 4)]
        ds += [('empty-group', ('g', b[1], b[2], b[3], []), o) for o in rng.sample(ocs[2:], 2)]
        for tag, d in rng.sample(cands[1:], min(4, len(cands) - 1)):
            ds.append((tag, d, rng.choice([ocb, ocb, rng.choice(ocs)])))
        bases.append((b, ocb))
        derived.append(ds)
    for k in range(0, len(bases), 6):
        run_oc_batch(ctx, drv, bases[k:k + 6], derived[k:k + 6])


# ---------------------------------------------------------------------------------------------
# a single derived element against a base CHOICE with several matching branches (elements.py:1213-1227:
# every matching branch is tested on its own occurrence range × the range of the choice; OccursCalculator)

ECH_BRANCH_OCC = [(1, 1), (2, 2), (3, 3), (1, 2), (2, 3), (0, 1), (0, 2), (2, None), (1, None)]
ECH_GROUP_OCC = [(1, 1), (1, 1), (1, 1), (2, 2), (1, 2), (0, 1), (1, None), (2, 3)]
ECH_WILD = ['##any', 'urn:t', 'urn:t urn:o', '##other', 'urn:o']
ECH_WILD11 = ['##any -b', '!urn:p', '##any -c']


def occ_mul(a: tuple, b: tuple) -> tuple:
    lo = a[0] * b[0]
    if a[1] is None:
        hi = 0 if b[1] == 0 else None
    elif b[1] is None:
        hi = None if a[1] != 0 else 0
    else:
        hi = a[1] * b[1]
    return lo, hi


def ech_base(rng, v11: bool) -> tuple:
    """sequence(sibling?, choice{..}(≥2 branches matching one element name, maybe one that does not), sibling?)
    or the bare choice; the returned AST carries the path of the choice and the target name in `ECH_INFO`"""
    target = rng.choice(['a', 'a', 's', 'o', 'h'])
    pool: list[tuple] = [('e', target)]
    if target == 's':
        pool.append(('e', 'h'))                      # the head admits its member
    wilds = [w for w in ECH_WILD + (ECH_WILD11 if v11 else []) if c14.leaf_matches(('a', w, 1, 1), target)]
    pool += [('a', w) for w in rng.sample(wilds, min(len(wilds), rng.randint(1, 2)))]
    rng.shuffle(pool)
    branches = [x + rng.choice(ECH_BRANCH_OCC) for x in pool[:rng.choice([2, 2, 3])]]
    if rng.random() < 0.3:
        other = rng.choice([n for n in ('b', 'c') if n != target])
        branches.insert(rng.randint(0, len(branches)), ('e', other) + rng.choice(ECH_BRANCH_OCC))
    choice = ('g', 'choice') + rng.choice(ECH_GROUP_OCC) + (branches,)
    if rng.random() < 0.15:
        return choice
    items: list[tuple] = [choice]
    if rng.random() < 0.7:
        items.insert(0, ('e', 'c' if target != 'c' else 'b') + rng.choice([(1, 1), (1, 1), (0, 1)]))
    if rng.random() < 0.4:
        items.append(('e', 'b') + rng.choice([(1, 1), (0, 1), (1, 2)]))
    return ('g', 'sequence') + rng.choice([(1, 1), (1, 1), (1, 1), (0, 1), (1, 2)]) + (items,)


def ech_candidates(rng, base: tuple, v11: bool, n: int) -> list[tuple[str, tuple]]:
    """the choice replaced by ONE element particle whose range is taken around the range of each matching branch
    (× the range of the choice) and around the sums over several matching branches"""
    out: list[tuple[str, tuple]] = [('same', base)]
    path = () if base[1] == 'choice' else next((k,) for k, it in enumerate(base[4]) if it[0] == 'g')
    choice = c14.get(base, path)
    names = ['a', 's', 'o', 'h', 'b']
    for target in names:
        match = [br for br in choice[4] if c14.leaf_matches(br, target)]
        if len(match) < 1:
            continue
        grp = (choice[2], choice[3])
        ranges = [occ_mul((br[2], br[3]), grp) for br in match]
        sums = []
        for k in range(2, len(match) + 1):
            lo = sum(br[2] for br in match[:k])
            hi = None if any(br[3] is None for br in match[:k]) else sum(br[3] for br in match[:k])
            sums.append(occ_mul((lo, hi), grp))
            sums.append((lo, hi))
        los = {max(0, r[0] + dlt) for r in ranges + sums for dlt in (-1, 0, 1)}
        his = {max(0, r[1] + dlt) for r in ranges + sums if r[1] is not None for dlt in (-1, 0, 1)} | {None}
        occs = [(lo, hi) for lo in los for hi in his if hi is None or lo <= hi]
        rng.shuffle(occs)
        # ranges that fit the sum of the branches but no single branch come first
        def fits(o, r):
            return o[0] >= r[0] and (r[1] is None or (o[1] is not None and o[1] <= r[1]))
        occs.sort(key=lambda o: 0 if (any(fits(o, r) for r in sums) and not any(fits(o, r) for r in ranges)) else 1)
        for lo, hi in occs[:max(3, n // (1 if len(match) > 1 else 3))]:
            tag = 'choice-to-element' if len(match) > 1 else 'choice-to-element-1branch'
            d = c14.put(base, path, ('e', target, lo, hi)) if path else ('g', 'sequence', 1, 1, [('e', target, lo, hi)])
            out.append((tag, d))
    seen, res = set(), []
    for t, d in out:
        if repr(d) not in seen:
            seen.add(repr(d))
            res.append((t, d))
    return res[:n + 1]


# ---------------------------------------------------------------------------------------------
# families

def enumerated_bases() -> list[tuple]:
    """fixed, seed-independent family: groups with ≤2 leaves over {a, b, wildcard}"""
    occs = [(1, 1), (0, 1), (0, None), (1, None), (1, 2), (2, 3)]
    out = list(cm.exhaustive_models(2, ['a', 'b'], occs=occs, depth=2))
    out += [m for m in cm.exhaustive_models(2, ['a'], occs=[(1, 1), (0, 1), (1, None)], depth=1, with_any=True)
            if any(l[0] == 'a' for l in cm.leaves(m))]
    return out


def cands_for(ctx: Ctx, fam: str, v11: bool, per_base: int) -> Any:
    if fam == 'element-vs-choice':
        return lambda b: ech_candidates(ctx.rng, b, v11, per_base)
    if fam == 'model-kind-change':
        return lambda b: c14.kind_change_candidates(b, v11)
    return None


def families(ctx: Ctx):
    rng = ctx.rng
    enum = enumerated_bases()
    for v11 in (False, True):
        n = ctx.pick(60, 350)
        step = max(1, len(enum) // n)
        yield 'enum2', v11, enum[::step][:n], ctx.pick(30, 40)
        rnd = [c14.random_base(rng, v11) for _ in range(ctx.pick(60, 350))]
        yield 'random', v11, rnd, ctx.pick(30, 40)
        named = []
        while len(named) < ctx.pick(24, 150):
            m = cm.with_refs(rng, c14.random_base(rng, v11), 0.6)
            if c14.has_refs(m):
                named.append(m)
        yield 'named-groups', v11, named, ctx.pick(25, 40)
        yield 'model-kind-change', v11, [c14.kind_change_base(rng, v11) for _ in range(ctx.pick(50, 300))], ctx.pick(26, 40)
        yield 'element-vs-choice', v11, [ech_base(rng, v11) for _ in range(ctx.pick(60, 300))], ctx.pick(14, 24)


def occurs_table(ctx: Ctx, drv: Optional[Driver]) -> None:
    """has_occurs_restriction on every pair of ranges over {0..3, unbounded} (exhaustive small scope)"""
    from xmlschema.validators.particles import ParticleMixin
    vals: list[Optional[int]] = [0, 1, 2, 3, None]
    qs = [(lo, hi, olo, ohi) for lo in range(4) for hi in vals for olo in range(4) for ohi in vals]
    real = [ParticleMixin(lo, hi).has_occurs_restriction(ParticleMixin(olo, ohi)) for lo, hi, olo, ohi in qs]
    for q, r in zip(qs, real):
        lo, hi, olo, ohi = q
        ctx.case({'occurs': q}, True, tag='occurs-table')
        # the property at leaf level, read directly: an accepted range pair is an inclusion of count sets
        if r and (hi is None or lo <= hi):
            counts = [n for n in range(0, 8) if n >= lo and (hi is None or n <= hi)]
            bad = [n for n in counts if not (n >= olo and (ohi is None or n <= ohi))]
            if bad or (hi is None and ohi is not None):
                ctx.failure('has_occurs_restriction accepts a range that is not included', {'occurs': q}, bad)
    if drv is not None:
        ans = drv.query([{'op': 'occ', 'q': [list(q) for q in qs]}])[0]
        for q, r, m in zip(qs, real, ans['r']):
            ctx.traces += 1
            if r != m:
                ctx.mismatch('has_occurs_restriction port vs implementation', {'occurs': q}, r, m)


def strict_sample(ctx: Ctx) -> None:
    """the lax-mode reading of the verdict agrees with a strict build (error class) on a sample"""
    import xmlschema
    from xmlschema.validators.exceptions import XMLSchemaModelError
    rng = ctx.rng
    for v11 in (False, True):
        for _ in range(ctx.pick(12, 60)):
            b = c14.random_base(rng, v11)
            tag, d = rng.choice(c14.candidates(b, v11))
            lax = c14.build([b], [[d]], v11)
            n_err = len(lax.all_errors)
            try:
                c14.build([b], [[d]], v11, 'strict')
                strict_ok = True
            except (xmlschema.XMLSchemaParseError, XMLSchemaModelError):
                strict_ok = False
            ctx.traces += 1
            ctx.count(f'strict-sample:accepted={strict_ok}')
            if strict_ok != (n_err == 0):
                ctx.mismatch('lax errors vs strict build', {'v11': v11, 'base': cm.show(b), 'derived': cm.show(d)},
                             n_err, strict_ok)



# ---------------------------------------------------------------------------------------------
# second part: facet pairs and attribute-use pairs (real verdict vs a direct subset test on a catalogue)

# ---------------------------------------------------------------------------------------------
# attribute uses and attribute wildcards (harness/lib_c14attrs.py): the restriction check and the derived
# type's attribute group vs the Lean port; validity of attribute sets vs the C03 model; the property

def attr_known_match(info: dict, attrs: list, g: dict) -> Optional[str]:
    """The three known ways in which an accepted restriction widens the admitted attribute sets, each identified
    by the attribute carried by the failing instance (the guards of attr_restriction_sound_partial, evaluated here
    on the introspected groups; `g` = the same guards evaluated by the Lean driver, None without Lean):
      C14-F2  the restriction prohibits an attribute that the base declares (not prohibited) and the derived
              type's wildcard admits the name
      C14-F4  the restriction redeclares the attribute with type xs:anySimpleType over another base type
      C14-F5  the restriction declares an attribute that the base admits through its wildcard only, and that
              wildcard assesses it (strict, or lax with a global declaration)
      C14-F6  both declare the attribute with fixed values that are equal as normalised texts, but the two types
              compare the instance value with the fixed value in different value spaces (hypothesis
              TypeSem.fixed_compat of the theorem does not hold for the recorded type facts)"""
    B, D, M = info['B'], info['D'], info['M']
    bd = {tuple(d['n']): d for d in B['decls']}
    dd = {tuple(d['n']): d for d in D['decls']}
    any_simple = info['tables']['anySimple']
    globs = {tuple(x['n']) for x in info['globals']}
    for name, _ in attrs:
        q = tuple(qn14(name))
        d, b = dd.get(q), bd.get(q)
        if d is None:
            continue
        if d['use'] == 'prohibited':
            if b is not None and b['use'] != 'prohibited' and M['any'] is not None and (g is None or g['g2'] is False):
                return 'C14-F2'
            continue
        if b is not None and b['use'] != 'prohibited':
            if d['ty'] in any_simple and b['ty'] not in any_simple and (g is None or g['g1'] is False):
                return 'C14-F4'
            if d['fixed'] is not None and b['fixed'] is not None and d['ty'] != b['ty'] \
                    and (g is None or g.get('sem') is False):
                return 'C14-F6'
            continue
        bw = B['any']
        if bw is not None and (bw['pc'] == 'strict' or (bw['pc'] == 'lax' and q in globs)) \
                and (g is None or g['g3'] is False):
            return 'C14-F5'
    return None


def qn14(name: str) -> list:
    from harness import lib_c14attrs as ax
    return ax.qn(name)


def attr_pair(ctx: Ctx, v11: bool, b: dict, d: dict, cat: list, fam: str) -> Optional[tuple]:
    """build one pair; returns (request, pending record) or None"""
    from harness import lib_c14attrs as ax
    case = {'v': '1.1' if v11 else '1.0', 'base': b, 'derived': d}
    schema = ax.build(b, d, v11)
    errs, other = ax.restriction_errors(schema)
    info = ax.introspect(schema)
    fixed_values = sorted({x['fixed'] for g in (info['B'], info['D']) for x in g['decls'] if x['fixed'] is not None})
    values = sorted({v for a in cat for _, v in a} | set(fixed_values) |
                    {x['default'] for g in (info['B'], info['M']) for x in g['decls'] if x['default'] is not None} |
                    {x[k] for x in info['globals'] for k in ('fixed', 'default') if x[k] is not None})
    info['tables'] = info['types'].tables(values, fixed_values)
    vd = [ax.valid_instance(schema, 'ed', a) for a in cat]
    vb = [ax.valid_instance(schema, 'eb', a) for a in cat]
    ctx.count(f'attrs:{fam}:accepted={not errs and not other}')
    for e in errs:
        ctx.count('attrs:error:' + e[0])
    req = {'op': 'attrs', 'B': info['B'], 'D': info['D'], 'globals': info['globals'], 'loaded': info['loaded'],
           'anyExempt': ATTR_MODE['anyExempt'],
           'cases': [[[ax.qn(n), v] for n, v in a] for a in cat], **info['tables']}
    return req, (case, schema, errs, other, info, vd, vb)


ATTR_MODE = {'anyExempt': True}      # set by detect_attr_mode: pinned exemption (C14-F4) or the repaired rule


def detect_attr_mode(ctx: Ctx) -> None:
    """which type-derivation rule the tree under check implements (the witness of C14-F4 decides): the model
    follows, so that applying notes/fixes/C14-anysimpletype-attribute-exemption.patch keeps the check green"""
    from harness import lib_c14attrs as ax
    s = ax.build({'decls': [('a', 'optional', None, 'xs:int', None)], 'any': None},
                 {'decls': [('a', 'optional', None, None, None)], 'any': None}, False)
    ATTR_MODE['anyExempt'] = not s.all_errors
    ctx.extra['attr_type_rule'] = 'pinned (xs:anySimpleType exempt)' if ATTR_MODE['anyExempt'] else 'repaired'


def attrs_family(ctx: Ctx, drv: Optional[Driver]) -> None:
    from harness import lib_c14attrs as ax
    rng = ctx.rng
    detect_attr_mode(ctx)
    sysp = ax.systematic_pairs()
    cat = ax.catalogue(rng, 6)
    for v11 in (False, True):
        pairs = [('systematic', b, d) for b, d in rng.sample(sysp, ctx.pick(200, 2500))]
        for _ in range(ctx.pick(300, 3000)):
            b = ax.gen_base(rng, v11)
            pairs.append(('random', b, ax.gen_derived(rng, b, v11)))
        for k in range(0, len(pairs), 50):
            if search_over() or (SEARCH['deadline'] is not None and ctx.failures):
                return
            reqs, pend = [], []
            for fam, b, d in pairs[k:k + 50]:
                try:
                    r = attr_pair(ctx, v11, b, d, cat, fam)
                except Exception as e:            # the build itself must not raise in lax mode
                    ctx.failure('schema build raised on an attribute restriction pair',
                                {'v': '1.1' if v11 else '1.0', 'base': b, 'derived': d}, repr(e)[:300])
                    continue
                reqs.append(r[0])
                pend.append((fam,) + r[1])
            answers = drv.query(reqs) if drv is not None and reqs else [None] * len(reqs)
            for (fam, case, schema, errs, other, info, vd, vb), ans in zip(pend, answers):
                attr_judge(ctx, fam, case, errs, other, info, vd, vb, cat, ans)


def attr_judge(ctx: Ctx, fam: str, case: dict, errs: list, other: list, info: dict, vd: list, vb: list,
               cat: list, ans: Optional[dict]) -> None:
    from harness import lib_c14attrs as ax
    ctx.case(case, True, tag=f"{case['v']}/attrs-{fam}")
    accepted = not errs and not other
    g = None
    if ans is not None and 'err' in ans:
        ctx.mismatch('driver error (attrs)', case, None, ans)
        ans = None
    if ans is not None:
        g = {k: ans[k] for k in ('g1', 'g2', 'g3', 'sem')}
        ctx.traces += 1
        if ax.canon_model_errs(ans['errs']) != errs:
            ctx.mismatch('attribute restriction check: port vs implementation', case, errs, ans['errs'])
        ctx.traces += 1
        if ax.canon_group(ans['merged']) != ax.canon_group(info['M']):
            ctx.mismatch('attribute group of the derived type: port vs implementation', case,
                         ax.canon_group(info['M']), ax.canon_group(ans['merged']))
        if not other:          # value constraints and the rest of the schema are well-formed
            ctx.traces += 2
            if ans['validD'] != vd:
                bad = [a for a, x, y in zip(cat, vd, ans['validD']) if x != y]
                ctx.mismatch('validity for the derived type: C03 model on the merged group vs implementation',
                             dict(case, attrs=bad[:3]), vd, ans['validD'])
            if ans['validB'] != vb:
                bad = [a for a, x, y in zip(cat, vb, ans['validB']) if x != y]
                ctx.mismatch('validity for the base type: C03 model vs implementation', dict(case, attrs=bad[:3]),
                             vb, ans['validB'])
            # the instance of attr_restriction_sound_partial inside the model
            if not ans['errs'] and all(g.values()):       # guards and (observable part of) hsem hold
                ctx.count('attrs:theorem-instance-checked')
                if any(x and not y for x, y in zip(ans['validD'], ans['validB'])):
                    ctx.mismatch('attr_restriction_sound_partial contradicted inside the model', case, None, ans)
    if not accepted:
        return
    for a, x, y in zip(cat, vd, vb):
        if x and not y:
            detail = {'attributes': [list(p) for p in a], 'valid_for_derived': True, 'valid_for_base': False,
                      'guards': g}
            fid = attr_known_match(info, a, g)
            if fid:
                ctx.known_hit(fid, case, detail)
                ctx.count('attrs:known:' + fid)
            else:
                ctx.failure('accepted restriction admits an attribute set that the base type rejects', case, detail)
            return


# ---------------------------------------------------------------------------------------------
# facets: chains of restriction steps — build verdict per step vs `checkStep`, validity vs
# `validChain` / `validEff` / `lexValid`, and the property on the real code (harness/lib_c14facets.py)

KNOWN_WS = 'C14-F3'


def ws_known_match(case: dict, detail: dict) -> Optional[str]:
    """C14-F3 (by specification; simple_types.py:447-463 / 1454-1477): whiteSpace is a pre-lexical facet.
    The failing text is changed by the derived type's white space normalisation, the base type normalises it
    differently, and the text *as normalised by the derived type* is valid for the base type (so the value
    sets are included, only the lexical mapping differs)."""
    if detail.get('ws_derived') != detail.get('ws_base') and detail.get('normalised_derived') != detail.get('normalised_base') \
            and detail.get('base_accepts_normalised') is True:
        return KNOWN_WS
    return None


def facet_batch(ctx: Ctx, drv: Optional[Driver], v: str, cls: Any, chains: list, fam: str) -> None:
    from harness import lib_c14facets as fx
    schema = cls(fx.schema_text(chains), validation='lax')
    keys = fx.Interner()
    reqs, pend = [], []
    for c, (prim, steps) in enumerate(chains):
        numeric = prim in fx.NUMERIC
        top = schema.types[f'T{c}_{len(steps) - 1}']
        chain, user = fx.ser_chain(top, numeric, keys)
        case = {'v': v, 'prim': prim, 'steps': [[list(f) for f in st] for st in steps]}
        texts = (fx.DEC_TEXTS if prim == 'decimal' else fx.NUM_TEXTS) if numeric else fx.STR_TEXTS
        real_err = [fx.step_errors(schema.types[f'T{c}_{i}']) for i in range(len(steps))]
        real_val = [[fx.instance_valid(schema, f'e{c}_{i}', t) for t in texts] for i in range(len(steps))]
        type_val = [[fx.type_valid(schema, f'T{c}_{i}', t) for t in texts] for i in range(len(steps))]
        req: dict = {'op': 'facets', 'chain': chain}
        if numeric:
            req['vals'] = [fx.num_val(fx.prim_decode(True, t)) for t in texts]
        else:
            req['texts'] = [[[ord(ch) for ch in t],
                             [[[ord(ch) for ch in fx.py_norm(w, t)], keys.key(fx.py_norm(w, t))]
                              for w in ('preserve', 'replace', 'collapse')]] for t in texts]
        reqs.append(req)
        pend.append((c, prim, steps, case, texts, real_err, real_val, type_val, numeric, user))
        ctx.count(f'facets:{fam}:prim={prim}')
    answers = drv.query(reqs) if drv is not None else [None] * len(reqs)
    for (c, prim, steps, case, texts, real_err, real_val, type_val, numeric, user), ans in zip(pend, answers):
        n = len(steps)
        accepted_upto = [all(not real_err[k] for k in range(i + 1)) for i in range(n)]
        ctx.case(case, True, tag=f'{v}/facets-{fam}')
        for i in range(n):
            ctx.count('facets:step-accepted=%s' % (not real_err[i]))
            for code in real_err[i]:
                ctx.count('facets:error:' + code)
        # ---- the property on the real code: accepted ⇒ texts valid for a step are valid for its base ----
        for i in range(1, n):
            if not accepted_upto[i]:
                continue
            for k, t in enumerate(texts):
                if real_val[i][k] and not real_val[i - 1][k]:
                    wsd = schema.types[f'T{c}_{i}'].white_space or 'preserve'
                    wsb = schema.types[f'T{c}_{i - 1}'].white_space or 'preserve'
                    nd, nb = fx.py_norm(wsd, t), fx.py_norm(wsb, t)
                    detail = {'text': t, 'level': i, 'valid_for_derived': True, 'valid_for_base': False,
                              'ws_derived': wsd, 'ws_base': wsb, 'normalised_derived': nd, 'normalised_base': nb,
                              'base_accepts_normalised': fx.instance_valid(schema, f'e{c}_{i - 1}', nd)}
                    fid = ws_known_match(case, detail)
                    if fid:
                        ctx.known_hit(fid, case, detail)
                        ctx.count('known-whitespace-lexical')
                    else:
                        ctx.failure('accepted facet restriction admits a text that the base type rejects', case, detail)
                    break
        if ans is None:
            continue
        if 'err' in ans:
            ctx.mismatch('driver error (facets)', case, None, ans)
            continue
        # ---- correspondence: steps are listed nearest first, user-defined steps are the first `user` ones ----
        if user != n:
            ctx.mismatch('facets: number of user-defined steps', case, user, n)
            continue
        for i in range(n):
            m = ans['steps'][n - 1 - i]
            ctx.traces += 1
            if m['errs'] != real_err[i]:
                ctx.mismatch('facet build checks: port vs implementation', dict(case, level=i), real_err[i], m['errs'])
            mv = m['valid'] if numeric else m['lex']
            ctx.traces += 1
            if mv != type_val[i]:
                bad = [t for t, a, b in zip(texts, type_val[i], mv) if a != b]
                ctx.mismatch('facet validation: port vs implementation', dict(case, level=i, texts=bad), type_val[i], mv)
            if numeric and accepted_upto[i]:
                ctx.count('facets:effective-vs-chain-compared')
                if m['eff'] != type_val[i]:
                    ctx.mismatch('effective facets vs implementation on an accepted type', dict(case, level=i),
                                 type_val[i], m['eff'])


def facets_family(ctx: Ctx, drv: Optional[Driver]) -> None:
    import xmlschema
    from harness import lib_c14facets as fx
    rng = ctx.rng
    sysp = fx.systematic_pairs()
    for v, cls in (('1.0', xmlschema.XMLSchema10), ('1.1', xmlschema.XMLSchema11)):
        pairs = sysp if not ctx.quick() else rng.sample(sysp, 220)
        for k in range(0, len(pairs), 40):
            if search_over():
                return
            facet_batch(ctx, drv, v, cls, pairs[k:k + 40], 'systematic')
        rnd = [fx.random_chain(rng) for _ in range(ctx.pick(400, 3000))]
        for k in range(0, len(rnd), 40):
            if search_over() or (SEARCH['deadline'] is not None and ctx.failures):
                return
            facet_batch(ctx, drv, v, cls, rnd[k:k + 40], 'random')


# ---------------------------------------------------------------------------------------------
# the witnesses of the Lean `_counterexample` theorems, replayed on the real code on every run

E = lambda n, lo=1, hi=1: ('e', n, lo, hi)                     # noqa: E731
G = lambda k, items, lo=1, hi=1: ('g', k, lo, hi, items)       # noqa: E731
WITNESSES = [
    ('restriction_counterexample_empty_group', False, G('sequence', [E('a')]), G('sequence', []), []),
    ('restriction_counterexample_empty_group', True, G('sequence', [E('a')]), G('sequence', []), []),
    ('restriction_counterexample_choice11', True, G('choice', [E('c', 2, 3)], 1, None), G('choice', [E('c', 2, 3)], 0, 1), []),
    ('restriction_counterexample_choice_to_sequence', False, G('choice', [E('a', 1, None), E('b', 1, None)], 0, 1),
     G('sequence', [E('a', 1, None), E('b', 1, None)], 0, 1), ['a', 'b']),
    ('wildcard_zero_counterexample', False, G('sequence', [('a', '##any', 1, 1)]), G('sequence', [('a', '##any', 0, 0)]), []),
    ('elem_wildcard_zero_counterexample', False, G('sequence', [('a', 'urn:t', 1, 1)]), G('sequence', [E('a', 0, 0)]), []),
]

FOREIGN_MEMBER_ONS = (f'<xs:schema xmlns:xs="{cm.XSD}" targetNamespace="urn:o" xmlns:t="urn:t" elementFormDefault="qualified">'
                      '<xs:import namespace="urn:t"/><xs:element name="m" type="xs:string" substitutionGroup="t:h"/></xs:schema>')
FOREIGN_MEMBER_TNS = (f'<xs:schema xmlns:xs="{cm.XSD}" targetNamespace="urn:t" xmlns:t="urn:t" elementFormDefault="qualified">'
                      '<xs:import namespace="urn:o"/><xs:element name="h" type="xs:string"/>'
                      '<xs:complexType name="B"><xs:sequence><xs:any namespace="urn:t" processContents="lax"/></xs:sequence></xs:complexType>'
                      '<xs:complexType name="D"><xs:complexContent><xs:restriction base="t:B"><xs:sequence><xs:element ref="t:h"/>'
                      '</xs:sequence></xs:restriction></xs:complexContent></xs:complexType>'
                      '<xs:element name="eb" type="t:B"/><xs:element name="ed" type="t:D"/></xs:schema>')


def witnesses(ctx: Ctx) -> None:
    import xmlschema
    for name, v11, b, d, w in WITNESSES:
        schema = c14.build([b], [[d]], v11)
        ok = not schema.all_errors
        vd, vb = confirm(schema, 0, 0, w) if ok else (None, None)
        ctx.case({'witness': name, 'v11': v11}, True, tag='lean-counterexample-witness')
        if ok and vd and not vb:
            ctx.known_hit(KNOWN_ID)
            ctx.count('witness-reconfirmed:' + name)
        else:
            ctx.notes.append(f'witness of {name} (v11={v11}) no longer fails on the implementation '
                             f'(accepted={ok}, valid_d={vd}, valid_b={vb})')
    for v11, cls in ((False, xmlschema.XMLSchema10), (True, xmlschema.XMLSchema11)):
        schema = cls([FOREIGN_MEMBER_TNS, FOREIGN_MEMBER_ONS], validation='lax')
        e1 = c14.ET.Element('{urn:t}ed')
        e2 = c14.ET.Element('{urn:t}eb')
        for e in (e1, e2):
            c14.ET.SubElement(e, '{urn:o}m').text = 'x'
        ctx.case({'witness': 'elem_wildcard_counterexample', 'v11': v11}, True, tag='lean-counterexample-witness')
        if not schema.all_errors and schema.elements['ed'].is_valid(e1) and not schema.elements['eb'].is_valid(e2):
            ctx.known_hit(KNOWN_ID)
            ctx.count('witness-reconfirmed:elem_wildcard_counterexample')
        else:
            ctx.notes.append(f'witness of elem_wildcard_counterexample (v11={v11}) no longer fails on the implementation')


def witnesses2(ctx: Ctx) -> None:
    """witnesses of the facet and attribute `_counterexample` theorems on the real code"""
    import xmlschema
    from harness import lib_c14facets as fx
    from harness import lib_c14attrs as ax

    def note(name: str, v: str, ok: bool, fid: Optional[str], what: str) -> None:
        ctx.case({'witness': name, 'v': v}, True, tag='lean-counterexample-witness')
        if ok:
            if fid:
                ctx.known_hit(fid, {'witness': name, 'v': v}, what)
            ctx.count('witness-reconfirmed:' + name)
        else:
            ctx.notes.append(f'witness of {name} ({v}) no longer behaves as the theorem says on the implementation: {what}')

    for v, cls in (('1.0', xmlschema.XMLSchema10), ('1.1', xmlschema.XMLSchema11)):
        # facet_whitespace_lexical_counterexample (C14-F3)
        s1 = cls(fx.schema_text([('string', [[('length', '3', False)], [('whiteSpace', 'collapse', False)]])]), validation='lax')
        note('facet_whitespace_lexical_counterexample', v,
             not s1.all_errors and fx.instance_valid(s1, 'e0_1', ' abc ') and not fx.instance_valid(s1, 'e0_0', ' abc '),
             KNOWN_WS, "' abc ' valid for the collapsing derived type, invalid for the base type of length 3")
        # facet_unchecked_widening_counterexample: the widening step is refused by the build
        s2 = cls(fx.schema_text([('integer', [[('minInclusive', '5', False)], [('minInclusive', '0', False)]])]), validation='lax')
        note('facet_unchecked_widening_counterexample', v, bool(s2.all_errors), None, 'minInclusive 0 over 5 must be refused')
        v11 = v == '1.1'
        for name, fid, b, d, attrs in (
            ('attr_prohibited_wildcard_counterexample', 'C14-F2',
             {'decls': [('a', 'optional', None, 'xs:int', None)], 'any': ('##any', 'lax', None)},
             {'decls': [('a', 'prohibited', None, 'xs:int', None)], 'any': ('##any', 'lax', None)}, [('a', 'x')]),
            ('attr_anysimpletype_counterexample', 'C14-F4',
             {'decls': [('a', 'optional', None, 'xs:int', None)], 'any': None},
             {'decls': [('a', 'optional', None, None, None)], 'any': None}, [('a', 'x')]),
            ('attr_strict_wildcard_counterexample', 'C14-F5',
             {'decls': [], 'any': ('##any', 'strict', None)},
             {'decls': [('a', 'optional', None, 'xs:int', None)], 'any': None}, [('a', '3')])):
            sc = ax.build(b, d, v11)
            acc = not sc.all_errors
            wid = acc and ax.valid_instance(sc, 'ed', attrs) and not ax.valid_instance(sc, 'eb', attrs)
            if name == 'attr_anysimpletype_counterexample' and not ATTR_MODE['anyExempt']:
                note(name, v, not acc, None, 'repaired rule: the redeclaration with xs:anySimpleType is refused')
            else:
                note(name, v, wid, fid, f'accepted={acc}')


def witness_oc(ctx: Ctx) -> None:
    """open_content_empty_group_counterexample on the real code"""
    b = (('g', 'sequence', 1, 1, [('e', 'a', 0, 1)]), ('interleave', 'urn:o'))
    d = (('g', 'sequence', 1, 1, []), ('interleave', '##any'))
    schema = c14.build_oc([b], [[d]])
    acc = not schema.all_errors
    vd, vb = confirm(schema, 0, 0, ['b']) if acc else (None, None)
    case = {'witness': 'open_content_empty_group_counterexample', 'v': '1.1'}
    ctx.case(case, True, tag='lean-counterexample-witness')
    if c14.REPAIRED_OC['on']:
        if acc:
            ctx.notes.append('open_content_empty_group_counterexample: repaired tree accepts the witness')
        else:
            ctx.count('witness-reconfirmed:open_content_empty_group_counterexample(refused)')
    elif acc and vd and not vb:
        ctx.known_hit(KNOWN_OC, case, 'accepted; <t:b/> valid for the derived type only')
        ctx.count('witness-reconfirmed:open_content_empty_group_counterexample')
    else:
        ctx.notes.append(f'open_content_empty_group_counterexample no longer fails (accepted={acc}, valid_d={vd}, valid_b={vb})')


def witness_choice_sum(ctx: Ctx) -> None:
    """elem_choice_sum_counterexample on the real code: a{5,5} must be refused against choice(a{2,2} | any{3,3})
    (each matching branch on its own); an acceptance is a failing input: c a^5 is valid for the derived type only"""
    b = G('sequence', [E('c'), G('choice', [E('a', 2, 2), ('a', '##any', 3, 3)])])
    d = G('sequence', [E('c'), E('a', 5, 5)])
    schema = c14.build([b], [[d]], True)
    case = {'v': '1.1', 'base': cm.show(b), 'derived': cm.show(d), 'change': 'choice-to-element', 'b_ast': b, 'd_ast': d,
            'witness': 'elem_choice_sum_counterexample'}
    ctx.case(case, True, tag='lean-counterexample-witness')
    if schema.types['D0_0'].errors:
        ctx.count('witness-reconfirmed:elem_choice_sum_counterexample(refused)')
        return
    w = ['c'] + ['a'] * 5
    vd, vb = confirm(schema, 0, 0, w)
    if vd and not vb:
        ctx.failure('accepted restriction admits an instance that the base type rejects', case,
                    {'witness_children': w, 'valid_for_derived': vd, 'valid_for_base': vb, 'port_accepts': False})
    else:
        ctx.notes.append(f'elem_choice_sum_counterexample: accepted by the build (valid_d={vd}, valid_b={vb})')


# ---------------------------------------------------------------- element-type clause: re-typed child element
# A complexContent restriction re-declares the child `item` with ANOTHER named complex type of a seeded forest of
# types (roots, derived by restriction, derived by extension, chains of 2+, unrelated).  Model = `derivedBy`
# of lean/XsVerif/Props/C14ElemType.lean (python mirror below): the pair is acceptable iff the type of the
# restricting element reaches the base element's type by restriction steps only (elem_type_clause_narrows);
# every ACCEPTED pair is judged by instances: each content valid for the new child type, put in one `item`, must be
# valid for the base type whenever it is valid for the restricted type.
ET_NAMES = 'abcdefgh'
XS = 'http://www.w3.org/2001/XMLSchema'


def et_pool(rng, n: int) -> list[dict]:
    types: list[dict] = []
    for k in range(n):
        if k == 0 or rng.random() < 0.2:
            m = rng.choice([1, 2])
            parts = []
            for nm in ET_NAMES[:m]:
                lo = rng.choice([0, 1, 1])
                parts.append((nm, lo, rng.choice([max(lo, 1), 2])))
            types.append({'base': None, 'meth': None, 'parts': parts, 'used': m})
            continue
        p = rng.randrange(k)
        bp = types[p]['parts']
        if rng.random() < 0.5 or types[p]['used'] >= len(ET_NAMES):
            parts = []
            for nm, lo, hi in bp:
                lo2 = rng.randint(lo, hi)
                hi2 = rng.randint(lo2, hi)
                if hi2 > 0:
                    parts.append((nm, lo2, hi2))
            if not parts:
                parts = [(bp[0][0], bp[0][1], max(1, bp[0][1]))]
            types.append({'base': p, 'meth': 'restriction', 'parts': parts, 'used': types[p]['used']})
        else:
            lo = rng.choice([0, 1, 1])
            new = (ET_NAMES[types[p]['used']], lo, rng.choice([max(lo, 1), 2]))
            types.append({'base': p, 'meth': 'extension', 'parts': list(bp) + [new], 'new': new,
                          'used': types[p]['used'] + 1})
    return types


def et_derived_by(types: list[dict], d: int, b: int, admit_ext: bool = False) -> bool:
    """mirror of C14ElemType.derivedBy"""
    while True:
        if d == b:
            return True
        t = types[d]
        if t['base'] is None or not (t['meth'] == 'restriction' or admit_ext):
            return False
        d = t['base']


def et_chain_kind(types: list[dict], d: int, b: int) -> str:
    meths = []
    while d != b:
        if types[d]['base'] is None:
            return 'unrelated'
        meths.append(types[d]['meth'])
        d = types[d]['base']
    if not meths:
        return 'same'
    return 'restriction-chain' if set(meths) == {'restriction'} else \
        'extension-chain' if set(meths) == {'extension'} else 'mixed-chain'


def et_el(nm: str, lo: int, hi: Any, typ: str = 'xs:string') -> str:
    return f'<xs:element name="{nm}" type="{typ}" minOccurs="{lo}" maxOccurs="{hi}"/>'


def et_schema_text(types: list[dict], bocc: tuple, docc: tuple, sibling: bool) -> str:
    out = [f'<xs:schema xmlns:xs="{XS}">']
    for k, t in enumerate(types):
        if t['base'] is None:
            out.append(f'<xs:complexType name="T{k}"><xs:sequence>' + ''.join(et_el(*q) for q in t['parts']) +
                       '</xs:sequence></xs:complexType>')
        else:
            body = t['parts'] if t['meth'] == 'restriction' else [t['new']]
            out.append(f'<xs:complexType name="T{k}"><xs:complexContent><xs:{t["meth"]} base="T{t["base"]}">'
                       '<xs:sequence>' + ''.join(et_el(*q) for q in body) +
                       f'</xs:sequence></xs:{t["meth"]}></xs:complexContent></xs:complexType>')
    sib = et_el('x', 0, 1) if sibling else ''
    for i in range(len(types)):
        out.append(f'<xs:complexType name="B{i}"><xs:sequence>{sib}{et_el("item", bocc[0], bocc[1], f"T{i}")}'
                   f'</xs:sequence></xs:complexType><xs:element name="eb{i}" type="B{i}"/>')
        for j in range(len(types)):
            out.append(f'<xs:complexType name="D{i}_{j}"><xs:complexContent><xs:restriction base="B{i}"><xs:sequence>'
                       f'{et_el("item", docc[0], docc[1], f"T{j}")}</xs:sequence></xs:restriction></xs:complexContent>'
                       f'</xs:complexType><xs:element name="ed{i}_{j}" type="D{i}_{j}"/>')
    out.append('</xs:schema>')
    return '\n'.join(out)


def et_words(parts: list[tuple], cap: int = 60) -> list[list[str]]:
    import itertools
    ws = []
    for counts in itertools.product(*[range(lo, hi + 1) for _, lo, hi in parts]):
        ws.append([nm for (nm, _, _), c in zip(parts, counts) for _ in range(c)])
        if len(ws) >= cap:
            break
    return ws


def et_instance(root: str, word: list[str], items: int = 1) -> Any:
    import xml.etree.ElementTree as ET
    r = ET.Element(root)
    for _ in range(items):
        it = ET.SubElement(r, 'item')
        for nm in word:
            ET.SubElement(it, nm).text = 'x'
    return r


def et_check(ctx: Ctx, v11: bool, types: list[dict], bocc: tuple, docc: tuple, sibling: bool,
             only: Optional[tuple] = None, verbose: bool = False) -> int:
    import xmlschema
    cls = xmlschema.XMLSchema11 if v11 else xmlschema.XMLSchema10
    schema = cls(et_schema_text(types, bocc, docc, sibling), validation='lax')
    ok_t = []
    for k, t in enumerate(types):
        ok_t.append(type_errors(schema.types[f'T{k}']) == (0, 0, 0) and (t['base'] is None or ok_t[t['base']]))
    bad = 0
    for i in range(len(types)):
        for j in range(len(types)):
            if only is not None and (i, j) != only:
                continue
            case = {'eltype': {'types': types, 'base_occurs': list(bocc), 'derived_occurs': list(docc), 'sibling': sibling},
                    'v': '1.1' if v11 else '1.0', 'base_child_type': i, 'restricted_child_type': j,
                    'base': f'sequence({"x?, " if sibling else ""}item:T{i}{{{bocc[0]},{bocc[1]}}})',
                    'derived': f'sequence(item:T{j}{{{docc[0]},{docc[1]}}})'}
            if not (ok_t[i] and ok_t[j]) or type_errors(schema.types[f'B{i}']) != (0, 0, 0):
                ctx.count('eltype:pool-type-refused')
                continue
            D = schema.types[f'D{i}_{j}']
            accepted = type_errors(D) == (0, 0, 0)
            model = et_derived_by(types, j, i)
            kind = et_chain_kind(types, j, i)
            case['chain'] = kind
            # finding C14-F9: XsdComplexType.is_derived(other, 'restriction') answers "SOME step of the chain is a
            # restriction", so a chain with both extension and restriction steps passes the element-type clause.  The
            # mechanism predicts `accepted` for every mixed chain; a widening exhibited on such a pair is the listed
            # finding, anything else (a refusal is what the rule demands) is judged as usual.
            mixed = kind == 'mixed-chain'
            ctx.case(case, i != j, tag='element-type-clause')
            ctx.traces += 1
            ctx.count(f'eltype:{"accepted" if accepted else "refused"}:{kind}')
            if verbose:
                print(f'implementation: D{i}_{j} accepted = {accepted} (errors {[str(e.message)[:80] for e in D.errors]});'
                      f' model derivedBy(restriction steps only) = {model}')
            if mixed and accepted:
                ctx.count('eltype:mixed-chain-accepted-as-C14-F9-predicts')
            elif accepted != model:
                ctx.mismatch('element-type clause: schema verdict vs derivedBy (restriction chain)', case,
                             {'accepted': accepted}, {'derivedBy': model})
            if not accepted:
                continue
            ed, eb = schema.elements[f'ed{i}_{j}'], schema.elements[f'eb{i}']
            for w in et_words(types[j]['parts']):
                for items in ([1] if docc[1] == 1 else [1, 2]):
                    if items < docc[0]:
                        continue
                    vd = ed.is_valid(et_instance(f'ed{i}_{j}', w, items))
                    vb = eb.is_valid(et_instance(f'eb{i}', w, items))
                    ctx.count('eltype:instances')
                    if verbose and vd and not vb:
                        print(f'item children {w} x{items}: valid for derived = {vd}, valid for base = {vb}')
                    if vd and not vb and mixed and only is None:
                        ctx.known_hit('C14-F9', case, {'item_children': w, 'items': items, 'chain': kind})
                        break
                    if vd and not vb:
                        bad += 1
                        ctx.failure('accepted restriction (re-typed child element) admits an instance that the base type rejects',
                                    case, {'item_children': w, 'items': items, 'valid_for_derived': vd,
                                           'valid_for_base': vb, 'model_accepts': model})
                        break
                else:
                    continue
                break
    return bad


def eltype_family(ctx: Ctx) -> None:
    rng = ctx.rng
    fixed = [{'base': None, 'meth': None, 'parts': [('a', 1, 2), ('b', 0, 1)], 'used': 2},
             {'base': 0, 'meth': 'restriction', 'parts': [('a', 1, 2)], 'used': 2},
             {'base': 0, 'meth': 'extension', 'parts': [('a', 1, 2), ('b', 0, 1), ('c', 1, 1)], 'new': ('c', 1, 1), 'used': 3},
             {'base': 1, 'meth': 'restriction', 'parts': [('a', 1, 1)], 'used': 2},
             {'base': 2, 'meth': 'restriction', 'parts': [('a', 1, 1), ('c', 1, 1)], 'used': 3},
             {'base': 1, 'meth': 'extension', 'parts': [('a', 1, 2), ('c', 0, 1)], 'new': ('c', 0, 1), 'used': 3},
             {'base': None, 'meth': None, 'parts': [('a', 1, 1)], 'used': 1}]
    for v11 in (False, True):
        pools = [(fixed, (1, 3), (1, 2), False)]
        for _ in range(ctx.pick(30, 300)):
            pools.append((et_pool(rng, rng.randint(3, 6)), rng.choice([(1, 3), (0, 2), (1, 'unbounded')]),
                          rng.choice([(1, 1), (1, 2)]), rng.random() < 0.4))
        for types, bocc, docc, sib in pools:
            if search_over() or ctx.time_left() < 60 or len(ctx.failures) >= 3:
                return
            try:
                et_check(ctx, v11, types, bocc, docc, sib)
            except Exception as e:
                ctx.failure('schema build raised on a re-typed child element restriction',
                            {'v': '1.1' if v11 else '1.0', 'eltype': {'types': types, 'base_occurs': list(bocc),
                                                                      'derived_occurs': list(docc), 'sibling': sib}},
                            repr(e)[:300])


def witness_eltype(ctx: Ctx) -> None:
    """elem_type_extension_counterexample on the real code: item:T1 (T1 extends T0 with b) must be refused against
    item:T0; an acceptance is a failing input (item(a b) valid for the restricted type only)"""
    types = [{'base': None, 'meth': None, 'parts': [('a', 1, 1)], 'used': 1},
             {'base': 0, 'meth': 'extension', 'parts': [('a', 1, 1), ('b', 1, 1)], 'new': ('b', 1, 1), 'used': 2},
             {'base': 0, 'meth': 'restriction', 'parts': [('a', 1, 1)], 'used': 1}]
    for v11 in (False, True):
        n0 = len(ctx.mismatches)
        bad = et_check(ctx, v11, types, (1, 3), (1, 2), False, only=(0, 1))
        if not bad and len(ctx.mismatches) == n0:
            ctx.count('witness-reconfirmed:elem_type_extension_counterexample(refused)')


def witness_leftover(ctx: Ctx) -> None:
    """single_branch_choice_over_sequence_refused on the real code (XSD 1.0): choice(a) must be refused against
    sequence(a, b{1,2}); an acceptance is a failing input (child `a` valid for the derived type only)"""
    b = G('sequence', [E('a'), E('b', 1, 2)])
    d = G('choice', [E('a')])
    schema = c14.build([b], [[d]], False)
    case = {'v': '1.0', 'base': cm.show(b), 'derived': cm.show(d), 'change': 'kind-sequence-to-choice+keep-one[0]',
            'b_ast': b, 'd_ast': d, 'witness': 'single_branch_choice_over_sequence_refused'}
    ctx.case(case, True, tag='lean-counterexample-witness')
    if schema.types['D0_0'].errors:
        ctx.count('witness-reconfirmed:single_branch_choice_over_sequence_refused')
        return
    vd, vb = confirm(schema, 0, 0, ['a'])
    if vd and not vb:
        ctx.failure('accepted restriction admits an instance that the base type rejects', case,
                    {'witness_children': ['a'], 'valid_for_derived': vd, 'valid_for_base': vb, 'port_accepts': False})
    else:
        ctx.notes.append(f'single_branch_choice_over_sequence_refused: accepted by the build (valid_d={vd}, valid_b={vb})')


def run(ctx: Ctx, driver_ok: bool) -> None:
    global FUEL
    FUEL = ctx.pick(1500, 3000)
    register_findings(ctx)
    ctx.extra['zero_occurs_and_empty_group_clauses'] = 'repaired' if c14.detect_repaired() else 'pinned'
    drv = Driver('drv_c14') if driver_ok else None
    occurs_table(ctx, drv)
    witnesses(ctx)
    strict_sample(ctx)
    facets_family(ctx, drv)
    attrs_family(ctx, drv)
    witnesses2(ctx)
    witness_choice_sum(ctx)
    witness_leftover(ctx)
    witness_eltype(ctx)
    eltype_family(ctx)
    open_content_family(ctx, drv)
    witness_oc(ctx)
    if drv is None:
        ctx.notes.append('Lean driver unavailable: property evaluated on the enumerated family with the python '
                         'reference matcher; known pairs = the list in notes/findings/C14.json')
        lean_less(ctx)
        return
    for fam, v11, bases, per_base in families(ctx):
        for k in range(0, len(bases), 6):
            if ctx.time_left() < 60:
                ctx.notes.append(f'time budget reached in family {fam}')
                return
            run_batch(ctx, drv, bases[k:k + 6], v11, fam, per_base, cands_for(ctx, fam, v11, per_base))


SEARCH = {'deadline': None}


def search_over() -> bool:
    import time
    return SEARCH['deadline'] is not None and time.time() > SEARCH['deadline']


def search(ctx: Ctx) -> None:
    """a proof obligation or the correspondence broke and no failing input was found yet: widen the exploration
    (thorough sizes) of the part whose tie broke, for at most ~60 s in the quick tier (10 min in thorough).  The
    Lean driver is used whenever its binary exists (the match rule of C14-F0 needs the port); without it only the
    enumerated family is explored (`lean_less`)."""
    import time
    register_findings(ctx)
    c14.detect_repaired()
    saved = ctx.tier
    SEARCH['deadline'] = time.time() + (60 if saved == 'quick' else 600)
    ctx.tier = 'thorough'
    ctx.budget_s += 600
    drv = Driver('drv_c14') if Driver('drv_c14').path.exists() else None
    broke = ' '.join(str(m.get('correspondence', '')) for m in ctx.mismatches)
    try:
        if 'facet' in broke or not ctx.mismatches:
            facets_family(ctx, drv)
        if not ctx.failures and ('attribute' in broke or 'validity for' in broke or not ctx.mismatches):
            attrs_family(ctx, drv)
        if ctx.failures or search_over():
            return
        if drv is None:
            lean_less(ctx)
            return
        n0 = len(ctx.mismatches)
        for fam, v11, bases, per_base in families(ctx):
            for k in range(0, len(bases), 6):
                if ctx.failures or search_over() or ctx.time_left() < 30 or len(ctx.mismatches) > n0 + 200:
                    return
                run_batch(ctx, drv, bases[k:k + 6], v11, fam, per_base, cands_for(ctx, fam, v11, per_base))
    finally:
        ctx.tier = saved
        SEARCH['deadline'] = None


def enumerated_family():
    """the fixed, seed-independent family whose unsound acceptances are listed one by one in
    notes/findings/C14.json: a stride through the ≤2-leaf bases × every systematic candidate"""
    enum = enumerated_bases()
    return enum[::max(1, len(enum) // 60)][:60]


def lean_less(ctx: Ctx) -> None:
    import random
    saved = ctx.rng
    ctx.rng = random.Random(14)          # candidates are not sampled below (per_base is larger than any list)
    try:
        bases = enumerated_family()
        for v11 in (False, True):
            for k in range(0, len(bases), 6):
                if ctx.time_left() < 30:
                    return
                run_batch(ctx, None, bases[k:k + 6], v11, 'enum2-fixed', 10 ** 6)
    finally:
        ctx.rng = saved


def tup(x: Any) -> Any:
    if isinstance(x, list) and x and isinstance(x[0], str) and x[0] in ('e', 'a', 'g'):
        return tuple(tup(i) for i in x)
    if isinstance(x, list):
        return [tup(i) for i in x]
    return x


def replay(ctx: Ctx, obj: dict) -> int:
    print(json.dumps({k: v for k, v in obj.items() if k != 'lean_log_tail'}, indent=1, default=str)[:3000])
    case = obj.get('input') or {}
    if 'occurs' in case:
        from xmlschema.validators.particles import ParticleMixin
        lo, hi, olo, ohi = case['occurs']
        r = ParticleMixin(lo, hi).has_occurs_restriction(ParticleMixin(olo, ohi))
        print('implementation: has_occurs_restriction =', r)
        return 1 if r else 0
    if 'eltype' in case:                  # re-typed child element
        et = case['eltype']
        types = [dict(t, parts=[tuple(q) for q in t['parts']], **({'new': tuple(t['new'])} if t.get('new') else {}))
                 for t in et['types']]
        bad = et_check(ctx, case['v'] == '1.1', types, tuple(et['base_occurs']), tuple(et['derived_occurs']),
                       et['sibling'], only=(case['base_child_type'], case['restricted_child_type']), verbose=True)
        print('judgement:', 'VIOLATION' if bad else 'no violation on this input')
        return 1 if bad else 0
    if 'steps' in case:                   # facet chain
        import xmlschema
        from harness import lib_c14facets as fx
        cls = xmlschema.XMLSchema11 if case['v'] == '1.1' else xmlschema.XMLSchema10
        steps = [[tuple(f) for f in st] for st in case['steps']]
        schema = cls(fx.schema_text([(case['prim'], steps)]), validation='lax')
        print('implementation: errors per step =', [fx.step_errors(schema.types[f'T0_{i}']) for i in range(len(steps))])
        det = obj.get('detail') or {}
        bad = 0
        if isinstance(det, dict) and 'text' in det:
            i, t = det['level'], det['text']
            vd, vb = fx.instance_valid(schema, f'e0_{i}', t), fx.instance_valid(schema, f'e0_{i - 1}', t)
            print(f'text {t!r}: valid for step {i} = {vd}, valid for its base = {vb}')
            if not schema.all_errors and vd and not vb:
                wsd = schema.types[f'T0_{i}'].white_space or 'preserve'
                wsb = schema.types[f'T0_{i - 1}'].white_space or 'preserve'
                nd, nb = fx.py_norm(wsd, t), fx.py_norm(wsb, t)
                d2 = {'ws_derived': wsd, 'ws_base': wsb, 'normalised_derived': nd, 'normalised_base': nb,
                      'base_accepts_normalised': fx.instance_valid(schema, f'e0_{i - 1}', nd)}
                if ws_known_match(case, d2):
                    print('judgement: known finding C14-F3 (whiteSpace is pre-lexical)')
                else:
                    bad = 1
        keys = fx.Interner()
        numeric = case['prim'] in fx.NUMERIC
        chain, _ = fx.ser_chain(schema.types[f'T0_{len(steps) - 1}'], numeric, keys)
        ans = Driver('drv_c14').query([{'op': 'facets', 'chain': chain}])[0]
        print('lean: checkStep per step (nearest first) =', [st['errs'] for st in ans.get('steps', [])][:len(steps)])
        print('judgement:', 'VIOLATION' if bad else 'no violation on this input')
        return bad
    if 'base' in case and 'b_ast' not in case:       # attribute pair
        from harness import lib_c14attrs as ax
        register_findings(ctx)
        detect_attr_mode(ctx)
        b = {'decls': [tuple(x) for x in case['base']['decls']], 'any': None if case['base']['any'] is None else tuple(case['base']['any'])}
        d = {'decls': [tuple(x) for x in case['derived']['decls']], 'any': None if case['derived']['any'] is None else tuple(case['derived']['any'])}
        v11 = case['v'] == '1.1'
        det = obj.get('detail') or {}
        attrs = [tuple(p) for p in (det.get('attributes') or [])] if isinstance(det, dict) else []
        req, (_, schema, errs, other, info, vd, vb) = attr_pair(ctx, v11, b, d, [attrs], 'replay')
        ans = Driver('drv_c14').query([req])[0]
        print('implementation: restriction errors =', errs, ' other errors =', other, ' valid for derived =', vd[0],
              ' valid for base =', vb[0])
        print('lean: check =', ans.get('errs'), ' guards =', {k: ans.get(k) for k in ('g1', 'g2', 'g3', 'sem')},
              ' validD =', ans.get('validD'), ' validB =', ans.get('validB'))
        bad = not errs and not other and vd[0] and not vb[0]
        if bad:
            fid = attr_known_match(info, attrs, {k: ans.get(k) for k in ('g1', 'g2', 'g3', 'sem')})
            if fid:
                print(f'judgement: known finding {fid}')
                return 0
        print('judgement:', 'VIOLATION' if bad else 'no violation on this input')
        return 1 if bad else 0
    if 'b_ast' not in case:
        return 0
    if 'oc_base' in case:                   # open-content pair
        register_findings(ctx)
        c14.detect_repaired()
        c14.detect_repaired_oc()
        b, d = tup(case['b_ast']), tup(case['d_ast'])
        ocb = None if case['oc_base'] is None else tuple(case['oc_base'])
        ocd = None if case['oc_derived'] is None else tuple(case['oc_derived'])
        schema = c14.build_oc([(b, ocb)], [[(d, ocd)]])
        B, D = schema.types['B0'], schema.types['D0_0']
        print('implementation: errors on the derived type =', [str(e.message)[:90] for e in D.errors],
              ' other errors =', len(schema.all_errors) - len(D.errors))
        intro = c14.PairIntrospector(D.content, B.content)
        req = intro.request(True, c14.alphabet(d, b) + [x for x in c14.WILD_REPS if x not in c14.alphabet(d, b)], FUEL_OC)
        req['ocd'], req['ocb'] = c14.intro_oc(D.open_content, intro), c14.intro_oc(B.open_content, intro)
        ans = Driver('drv_c14').query([req])[0]
        print('lean: content rule =', ans.get('acc'), ' open-content clause =', ans.get('ocacc'), ' inclusion oracle =',
              ans.get('incl'), ' content models alone =', ans.get('inclPlain'))
        det = obj.get('detail') or {}
        w = det.get('witness_children') if isinstance(det, dict) else None
        if w is None and isinstance(ans.get('incl'), dict):
            w = [c14.sym_of_qn(q) for q in ans['incl']['w']]
        if w is not None and not schema.all_errors:
            vd, vb = confirm(schema, 0, 0, w)
            print(f'children {w}: valid for derived = {vd}, valid for base = {vb}')
            if vd and not vb:
                det2 = {'port_accepts': ans.get('acc') is True and ans.get('ocacc'),
                        'plain_models_included': ans.get('inclPlain') == 'included'}
                fid = oc_known_match(case, det2)
                if fid:
                    print(f'judgement: known finding {fid}')
                    return 0
                print('judgement: VIOLATION')
                return 1
        print('judgement: no violation on this input')
        return 0
    c14.detect_repaired()
    b, d = tup(case.get('b_src') or case['b_ast']), tup(case.get('d_src') or case['d_ast'])
    v11 = case['v'] == '1.1'
    schema = c14.build([b], [[d]], v11)
    B, D = schema.types['B0'], schema.types['D0_0']
    print('implementation: errors on the derived type =', [str(e.message) for e in D.errors],
          ' base:', [str(e.message) for e in B.errors])
    try:
        print('implementation: D.content.is_restriction(B.content) =', D.content.is_restriction(B.content))
    except Exception as e:
        print('implementation: is_restriction raises', type(e).__name__)
    accepted = type_errors(B) == (0, 0, 0) and type_errors(D) == (0, 0, 0)
    intro = c14.PairIntrospector(D.content, B.content)
    alpha = c14.alphabet(c14.expand_refs(d), c14.expand_refs(b))
    ans = Driver('drv_c14').query([intro.request(v11, alpha, FUEL)])[0]
    print('lean: port is_restriction =', ans.get('m'), ' port schema verdict accepted =', ans.get('acc'),
          ' inclusion oracle =', ans.get('incl'))
    incl = ans.get('incl')
    if accepted and isinstance(incl, dict):
        w = [c14.sym_of_qn(q) for q in incl['w']]
        vd, vb = confirm(schema, 0, 0, w)
        print(f'witness children {w}: valid for derived = {vd}, valid for base = {vb}')
        if vd and not vb:
            if ans.get('acc') is True:
                print('judgement: unsound acceptance reproduced by the pinned port (known finding C14-F0)')
                return 0
            print('judgement: VIOLATION — accepted restriction is not a subset and the pinned rules reject it')
            return 1
    print('judgement: no violation on this input')
    return 0
