"""
C02 — simple-type validation and decoding follow XSD datatype semantics.

Correspondence (I <-> M): every built-in atomic type of XSD 1.0 and 1.1 plus seeded restriction
chains (two levels), lists and unions are built by the real schema parser, introspected
(converter identity, white space, validator functions, facet objects and their decoded values) and
sent to the Lean driver `drv_c02` together with a text; the lax outcome of the real
`XsdSimpleType.decode` (value + error classes) is compared with the model's.  `pattern` facets and
`float()` have no Lean semantics: the model consumes the implementation's own verdicts (traced) -- except the
pattern facets inside a regular-expression subset, which the model evaluates itself (Model/DatatypesPat: verified
matcher; the patterns of restricted unions travel through the validation context, `decodeS`).  Values of one document
(sibling elements, attributes) are validated in one lax run and compared with `decodeSeq` and with the verdict of each
type on its own (`document_level`).

Unit correspondence (`unit_ops`): every model function that a theorem of Props/C02.lean is about is compared on
generated inputs with the function of /repo (or elementpath) it ports: normalize() of the three white-space modes
and list splitting, decimal_to_python / str(Decimal) / python_to_decimal / count_digits / Decimal comparison,
integer_to_python / python_to_int, boolean map, HexBinary / Base64Binary (validate, len, str), Date.fromstring / str;
the clauses the theorems state (lexical space, value, round trip, digit counts, collapse shape, length in octets)
are evaluated on the real functions at the same time.  The witnesses of the `_counterexample` theorems are
replayed on the real code (`replay_counterexamples`).

Property evaluation on the real code (independent of Lean): an independent Python reading of XSD
Part 2 (`lib_datatypes.spec_builtin`, `spec_type` below) judges validity and value; the decoded
value must denote the XSD value; `encode(decode(t))` must decode to the same value; `is_valid`, the
element-level verdict and the decode options must be coherent with the type-level outcome.
"""
from __future__ import annotations

import json
import re
from decimal import Decimal
from fractions import Fraction
from pathlib import Path
from typing import Any, Optional

from harness.core import Ctx, Driver, LEAN, VERIF
from harness import lib_datatypes as L
from harness.lib_datatypes import XSD, Unsupported

PROPS = 'XsVerif.Props.C02'
AUDIT = 'XsVerif.Audit.C02'
LEAN_TARGETS = ['XsVerif.Props.C02', 'drv_c02']
LEANCHECK = ['XsVerif.Model.Datatypes', 'XsVerif.Model.DatatypesDate', 'XsVerif.Model.DatatypesEnc',
             'XsVerif.Lemmas.Datatypes', 'XsVerif.Lemmas.DatatypesDec', 'XsVerif.Lemmas.DatatypesEnc',
             'XsVerif.Lemmas.DatatypesWs', 'XsVerif.Lemmas.DatatypesBin', 'XsVerif.Lemmas.DatatypesDateLex',
             'XsVerif.Lemmas.DatatypesDateRt', 'XsVerif.Model.DatatypesPat', 'XsVerif.Lemmas.DatatypesPat',
             'XsVerif.Props.C02']
RULE = ('a case is one (XSD version, simple type, text); types: every built-in atomic type of both versions, '
        'seeded restriction chains (facet sets drawn from the admitted set, two derivation levels; pattern facets '
        'mostly inside the regular-expression subset), lists and unions over them, pattern/enumeration restrictions '
        'of unions, unions nested in unions, unions as list items; a document case is 2-4 values (elements and '
        'attributes of those types) validated in one lax run; texts: a boundary catalogue per lexical family (bounds +-1, digit-count edges, leap '
        'days, 24:00:00, timezone limits, sign/zero forms, separators, non-ASCII digits and spaces) plus seeded '
        'character-level mutations; non-trivial = the text is not rejected by the very first lexical check with '
        'an empty value, i.e. it is valid, or it is invalid with a decoded value (a facet/validator/pattern '
        'branch decided), or it is a near-miss produced by mutating a valid literal; distinct by canonical JSON; '
        'unit cases (one converter/encoder/normaliser call on one text) are non-trivial when the text is accepted '
        '(or changed by the normaliser)')
TRUSTED = ['Python float() and the pattern facets OUTSIDE the regular-expression subset (\\d \\s \\w \\i \\c \\p{..}, class '
           'subtraction): no Lean semantics, the model consumes the implementation\'s own verdicts recorded during the '
           'same call (oracle); judged only by the independent Python reading (float lexical grammar) or not at all',
           'pattern facets INSIDE the subset (literals, escapes of metacharacters, ., [..], [^..], groups, |, ? * + {n,m}): '
           'evaluated by the model (verified derivative matcher) and by the Python reading lib_datatypes.rx_match; the '
           'parser of the XSD pattern text into the AST (lib_datatypes.rx_parse) is shared by both and tied to '
           'elementpath\'s translation into a Python `re` by the unit correspondence `rx` and by every traced verdict',
           'elementpath date/time classes: the Lean port follows their regular expressions and constructor '
           'checks; ordering of date/time bounds is compared differentially only',
           'independent Python reading of XSD Part 2 in harness/lib_datatypes.py (property oracle)',
           'CPython Decimal.__str__ / format(Decimal, "f") / str(int) and elementpath str(Date), str(HexBinary), '
           'len(Base64Binary) are ported by hand (decRepr, decPlainAbs, natDigits, dateStr, hexUp, b64Len) and tied by the '
           'unit correspondence on generated inputs, not proved against CPython']
ASSUMPTIONS = ['QName/NOTATION (namespace context) and xs:assertion facets are outside the model (skipped, counted in the '
               'histogram as unsupported); round trip is not checked for unions and pattern-restricted types',
               'XSD 1.0 years <= 0000 and 24:00:00 on 31 December of a year outside 1..9999 are not judged '
               '(the recommendation is not settled / elementpath keeps the year)']

GEN = LEAN / 'XsVerif' / 'Generated' / 'Builtins.lean'
FINDINGS = VERIF / 'notes' / 'findings' / 'C02.json'


# ------------------------------------------------------------------------------------------------
# translator: Generated/Builtins.lean
# ------------------------------------------------------------------------------------------------

FN_LEAN = {'byte_validator': '.byte', 'short_validator': '.short', 'int_validator': '.int',
           'long_validator': '.long', 'unsigned_byte_validator': '.ubyte',
           'unsigned_short_validator': '.ushort', 'unsigned_int_validator': '.uint',
           'unsigned_long_validator': '.ulong', 'negative_int_validator': '.negative',
           'positive_int_validator': '.positive', 'non_positive_int_validator': '.nonPositive',
           'non_negative_int_validator': '.nonNegative'}


def lean_int(i: Optional[int]) -> str:
    return 'none' if i is None else f'some ({i})'


def translate(ctx: Ctx) -> None:
    """dump built-in tables by import: whiteSpace per type, integer bounds as declared (facet elements)
    and as enforced (validator functions probed at b-1, b, b+1), the boolean map"""
    import xmlschema
    from xmlschema.validators import helpers
    from xmlschema.validators.exceptions import XMLSchemaValidationError
    rows = []
    int_rows = {}
    probes = []
    for ver, cls in (('1.0', xmlschema.XMLSchema10), ('1.1', xmlschema.XMLSchema11)):
        types = cls(HEAD + '<xs:element name="a" type="xs:string"/></xs:schema>').maps.types
        from xmlschema.validators.builtins import BUILTIN_TYPES
        for item in BUILTIN_TYPES[ver]:
            name = item['name']
            t = types[name]
            local = name.split('}')[1]
            rows.append((ver, local, t.white_space))
            if t.python_type is int:
                fn = None
                if len(t.validators) == 1 and getattr(t.validators[0], '__name__', None) in FN_LEAN:
                    fn = t.validators[0]
                lo = t.get_facet(XSD + 'minInclusive')
                hi = t.get_facet(XSD + 'maxInclusive')
                lo = lo.value if lo is not None else None
                hi = hi.value if hi is not None else None
                key = (local, fn.__name__ if fn else None, lo, hi)
                int_rows[key] = True
                if fn is not None:
                    pts = set()
                    for b in (lo, hi, 0, -2**63, 2**63, 2**64, -129, 128, 255, 256, 2**31, -2**31, 2**15,
                              -2**15, 2**16, 2**32):
                        if b is not None:
                            pts.update((b - 1, b, b + 1))
                    for p in sorted(pts):
                        try:
                            fn(p)
                            ok = True
                        except XMLSchemaValidationError:
                            ok = False
                        probes.append((fn.__name__, p, ok))
    probes = sorted(set(probes))
    ws_rows = sorted(set(rows))
    out = ['/-', '  GENERATED by harness/props/c02.py `translate` from /repo by import on every run.',
           '  Do not edit.  Theorems in Props/C02.lean are re-checked against these tables.', '-/',
           'import XsVerif.Model.Datatypes', 'namespace XsVerif.Generated', 'open XsVerif.Datatypes', '',
           '/-- `XSD_BOOLEAN_MAP` (helpers.py) -/',
           'def booleanMap : List (String × Bool) := [' + ', '.join(
               f'("{k}", {"true" if v else "false"})' for k, v in helpers.XSD_BOOLEAN_MAP.items()) + ']', '',
           '/-- (version, built-in, whiteSpace of the built type) -/',
           'def whiteSpaceTable : List (String × String × Option WsMode) := [']
    out.append(',\n'.join(f'  ("{v}", "{n}", {"none" if w is None else "some ." + w})' for v, n, w in ws_rows))
    out += [']', '', '/-- integer built-ins: (name, validator function, declared minInclusive, declared maxInclusive) -/',
            'def intTable : List (String × Option FnV × Option Int × Option Int) := [']
    out.append(',\n'.join(f'  ("{n}", {"none" if f is None else "some " + FN_LEAN[f]}, {lean_int(lo)}, {lean_int(hi)})'
                          for (n, f, lo, hi) in sorted(int_rows, key=lambda r: r[0])))
    out += [']', '', '/-- the real validator functions probed by call: (function, argument, accepted) -/',
            'def probes : List (FnV × Int × Bool) := [']
    out.append(',\n'.join(f'  ({FN_LEAN[f]}, {p}, {"true" if ok else "false"})' for f, p, ok in probes))
    out += [']', '', 'end XsVerif.Generated', '']
    text = '\n'.join(out)
    GEN.parent.mkdir(exist_ok=True)
    if not GEN.exists() or GEN.read_text() != text:
        GEN.write_text(text)
        ctx.notes.append('Generated/Builtins.lean rewritten from /repo')


# ------------------------------------------------------------------------------------------------
# boundary catalogue
# ------------------------------------------------------------------------------------------------

INT_TYPES = list(L.INT_BOUNDS)
STRING_TYPES = ['string', 'normalizedString', 'token', 'anyURI', 'language', 'Name', 'NCName', 'ID', 'IDREF',
                'ENTITY', 'NMTOKEN']
DT_TYPES = ['dateTime', 'date', 'time', 'gYear', 'gYearMonth', 'gMonth', 'gMonthDay', 'gDay']
DUR_TYPES = ['duration', 'dayTimeDuration', 'yearMonthDuration']
TZS = ['', 'Z', '+00:00', '-00:00', '+14:00', '-14:00', '+14:01', '+13:59', '-13:59', '+15:00', '+01:60', '+1:00', 'z']


def catalogue(name: str) -> list[str]:
    c: list[str] = ['', ' ', 'x']
    if name in L.INT_BOUNDS or name == 'decimal':
        c += ['0', '-0', '+0', '1', '-1', '+1', '007', '-007', '12', ' 12 ', '\t12\n', '1 2', '12 1', '1_000', '1_0',
              '１２', '١', '12 ', ' 12', '\x0c12', '+', '-', '+-1', '--1', '1-', '0x10',
              '1e3', '1E3', 'ⅷ', '²', '1,000', '9' * 30, '-' + '9' * 30, '0' * 25 + '1']
        lo, hi = L.INT_BOUNDS.get(name, (None, None))
        for b in (lo, hi, -128, 127, 255, 32767, -32768, 65535, 2**31 - 1, -2**31, 2**32 - 1, 2**63 - 1, -2**63, 2**64 - 1):
            if b is not None:
                c += [str(b - 1), str(b), str(b + 1), '+' + str(b) if b >= 0 else str(b), '0' + str(abs(b))]
        c += ['1.', '1.0', '.5', '-.5', '+.5', '.', '-.', '1.5', '1..5', '1.5.', '01.50', '0.0', '-0.0', '0.000000',
              '0.0000000', '0.00000000', '0.0000001', '0.00000010', '0.000001', '123.456', '123.4560', '000123.456000',
              '99.99', '100.00', '99.999', '0.001', '0.0001', '1234', '12345', '1.10', '1.101', '1 .5', '1. 5', 'INF', 'NaN']
    if name == 'boolean':
        c += ['true', 'false', '1', '0', ' true ', 'True', 'TRUE', 'yes', '00', '01', 'tru', 'truee', 'true false',
              ' true', '1.0', '+1', 't', 'false\n']
    if name in ('float', 'double'):
        c += ['0', '-0', '1', '1.', '.1', '1.5', '1e5', '1E5', '1e+5', '1e-5', '1e', 'e5', '1.5e', '1e5.0', 'INF', '-INF',
              '+INF', 'NaN', 'nan', 'inf', 'Inf', 'infinity', 'Infinity', '-NaN', '+NaN', '1_0', '1e400', '1e-400', '0x10',
              '1f', '1d', '１', ' 1 ', '1 2', '1,5', '.', '+', '1e1_0', '4.9e-324', '3.4028235e38', '--1', '١']
    if name in STRING_TYPES:
        c += ['a', ' a', 'a ', 'a  b', 'a\tb', 'a\nb', 'a\r\nb', ' a b ', ' ab ', ' ', 'a b', 'en', 'en-US',
              'x-klingon', 'abcdefghi', 'en-', '-en', '1a', 'a1', '_a', ':a', 'a:b', 'a.b', 'a-b', '-a', '.a', 'é', 'a b', '\t',
              'http://a/b c', '%zz', '#', '  ', 'a\x0cb', 'π', '𐀀', 'a/b', 'a@b']
    if name in DT_TYPES or name == 'dateTimeStamp':
        kind = 'dateTime' if name == 'dateTimeStamp' else name
        years = ['2000', '1999', '1900', '2004', '2100', '0001', '0000', '-0001', '-0004', '-0005', '9999', '10000', '10003',
                 '10004', '12000', '02000', '99999', '-10000', '-9999', '200', '20000000000', '99999999999999999999',
                 '+2000', '2147483647', '2147483648', '2147483649', '-2147483649', '２000', '0400', '-0400', '-0401']
        mds = ['01-01', '02-28', '02-29', '02-30', '04-30', '04-31', '12-31', '12-32', '13-01', '00-10', '10-00', '1-1', '06-15']
        times = ['00:00:00', '23:59:59', '24:00:00', '24:00:00.0', '24:00:00.1', '24:00:01', '24:01:00', '25:00:00', '12:60:00',
                 '12:00:60', '12:00:61', '12:00:00.', '12:00:00.123456', '12:00:00.1234567', '12:00:00.0000001', '1:00:00',
                 '12:00', '12:00:00.5', '12:00:0a']

        def mk(y: str, md: str, tm: str, tz: str) -> str:
            if kind == 'dateTime':
                return f'{y}-{md}T{tm}{tz}'
            if kind == 'date':
                return f'{y}-{md}{tz}'
            if kind == 'time':
                return f'{tm}{tz}'
            if kind == 'gYear':
                return f'{y}{tz}'
            if kind == 'gYearMonth':
                return f'{y}-{md[:2]}{tz}'
            if kind == 'gMonth':
                return f'--{md[:2]}{tz}'
            if kind == 'gMonthDay':
                return f'--{md}{tz}'
            return f'---{md[3:]}{tz}'
        for y in years:
            c.append(mk(y, '02-29', '12:00:00', ''))
            c.append(mk(y, '06-15', '12:00:00', 'Z'))
            c.append(mk(y, '12-31', '24:00:00', ''))
        for md in mds:
            c.append(mk('2001', md, '12:00:00', ''))
            c.append(mk('2000', md, '12:00:00', '+01:00'))
        for tm in times:
            c.append(mk('2000', '01-31', tm, ''))
            c.append(mk('9999', '12-31', tm, 'Z'))
        for tz in TZS:
            c.append(mk('2000', '03-04', '05:06:07', tz))
        c += [' 2000-01-01 ', '2000-01-01T00:00:00 ', '2000-01-01 00:00:00', '2000-01-01t00:00:00', '--01', '---01', '--01-01',
              '--01--', '2000', '2000-01', '00:00:00', '--13', '---32', '---00', '--00', '--02-29', '--02-30', '-- 01', '---1',
              '2000-01-01Z ', '2000–01–01', '2000-01-01T00:00:00 ']
    if name in DUR_TYPES:
        c += ['P1Y', 'P1M', 'P1D', 'PT1H', 'PT1M', 'PT1S', 'PT1.5S', 'P1Y2M3DT4H5M6.7S', '-P1Y', 'P', '-P', 'PT', 'P1YT', 'P1.5Y',
              'PT1.S', 'PT.5S', 'P0Y', 'P0Y1D', 'P1YT0S', 'P0M1D', 'P1Y0D', 'P1M1Y', 'P1D1M', 'PT1M1H', 'PT1S1M', 'P1H', 'PT1D',
              'P-1Y', '+P1Y', 'p1y', 'P 1Y', ' P1Y ', 'P1Y ', 'P12M', 'PT60S', 'PT3600S', 'P1DT24H', 'PT0.0000001S', 'PT0.0000005S',
              'PT0.0000015S', 'PT1.1234565S', 'P2147483648M', 'P2147483649M', 'P178956971Y', 'PT9223372036854775808S',
              'PT9223372036854775809S', 'P99999999999999999999Y', 'PT1H1H', 'P1Y1Y', 'PT', 'P1YT1H', 'P1DT', '-PT0S', 'PT0S',
              'P1Y2M', 'P3DT4H', 'PT1H30M', 'P１Y', '1Y', 'P1', 'PT1']
    if name == 'hexBinary':
        c += ['', '0a', '0A', '0aFF', '0aF', 'zz', '0 a', ' 0a ', '0a 0b', '００', '00' * 20, 'abcdef', 'ABCDEF', 'g0', '0x0a']
    if name == 'base64Binary':
        c += ['', 'YQ==', 'YWI=', 'YWJj', 'YWJjZA==', 'Y Q = =', 'YQ = =', 'YQ=', 'YQ', 'Y', 'YR==', 'YWJ=', 'YWI', '====', 'YQ==YQ==',
              'YWJjYQ==', 'YQ== ', ' YQ==', 'Y\tQ==', 'YQ==\n', 'Y-Q=', 'Y_Q=', 'YWJj YWJj', 'YWJjY', 'AA==', 'AB==', 'AAA=', 'AAB=',
              'YQ===', '=YQ=', 'Y=Q=', 'éQ==']
    if name == 'error':
        c += ['a', '0']
    if name in ('QName', 'NOTATION'):
        # names (the declared notations n1, n2 among them), near-names, prefixed names (no prefix is in scope at type
        # level), and texts of 0-4 items for the lists over these types
        c += ['a', 'ab', 'abc', 'x1', '_a', 'a.b', 'a-b', '1a', '-a', '.a', 'a b', ' a   b ', 'a b c', 'a b c d', 'x\ty\nz',
              'n1', 'n2', 'n3', 'n1 n2', 'n1 n2 n1', 'n1  n1', ' n1 ', 'a:b', 'p:a', 'p:a b', 'a:', ':a', 'a:b:c', 'xs:a', 'é',
              'a é', 'ab ab', 'a ab abc', 'a 1a', 'abc abc abc abc abc', 'x1 x1', 'a,b', 'a;b']
    return list(dict.fromkeys(c))


MUT_CHARS = ' \t\n\r-+.:0159TZPeE_\u2003\xa0\uff11\u0661,='


def mutate(rng: Any, s: str) -> str:
    s = list(s)
    for _ in range(rng.choice((1, 1, 1, 2))):
        op = rng.randrange(5)
        pos = rng.randrange(len(s) + 1)
        if op == 0 and s:
            del s[min(pos, len(s) - 1)]
        elif op == 1:
            s.insert(pos, rng.choice(MUT_CHARS))
        elif op == 2 and s:
            s[min(pos, len(s) - 1)] = rng.choice(MUT_CHARS)
        elif op == 3 and s:
            i = min(pos, len(s) - 1)
            s.insert(i, s[i])
        elif op == 4 and len(s) > 1:
            i = min(pos, len(s) - 2)
            s[i], s[i + 1] = s[i + 1], s[i]
    return ''.join(s)


# ------------------------------------------------------------------------------------------------
# generated derived types (intent descriptions; XSD text; independent spec evaluation)
# ------------------------------------------------------------------------------------------------

def num_literal(rng: Any, integer: bool) -> str:
    if integer:
        return str(rng.choice([0, 1, -1, 5, 10, 99, 100, -100, 127, 128, 1000, -32768, 2**31 - 1, rng.randrange(-500, 500)]))
    return rng.choice(['0', '1', '-1', '1.5', '-1.5', '10.00', '99.99', '0.001', '100', '0.5', '12.345', '-0.0', '1e0'][:-1]
                      + [f'{rng.randrange(-300, 300)}.{rng.randrange(0, 1000):03d}'])


BASES_NUM = ['decimal', 'integer', 'int', 'short', 'byte', 'unsignedByte', 'nonNegativeInteger', 'long', 'positiveInteger']
BASES_STR = ['string', 'normalizedString', 'token', 'NMTOKEN', 'language', 'anyURI', 'NCName']
BASES_BIN = ['hexBinary', 'base64Binary']
STR_ENUM = ['a', 'b', 'ab', 'a b', ' a', 'a  b', '', 'en', 'x1', 'abc']
DATE_LIT = {'date': ['2000-01-01', '2000-02-29', '1999-12-31Z', '2000-06-15+02:00', '2010-01-01'],
            'dateTime': ['2000-01-01T00:00:00', '2000-01-01T12:00:00Z', '1999-12-31T23:59:59-05:00'],
            'time': ['00:00:00', '12:00:00Z', '23:59:59'],
            'gYear': ['2000', '1999Z', '2010'], 'gYearMonth': ['2000-01', '2000-06Z'],
            'gMonth': ['--01', '--06Z'], 'gMonthDay': ['--01-01', '--02-29'], 'gDay': ['---01', '---15Z']}


# pattern facets: mostly inside the regular-expression subset that the model and the reading evaluate exactly
# (lib_datatypes.rx_parse); the ones with \d \S stay an oracle (differential only)
NUM_PATTERNS = [r'[0-9]+', r'-?[0-9]{1,3}(\.[0-9]+)?', r'[0-9]*[05]', r'[+-]?[0-9]+', r'[1-9][0-9]{0,2}', r'\d*[05]']
STR_PATTERNS = [r'[a-z]*', r'a.*', r'[a-z]{2}(-[A-Z]{2})?', r'.{0,3}', r'[a-c ]+', r'x?[0-9a-f]{2,4}', r'[^ ]+', r'(ab|a)(b|c)*',
                r'\S+']
UNION_PATTERNS = [r'[0-9]{3}|true', r'[0-9]{3}|[a-z]+', r'[0-9a-zA-Z]*', r'[0-9]+', r'[a-z]+', r'.{0,4}', r'[0-9\-]+',
                  r'true|false|[01]', r'[^ ]*', r'[0-9a-z\-:]+', r'[0-9]{1,2}|[0-9]{4}-.*', r'(1|2)[0-9]*|a.*']


def gen_facets(rng: Any, root: str, level: int, v11: bool, inherited: dict) -> dict:
    """a facet set admitted for the primitive of `root`; kept consistent enough for the schema to build
    (a schema that fails to build is dropped and counted)"""
    f: dict = {}
    if root in BASES_NUM:
        integer = root != 'decimal'
        k = rng.random()
        if k < 0.45:
            a, b = sorted([Fraction(Decimal(num_literal(rng, integer))) for _ in range(2)])
            lo, hi = num_literal(rng, integer), num_literal(rng, integer)
            if Fraction(Decimal(lo)) > Fraction(Decimal(hi)):
                lo, hi = hi, lo
            if rng.random() < 0.8:
                f[rng.choice(['minInclusive', 'minExclusive'])] = lo
            if rng.random() < 0.8:
                f[rng.choice(['maxInclusive', 'maxExclusive'])] = hi
        elif k < 0.7:
            td = rng.randrange(1, 8)
            if rng.random() < 0.8:
                f['totalDigits'] = td
            if not integer and rng.random() < 0.8:
                f['fractionDigits'] = rng.randrange(0, td + 1)
        elif k < 0.9:
            f['enumeration'] = [num_literal(rng, integer) for _ in range(rng.randrange(1, 4))]
        else:
            f['pattern'] = rng.choice(NUM_PATTERNS)
    elif root in BASES_STR or root in BASES_BIN:
        k = rng.random()
        if k < 0.5:
            if rng.random() < 0.3:
                f['length'] = rng.randrange(0, 5)
            else:
                a, b = sorted([rng.randrange(0, 6), rng.randrange(0, 6)])
                if rng.random() < 0.8:
                    f['minLength'] = a
                if rng.random() < 0.8:
                    f['maxLength'] = b
        elif k < 0.75 and root in BASES_STR:
            f['enumeration'] = rng.sample(STR_ENUM, rng.randrange(1, 4))
        elif k < 0.75:
            f['enumeration'] = rng.sample(['0a', '0A', 'ff00', ''] if root == 'hexBinary' else ['YQ==', 'YWI=', 'Y Q = =', ''], 2)
        elif k < 0.9 and root in BASES_STR:
            f['pattern'] = rng.choice(STR_PATTERNS)
            if rng.random() < 0.2:
                f['pattern'] = [f['pattern'], rng.choice(STR_PATTERNS)]     # one step, two patterns: alternatives
        if root in ('string', 'normalizedString') and rng.random() < 0.35:
            f['whiteSpace'] = rng.choice(['replace', 'collapse']) if root == 'string' else 'collapse'
    elif root in DATE_LIT:
        k = rng.random()
        if k < 0.5:
            lits = DATE_LIT[root]
            f[rng.choice(['minInclusive', 'minExclusive', 'maxInclusive', 'maxExclusive'])] = rng.choice(lits)
        elif k < 0.8:
            f['enumeration'] = rng.sample(DATE_LIT[root], 2)
        if v11 and rng.random() < 0.5:
            f['explicitTimezone'] = rng.choice(['required', 'prohibited', 'optional'])
    elif root in ('QName', 'NOTATION'):
        # NOTATION can only be used through an enumeration of declared notations; the length family on the atomic
        # types is the W3C-bug-4009 exemption (not checked), on lists over them it counts items
        k = rng.random()
        if root == 'NOTATION' and level == 1:
            f['enumeration'] = rng.sample(['n1', 'n2'], rng.randrange(1, 3))
        elif k < 0.35:
            f['enumeration'] = rng.sample(['a', 'ab', 'abc', 'x1', 'n1'], rng.randrange(1, 4))
        elif k < 0.5 and root == 'QName':
            f['pattern'] = rng.choice(['[a-z]+', '[a-z0-9]{1,2}', 'a.*'])
        if rng.random() < 0.5:
            a, b = sorted([rng.randrange(0, 4), rng.randrange(0, 4)])
            f.update(rng.choice([{'length': a}, {'minLength': a}, {'maxLength': b}, {'minLength': a, 'maxLength': b}]))
    elif root == 'boolean':
        f['pattern'] = rng.choice(['true|false', '[01]', 'true'])
    elif root in DUR_TYPES:
        f['enumeration'] = rng.sample(['P1Y', 'P12M', 'PT60S', 'PT1M', 'P1D', 'PT24H'], 2)
    return f


def facets_xsd(f: dict) -> str:
    out = []
    for k, v in f.items():
        if k in ('enumeration', 'pattern') and isinstance(v, list):
            for x in v:
                out.append(f'<xs:{k} value="{esc(str(x))}"/>')
        else:
            out.append(f'<xs:{k} value="{esc(str(v))}"/>')
    return ''.join(out)


def esc(s: str) -> str:
    return (s.replace('&', '&amp;').replace('<', '&lt;').replace('"', '&quot;').replace('\t', '&#9;')
            .replace('\n', '&#10;').replace('\r', '&#13;'))


def directed_descs(v11: bool) -> list:
    """seed-independent boundary family: every facet kind at its smallest legal values (0, 1, 2) on each
    primitive family it applies to, alone, in pairs and narrowed over two derivation levels"""
    out: list = []
    dec, integer = ('b', 'decimal'), ('b', 'integer')
    for fd in (0, 1, 2):
        out.append(('r', dec, {'fractionDigits': fd}))
        for td in (1, 3):
            if fd <= td:
                out.append(('r', dec, {'totalDigits': td, 'fractionDigits': fd}))
    for td in (1, 2, 3):
        out.append(('r', dec, {'totalDigits': td}))
        out.append(('r', integer, {'totalDigits': td}))
    out.append(('r', ('r', dec, {'fractionDigits': 2}), {'fractionDigits': 0}))
    out.append(('r', ('r', dec, {'fractionDigits': 1}), {'totalDigits': 2}))
    out.append(('r', ('r', dec, {'totalDigits': 3}), {'totalDigits': 1}))
    out.append(('l', ('r', dec, {'fractionDigits': 0})))
    for root in (dec, integer, ('b', 'short')):
        for kind in ('minInclusive', 'minExclusive', 'maxInclusive', 'maxExclusive'):
            for b in ('0', '-1', '10'):
                out.append(('r', root, {kind: b}))
        out.append(('r', ('r', root, {'maxInclusive': '10'}), {'maxInclusive': '5', 'minInclusive': '5'}))
        out.append(('r', ('r', root, {'minExclusive': '-1'}), {'maxExclusive': '1'}))
    for root in ('string', 'token', 'hexBinary', 'base64Binary', 'anyURI', 'NMTOKEN'):
        for n in (0, 1, 2):
            out.append(('r', ('b', root), {'length': n}))
            out.append(('r', ('b', root), {'minLength': n}))
            out.append(('r', ('b', root), {'maxLength': n}))
        out.append(('r', ('r', ('b', root), {'maxLength': 2}), {'minLength': 2}))
    for item in ('int', 'token'):
        for n in (0, 1, 2):
            out.append(('r', ('l', ('b', item)), {'length': n}))
            out.append(('r', ('l', ('b', item)), {'minLength': n, 'maxLength': n + 1}))
    # unions whose first member has a narrow lexical space and whose last member takes (almost) any text: every
    # literal that the first member wrongly accepts or refuses changes the MEMBER, hence the value, of a union that
    # stays valid (first-match rule observed through the value, not the verdict)
    firsts: list = [('b', x) for x in ('date', 'dateTime', 'gYear', 'gDay', 'time', 'duration', 'int', 'decimal', 'boolean',
                                       'hexBinary')]
    firsts += [('r', ('b', 'date'), {'enumeration': ['2000-01-01Z', '2000-06-15+02:00']}),
               ('r', ('b', 'gDay'), {'enumeration': ['---15Z', '---01']}),
               ('r', ('b', 'duration'), {'enumeration': ['P1D', 'PT24H', 'P1Y', 'P12M']}),
               ('r', ('b', 'decimal'), {'fractionDigits': 2}),
               ('r', ('b', 'int'), {'maxInclusive': '10'})]
    if v11:
        firsts += [('b', 'dayTimeDuration'), ('b', 'yearMonthDuration'), ('b', 'dateTimeStamp'),
                   ('r', ('b', 'dayTimeDuration'), {'enumeration': ['PT24H', 'PT1M']}),
                   ('r', ('b', 'dayTimeDuration'), {'enumeration': ['P1D', 'PT60S']}),
                   ('r', ('b', 'yearMonthDuration'), {'enumeration': ['P1Y', 'P12M']}),
                   ('r', ('b', 'date'), {'explicitTimezone': 'required'})]
    for k, first in enumerate(firsts):
        out.append(('u', [first, ('b', 'string')]))
        if k % 3 == 0:
            # (named members come after the anonymous ones in the built type: keep `first` first)
            out.append(('u', [first if first[0] != 'b' else ('r', first, {}), ('r', ('b', 'token'), {'maxLength': 12})]))
        if k % 4 == 0:
            out.append(('l', ('u', [first, ('b', 'token')])))
    out += directed_pattern_unions()
    out += directed_qname_lists()
    out.append(('u', [('r', ('b', 'dayTimeDuration' if v11 else 'duration'), {'enumeration': ['PT24H', 'PT1M']}),
                      ('r', ('b', 'short'), {'minExclusive': '-32768'}),
                      ('r', ('r', ('b', 'normalizedString'), {'minLength': 4, 'maxLength': 5}), {'minLength': 4})]))
    return out


def directed_qname_lists() -> list:
    """the length family where its unit depends on the VARIETY and on the primitive type: on a list it counts items
    whatever the item type is, on an atomic xs:QName / xs:NOTATION it is not checked (W3C bug 4009).  Every facet kind
    at 0, 1, 2 on lists over xs:QName, restrictions of it and enumerated NOTATIONs, one and two derivation steps, the
    atomic exemption itself, and the same lists inside unions / as union items"""
    q = ('b', 'QName')
    items = [q, ('r', q, {'enumeration': ['a', 'ab', 'abc', 'x1']}), ('r', q, {'maxLength': 1}),
             ('r', ('b', 'NOTATION'), {'enumeration': ['n1', 'n2']}),
             ('r', ('r', ('b', 'NOTATION'), {'enumeration': ['n1', 'n2']}), {'minLength': 5})]
    out: list = []
    for item in items:
        lst = ('l', item)
        out.append(lst)
        for n in (0, 1, 2):
            out += [('r', lst, {'length': n}), ('r', lst, {'minLength': n}), ('r', lst, {'maxLength': n})]
        out.append(('r', ('r', lst, {'minLength': 1, 'maxLength': 3}), {'minLength': 2, 'maxLength': 2}))
        out.append(('r', ('r', lst, {'maxLength': 3}), {'maxLength': 1}))
        out.append(('r', ('r', lst, {'length': 2}), {'enumeration': ['a ab', 'n1 n2', 'x1 abc']}))
    for f in ({'length': 2}, {'minLength': 3}, {'maxLength': 1}, {'length': 0}):
        out.append(('r', q, f))
        out.append(('r', ('r', ('b', 'NOTATION'), {'enumeration': ['n1', 'n2']}), f))
    out.append(('r', ('r', q, {'minLength': 1}), {'maxLength': 2}))
    out.append(('u', [('r', ('l', q), {'length': 2}), ('b', 'int')]))
    out.append(('u', [('r', ('l', q), {'maxLength': 1}), ('r', ('l', ('b', 'token')), {'length': 3})]))
    out.append(('r', ('l', ('u', [('b', 'int'), q])), {'length': 2}))
    out.append(('r', ('l', ('u', [q, ('b', 'date')])), {'minLength': 2, 'maxLength': 2}))
    return out


def directed_pattern_unions() -> list:
    """pattern facets on restrictions of unions, in every position where the patterns have to reach the right union and
    only that one: alone, as a member next to a plain union, nested in another pattern-restricted union, as list items,
    under further restrictions"""
    int_bool = ('u', [('b', 'integer'), ('b', 'boolean')])
    code = ('r', int_bool, {'pattern': '[0-9]{3}|true'})
    date_tok = ('u', [('b', 'date'), ('b', 'token')])
    inner = ('r', ('u', [('b', 'integer'), ('b', 'token')]), {'pattern': '[0-9]{3}|[a-z]+'})
    alnum = ('r', ('u', [inner, ('b', 'string')]), {'pattern': '[0-9a-zA-Z]*'})
    return [code, date_tok, ('u', [code, date_tok]), ('u', [date_tok, code]), ('l', code), ('l', ('u', [code, date_tok])),
            inner, alnum, ('u', [alnum, ('b', 'date')]), ('l', alnum),
            ('r', ('u', [code, ('b', 'token')]), {'pattern': '[0-9a-z]+'}),
            ('r', ('u', [('u', [('b', 'int'), ('b', 'date')]), code, ('b', 'token')]), {'pattern': '[0-9tr\\-]+'}),
            ('r', code, {'enumeration': ['123', 'true']}),
            ('r', inner, {'pattern': '[0-9a-c]*'}),                      # two derivation steps with patterns (C02-F12)
            ('r', ('r', inner, {'enumeration': ['123', 'abc', 'zz']}), {'pattern': '[a-z]*'}),
            ('r', ('u', [('b', 'int'), ('b', 'string')]), {'pattern': ['[0-9]+', 'a b']}),
            ('r', ('u', [('r', ('b', 'token'), {'pattern': '[a-z]+'}), ('b', 'int')]), {'pattern': '.{2,3}'}),
            ('r', ('u', [('l', ('b', 'int')), ('b', 'string')]), {'pattern': '[0-9 ]*'})]


def gen_types(rng: Any, v11: bool, n: int) -> list[dict]:
    """intent descriptions of derived types: {'name', 'd': desc}; desc = ('b', name) | ('r', desc, facets) |
    ('l', desc) | ('u', [desc])"""
    out = directed_descs(v11)
    atoms = []
    roots = BASES_NUM + BASES_STR + BASES_BIN + list(DATE_LIT) + ['boolean'] + (DUR_TYPES if v11 else ['duration']) + \
        ['QName', 'QName', 'NOTATION']
    for i in range(n):
        root = rng.choice(roots)
        f1 = gen_facets(rng, root, 1, v11, {})
        d: Any = ('r', ('b', root), f1)
        if rng.random() < 0.6:
            f2 = gen_facets(rng, root, 2, v11, f1)
            d = ('r', d, f2)
        atoms.append(d)
        out.append(d)
    for i in range(max(4, n // 4)):
        item = rng.choice(atoms + [('b', x) for x in ('int', 'decimal', 'boolean', 'token', 'date', 'NMTOKEN', 'hexBinary',
                                                      'double', 'gYear', 'QName', 'QName')])
        if rng.random() < 0.12:
            item = rng.choice([a for a in atoms if root_name(a) in ('QName', 'NOTATION')] or [item])
        d = ('l', item)
        if rng.random() < (0.8 if root_name(item) in ('QName', 'NOTATION') else 0.5):
            a, b = sorted([rng.randrange(0, 4), rng.randrange(0, 4)])
            f = rng.choice([{'length': a}, {'minLength': a, 'maxLength': b}, {'maxLength': b}, {'minLength': a}])
            if rng.random() < 0.3 and item == ('b', 'int'):
                f = {'enumeration': ['1 2', '3', ' 1  2 ', '']}
            d = ('r', d, f)
            if rng.random() < 0.25 and 'enumeration' not in f:
                # a second derivation step on the list (narrowing the length family)
                lo = f.get('length', f.get('minLength', 0))
                hi = f.get('length', f.get('maxLength', lo + 2))
                if lo <= hi:
                    n = rng.randrange(lo, hi + 1)
                    d = ('r', d, rng.choice([{'minLength': n}, {'maxLength': n}, {'minLength': n, 'maxLength': hi}]))
        out.append(d)
    unions: list = []
    for i in range(max(4, n // 4)):
        ms = [rng.choice(atoms + [('b', x) for x in ('int', 'decimal', 'boolean', 'token', 'date', 'string', 'byte',
                                                     'gYear', 'double', 'duration')]) for _ in range(rng.randrange(1, 4))]
        if unions and rng.random() < 0.35:
            # a union (possibly pattern-restricted) nested as a member of another union
            ms.insert(rng.randrange(len(ms) + 1), rng.choice(unions))
        d = ('u', ms)
        k = rng.random()
        if k < 0.3:
            d = ('r', d, {'enumeration': rng.sample(['1', 'true', '1.0', 'a', '2000-01-01', '01', ' 1 '], 3)})
        elif k < 0.75:
            d = ('r', d, {'pattern': rng.choice(UNION_PATTERNS)})
            if rng.random() < 0.15:
                d = ('r', d, rng.choice([{'pattern': rng.choice(UNION_PATTERNS)}, {'enumeration': ['1', 'a']}]))
        unions.append(d)
        out.append(d)
        if rng.random() < 0.3:
            out.append(('l', d))
    return out


def desc_xsd(d: Any) -> str:
    """anonymous simpleType content for a description"""
    if d[0] == 'b':
        raise ValueError
    if d[0] == 'r':
        base = d[1]
        if base[0] == 'b':
            return f'<xs:restriction base="xs:{base[1]}">{facets_xsd(d[2])}</xs:restriction>'
        return f'<xs:restriction><xs:simpleType>{desc_xsd(base)}</xs:simpleType>{facets_xsd(d[2])}</xs:restriction>'
    if d[0] == 'l':
        if d[1][0] == 'b':
            return f'<xs:list itemType="xs:{d[1][1]}"/>'
        return f'<xs:list><xs:simpleType>{desc_xsd(d[1])}</xs:simpleType></xs:list>'
    if d[0] == 'u':
        named = ' '.join('xs:' + m[1] for m in d[1] if m[0] == 'b')
        # XSD {member type definitions}: the memberTypes items in order, THEN the simpleType children
        # (the pinned code had the children first: finding C02-F15, fixed)
        anon = ''.join(f'<xs:simpleType>{desc_xsd(m)}</xs:simpleType>' for m in d[1] if m[0] != 'b')
        return f'<xs:union{" memberTypes=" + chr(34) + named + chr(34) if named else ""}>{anon}</xs:union>'
    raise ValueError


def union_members_in_built_order(d: Any) -> list:
    """order of {member type definitions} for the schema text written by desc_xsd: the types named by
    memberTypes first, then the anonymous simpleType children (XSD Part 2, 4.1.2 / XSD 1.1 3.16.2)"""
    return [m for m in d[1] if m[0] == 'b'] + [m for m in d[1] if m[0] != 'b']


HEAD = ('<xs:schema xmlns:xs="http://www.w3.org/2001/XMLSchema">\n'
        '<xs:notation name="n1" public="x"/><xs:notation name="n2" public="y"/>\n')


def build(v11: bool, descs: list) -> tuple[Any, list]:
    """one schema per version with every generated type that the library accepts"""
    import xmlschema
    cls = xmlschema.XMLSchema11 if v11 else xmlschema.XMLSchema10
    good = []
    for i, d in enumerate(descs):
        try:
            cls(HEAD + f'<xs:simpleType name="T">{desc_xsd(d)}</xs:simpleType></xs:schema>')
        except Exception:     # noqa  (refused facet combination: not an input of this property)
            continue
        good.append(d)
    body = [f'<xs:simpleType name="T{i}">{desc_xsd(d)}</xs:simpleType><xs:element name="e{i}" type="T{i}"/>'
            for i, d in enumerate(good)]
    from xmlschema.validators.builtins import BUILTIN_TYPES
    for item in BUILTIN_TYPES['1.1' if v11 else '1.0']:
        n = item['name'].split('}')[1]
        body.append(f'<xs:element name="b_{n}" type="xs:{n}"/>')
    schema = cls(HEAD + '\n'.join(body) + '</xs:schema>')
    return schema, good


# ---- independent spec evaluation of a description -------------------------------------------------

def _cmp_key(v: Any) -> Any:
    return v[1] if v and v[0] == 'n' else None


def spec_eq(a: Any, b: Any) -> bool:
    if a is None or b is None:
        return False
    if a[0] == 'b' and b[0] == 'n':
        return Fraction(int(a[1])) == b[1]
    if a[0] == 'n' and b[0] == 'b':
        return a[1] == Fraction(int(b[1]))
    return a == b


_WS_OF = {'string': 'preserve', 'normalizedString': 'replace'}


def _root(d: Any) -> Any:
    while d[0] == 'r':
        d = d[1]
    return d


def spec_literal(d: Any, v11: bool, text: str, pin: tuple = ()) -> Optional[str]:
    """the literal a pattern facet of `d` constrains: the text normalised by the white space in force for the type
    or, for a union, for the BASIC member that validates it (XSD 1.1 Structures 3.1.4; None: not judged).
    pin 'F13': as the pinned code does, by the white space of the DIRECT member (a union member: collapse, a
    restricted-union member: none)"""
    if d[0] == 'b':
        return L.xsd_normalize(_WS_OF.get(d[1], 'collapse'), text)
    if d[0] == 'l':
        return L.xsd_collapse(text)
    if d[0] == 'r':
        ws = d[2].get('whiteSpace')
        return spec_literal(d[1], v11, L.xsd_normalize(ws, text) if ws else text, pin)
    for m in union_members_in_built_order(d):
        r = spec_type(m, v11, text, pin)
        if r == 'unjudged':
            return None
        if r[0]:
            if 'F13' in pin and _root(m)[0] == 'u':
                return L.xsd_collapse(text) if m[0] == 'u' else text
            return spec_literal(m, v11, text, pin)
    return None


def spec_type(d: Any, v11: bool, text: str, pin: tuple = (), _shadow: bool = False) -> Any:
    """(valid, value) by XSD Part 2 for a description; 'unjudged' where not judged here.
    `pin`: the reading with pinned defects, used by the matchers of those findings only: 'F12' (over a union only
    the patterns of the outermost pattern-bearing restriction of a chain of restrictions are applied), 'F13' (see
    `spec_literal`)"""
    if d[0] == 'b':
        if d[1] in ('language', 'Name', 'NCName', 'ID', 'IDREF', 'ENTITY', 'NMTOKEN'):
            t = L.xsd_collapse(text)
            rx = {'language': r'[a-zA-Z]{1,8}(-[a-zA-Z0-9]{1,8})*\Z', 'NMTOKEN': None}.get(d[1], None)
            if d[1] == 'language':
                return bool(re.match(rx, t)), ('s', t)
            return 'unjudged'       # \i \c name classes: left to the differential
        if d[1] in ('QName', 'NOTATION'):
            # judged on ASCII literals without prefix only (no namespace context at type level; the name classes of
            # non-ASCII characters are left to the differential)
            t = L.xsd_collapse(text)
            if not t.isascii() or ':' in t:
                return 'unjudged'
            return bool(re.fullmatch(r'[A-Za-z_][A-Za-z0-9_.\-]*', t)), ('s', t)
        return L.spec_builtin(d[1], v11, text)
    if d[0] == 'l':
        items = [x for x in L.xsd_collapse(text).split(' ') if x != '']
        vals = []
        ok = True
        for it in items:
            r = spec_type(d[1], v11, it, pin)
            if r == 'unjudged':
                return r
            ok = ok and r[0]
            vals.append(r[1])
        return ok, ('l', vals)
    if d[0] == 'u':
        for m in union_members_in_built_order(d):
            r = spec_type(m, v11, text, pin)
            if r == 'unjudged':
                return r
            if r[0]:
                return r
        return False, None
    if d[0] == 'r':
        f = d[2]
        groups = None
        if 'pattern' in f:
            # the patterns of one derivation step are alternatives; steps are conjoined (XSD Part 2 4.3.4)
            groups = L.rx_group(f['pattern'] if isinstance(f['pattern'], list) else [f['pattern']])
            if groups is None:
                return 'unjudged'       # outside the regular-expression subset: differential only
        ws = f.get('whiteSpace')
        t = L.xsd_normalize(ws, text) if ws else text
        root = d
        while root[0] == 'r':
            root = root[1]
        over_union = root[0] == 'u'
        r = spec_type(d[1], v11, t, pin, (_shadow or groups is not None) if over_union and d[1][0] == 'r' else False)
        if r == 'unjudged' or not r[0]:
            return r
        ok, v = r
        if groups is not None and not ('F12' in pin and _shadow and over_union):
            lit = spec_literal(d, v11, text, pin)
            if lit is None:
                return 'unjudged'
            ok = ok and any(L.rx_match(g, lit) for g in groups)
        for k, x in f.items():
            if k in ('whiteSpace', 'pattern'):
                continue
            if k in ('length', 'minLength', 'maxLength'):
                if v is None:
                    return 'unjudged'
                if v[0] == 's' and root[0] == 'b' and root[1] in ('QName', 'NOTATION'):
                    continue        # the length of an ATOMIC xs:QName / xs:NOTATION is not defined (W3C bug 4009);
                                    # on a list of them the facets count the items like on any list
                n = {'s': lambda: len(v[1]), 'l': lambda: len(v[1]), 'x': lambda: len(v[1]) // 2,
                     'y': lambda: len(v[1]) // 4 * 3 - (len(v[1]) - len(v[1].rstrip('=')))}.get(v[0])
                if n is None:
                    return 'unjudged'
                n = n()
                ok = ok and {'length': n == x, 'minLength': n >= x, 'maxLength': n <= x}[k]
            elif k in ('minInclusive', 'minExclusive', 'maxInclusive', 'maxExclusive'):
                if v is None or v[0] != 'n':
                    return 'unjudged'      # date/time order: differential only
                b = Fraction(Decimal(L.xsd_collapse(str(x))))
                ok = ok and {'minInclusive': v[1] >= b, 'minExclusive': v[1] > b,
                             'maxInclusive': v[1] <= b, 'maxExclusive': v[1] < b}[k]
            elif k in ('totalDigits', 'fractionDigits'):
                if v is None or v[0] != 'n':
                    return 'unjudged'
                q = abs(v[1])
                fd = 0
                while (q * 10 ** fd).denominator != 1:
                    fd += 1
                if k == 'fractionDigits':
                    ok = ok and fd <= x
                else:
                    ok = ok and fd <= x and q * 10 ** fd < 10 ** x
            elif k == 'enumeration':
                base = d[1]
                vals = [spec_type(base, v11, str(e), pin) for e in x]
                if any(e == 'unjudged' for e in vals):
                    return 'unjudged'
                if v is None or any(e[1] is None for e in vals if e[0]):
                    return 'unjudged'
                if v[0] == 'dt':
                    eqs = [L.dt_spec_eq(v, e[1]) for e in vals if e[0] and e[1][0] == 'dt']
                    if any(q is None for q in eqs):
                        return 'unjudged'
                    ok = ok and any(eqs)
                elif v[0] == 'l':
                    if any(p is not None and p[0] == 'dt' for p in v[1]):
                        return 'unjudged'

                    ok = ok and any(e[0] and e[1][0] == 'l' and len(e[1][1]) == len(v[1]) and
                                    all(spec_eq(p, q) for p, q in zip(e[1][1], v[1])) for e in vals)
                else:
                    ok = ok and any(e[0] and spec_eq(e[1], v) for e in vals)
            elif k == 'explicitTimezone':
                if v is None or v[0] != 'dt':
                    return 'unjudged'
                tz = v[-1]
                ok = ok and (x == 'optional' or (x == 'required') == (tz is not None))
            else:
                return 'unjudged'
        return ok, v
    return 'unjudged'


# ------------------------------------------------------------------------------------------------
# known findings
# ------------------------------------------------------------------------------------------------

def root_name(d: Any) -> Optional[str]:
    while d[0] == 'r':
        d = d[1]
    return d[1] if d[0] == 'b' else None


def has_digit_facets(d: Any) -> bool:
    while d[0] == 'r':
        if 'totalDigits' in d[2] or 'fractionDigits' in d[2]:
            return True
        d = d[1]
    return False


_SCI_DEC = re.compile(r'[+-]?0*\.0{6,}[0-9]+\Z')
_ZERO7 = re.compile(r'[+-]?0*\.0{7,}\Z')
_BIGYEAR_LEAP = re.compile(r'-?([0-9]{5,})-02-29')
_DUR_LENIENT_DT = re.compile(r'-?P(?:0+Y)?(?:0+M)?(?:[0-9]+D)?(?:T.*)?\Z')


def known_match(case: dict, detail: Any) -> Optional[str]:
    """exact rules of notes/findings/C02.json"""
    d = case.get('desc')
    text = case.get('text', '')
    what = (detail or {}).get('what', '') if isinstance(detail, dict) else ''
    kind = (detail or {}).get('kind') if isinstance(detail, dict) else None
    if kind == 'pyws':
        return 'C02-F4'
    if d is None:
        return None
    items = L.xsd_collapse(text).split(' ') if _contains_list(d) else [L.xsd_collapse(text)]
    names0 = _all_builtin_names(d)
    if kind == 'roundtrip':
        # a value that was decoded at all: items as the implementation saw them (C02-F4 may have applied)
        items = ''.join(' ' if c in L.PY_ONLY_WS + L.XML_WS else c for c in text).split()
        # C02-F8: xs:dateTimeStamp decodes to DateTime, which its own encoder refuses
        if 'dateTimeStamp' in names0 and 'DateTimeStamp' in str(detail.get('error', '')):
            return 'C02-F8'
        # C02-F9: str(Decimal) is scientific when the adjusted exponent is below -6
        if names0 & {'decimal'} and any(_SCI_DEC.match(i) for i in items):
            return 'C02-F9'
        # C02-F10: XSD 1.1 years <= -10000 are written without the 1.1 year shift
        if case.get('v') == '1.1' and names0 & {'date', 'dateTime', 'gYear', 'gYearMonth', 'dateTimeStamp'} and \
                any(int(m.group(1)) >= 9999 for m in (re.match(r'-([0-9]{4,})', i) for i in items) if m):
            return 'C02-F10'
        # C02-F4, elementpath sites, list manifestation: an item that consists of Python-only white space (data for
        # the XSD list splitter since 2aa74a1) is stripped to an empty hexBinary/base64Binary value by elementpath
        # and disappears when the list is written.  Rule: Python-only white space in the text, a list over such a
        # built-in, and the value decoded again is exactly the implementation's value for the text without that
        # white space.
        if L.has_py_ws(text) and _contains_list(d) and names0 & {'hexBinary', 'base64Binary'} and \
                case.get('_t') is not None and '_back' in case:
            ep_ws = L.PY_ONLY_WS.replace('\xa0', '')
            for drop in ((lambda i: i.strip(ep_ws)), (lambda i: ''.join(c for c in i if c not in ep_ws))):
                cleaned = ' '.join(x for x in (drop(i) for i in re.split('[ \t\n\r]+', text)) if x)
                if L.has_py_ws(cleaned.replace('\xa0', '')):
                    continue
                again = impl_eval(case['_t'], cleaned, case['_oracle'])
                if not again.get('errs') and py_equal(again.get('value'), case['_back']):
                    return 'C02-F4'
        # same site, the list carries a facet of its own (length family): the items that became the empty binary vanish
        # from the text that is written, which the list facet then refuses.  Rule: as above, but the text without
        # that white space is refused by facets only and its lax value is the decoded value without its empty items
        if L.has_py_ws(text) and _contains_list(d) and names0 & {'hexBinary', 'base64Binary'} and _list_level_facets(d) and \
                case.get('_t') is not None and '_value' in case and 'error' in detail and isinstance(case['_value'], list):
            ep_ws = L.PY_ONLY_WS.replace('\xa0', '')
            from elementpath.datatypes import AbstractBinary
            nonempty_vals = [x for x in case['_value'] if not (isinstance(x, AbstractBinary) and len(x) == 0)]
            for drop in ((lambda i: i.strip(ep_ws)), (lambda i: ''.join(c for c in i if c not in ep_ws))):
                cleaned = ' '.join(x for x in (drop(i) for i in re.split('[ \t\n\r]+', text)) if x)
                if L.has_py_ws(cleaned.replace('\xa0', '')):
                    continue
                again = impl_eval(case['_t'], cleaned, case['_oracle'])
                if again.get('errs') and all(e == 'validation' for e in again['errs']) and \
                        len(nonempty_vals) < len(case['_value']) and py_equal(again.get('value'), nonempty_vals):
                    return 'C02-F4'
        return None
    if kind == 'spec-valid-impl-invalid' and _has_digit_facets_anywhere(d) and any(_ZERO7.match(i) for i in items):
        return 'C02-F5'
    # C02-F12: over a union, the patterns of a restriction that finds context.patterns occupied by a derived
    # restriction are dropped.  Rule: the type contains a restriction with patterns over a restriction with patterns
    # over a union (restrictions only in between), the implementation accepts what the reading refuses, and the
    # reading that applies only the outermost patterns of such a chain accepts too
    if kind == 'spec-invalid-impl-valid' and f12_shape(d):
        pinned = spec_type(d, case.get('v') == '1.1', text, ('F12',))
        if pinned != 'unjudged' and pinned[0]:
            return 'C02-F12'
    # C02-F13: the patterns of a restricted union are applied to the text as normalised by the DIRECT member that
    # matched; when that member is itself a union (collapse) or a restriction of a union (no white space) this is
    # not the normalisation of the basic member that validates.  Rule: the type contains a pattern-restricted union
    # with such a member, the verdicts differ, and the reading that normalises like the pinned code agrees with the
    # implementation (alone or together with C02-F12)
    if kind in ('spec-invalid-impl-valid', 'spec-valid-impl-invalid') and f13_shape(d):
        for pin, fid in ((('F13',), 'C02-F13'), (('F12', 'F13'), 'C02-F13')):
            if 'F12' in pin and not f12_shape(d):
                continue
            pinned = spec_type(d, case.get('v') == '1.1', text, pin)
            if pinned != 'unjudged' and pinned[0] == (kind == 'spec-invalid-impl-valid'):
                return fid
    names = _all_builtin_names(d)
    if kind in ('spec-invalid-impl-valid', 'spec-valid-impl-invalid') and case.get('v') == '1.1' and \
            names & {'date', 'dateTime', 'dateTimeStamp'}:
        for i in items:
            m = _BIGYEAR_LEAP.match(i)
            if m and not i.startswith('-') and m.group(1)[0] != '0':
                y = int(m.group(1))
                if L._leap(y) != L._leap(y + 1):
                    return 'C02-F6'
    if kind == 'spec-invalid-impl-valid' and names & set(DT_TYPES):
        # C02-F11: == of elementpath date/time objects reads a missing timezone as UTC
        for lit, root in _dt_enum_literals(d):
            b = L.spec_builtin(root, case.get('v') == '1.1', str(lit))
            if b == 'unjudged' or not b[0]:
                continue
            for i in items:
                a = L.spec_builtin(root, case.get('v') == '1.1', i)
                if a != 'unjudged' and a[0] and (a[1][-1] is None) != (b[1][-1] is None):
                    ia, ib = L.dt_instant(a[1]), L.dt_instant(b[1])
                    if ia is not None and ia == ib:
                        return 'C02-F11'
    if kind == 'spec-invalid-impl-valid' and names & {'dayTimeDuration', 'yearMonthDuration'}:
        for i in items:
            date_part = i.split('T')[0]
            if 'dayTimeDuration' in names and re.search(r'(?<![1-9])0+[YM]', date_part) and \
                    not re.search(r'[1-9][0-9]*[YM]', date_part):
                return 'C02-F7'
            if 'yearMonthDuration' in names and ('T' in i or 'D' in i) and \
                    re.fullmatch(r'-?P(?:[0-9]+Y)?(?:[0-9]+M)?(?:0+D)?(?:T(?:0+H)?(?:0+M)?(?:0+(?:\.0+)?S)?)?', i):
                return 'C02-F7'
    return None


_MEMBER_TYPES: dict = {}


def _member_type(t: Any, v11: bool, m: Any) -> Any:
    """the real type object of one union member description, built on its own (cached)"""
    if m[0] == 'b':
        return t.maps.types[XSD + m[1]]
    key = ('1.1' if v11 else '1.0') + json.dumps(m, sort_keys=True, default=str)
    if key not in _MEMBER_TYPES:
        if len(_MEMBER_TYPES) > 4000:
            _MEMBER_TYPES.clear()
        import xmlschema
        cls = xmlschema.XMLSchema11 if v11 else xmlschema.XMLSchema10
        _MEMBER_TYPES[key] = cls(HEAD + f'<xs:simpleType name="T">{desc_xsd(m)}</xs:simpleType></xs:schema>').types['T']
    return _MEMBER_TYPES[key]


def union_member_finding(case: dict, value: Any, sval: Any, allow_f4: bool = False) -> Optional[str]:
    """A union (possibly restricted, possibly the item type of a list) on which the XSD reading and the
    implementation take different members (both accept with values of different members, or one of them finds no
    member).  Exact rule: take the members in the order of the built type; at the FIRST member where the verdict of
    the reading and the verdict of the real member type on the item differ, that difference on that member alone
    must be matched by `known_match` (C02-F6/F7/F11: a date/time or duration member accepts or refuses the literal)
    or, with `allow_f4` (text with Python-only white space), by the elementpath rule of C02-F4 applied to that member
    alone; and the value the union returned for the item must be the value of the first member the implementation
    accepts.  Items on which the two agree on the member must denote the XSD value.  Anything else is not explained
    (None -> reported as a failure)."""
    t, oracle = case.get('_t'), case.get('_oracle')
    if t is None or oracle is None:
        return None
    d, v11, text = case['desc'], case.get('v') == '1.1', case['text']
    core = d
    while core[0] == 'r':
        core = core[1]
    if core[0] == 'l':
        inner = core[1]
        while inner[0] == 'r':
            inner = inner[1]
        items = [x for x in L.xsd_collapse(text).split(' ') if x]
        if inner[0] != 'u' or not isinstance(value, list) or len(items) != len(value) or sval is None or \
                sval[0] != 'l' or len(sval[1]) != len(items):
            return None
        triples = list(zip(items, value, sval[1]))
    elif core[0] == 'u':
        inner, triples = core, [(text, value, sval)]
    else:
        return None
    found: list = []
    try:
        for item, val, sv_item in triples:
            fid, first_impl = None, None
            agreed, agreed_case = False, {}
            for m in union_members_in_built_order(inner):
                r = spec_type(m, v11, item) if fid is None else None
                if r == 'unjudged':
                    return None
                mt = _member_type(t, v11, m)
                mi = impl_eval(mt, item, oracle)
                if 'exc' in mi:
                    return None
                ok = not mi['errs']
                if ok and first_impl is None:
                    first_impl = (mi['value'],)
                if fid is None and r is not None and r[0] != ok:
                    kind = 'spec-valid-impl-invalid' if r[0] else 'spec-invalid-impl-valid'
                    mcase = {'v': case.get('v'), 'desc': m, 'text': item, '_t': mt, '_oracle': oracle}
                    fid = known_match(mcase, {'kind': kind, 'what': 'verdict'})
                    if fid is None and allow_f4 and L.has_py_ws(item) and _f4_elementpath_strip(mcase, mi):
                        fid = 'C02-F4'
                    if fid is None:
                        return None
                elif fid is None and ok:
                    agreed = True       # same member for both
                    agreed_case = {'v': case.get('v'), 'desc': m, 'text': item, '_t': mt, '_oracle': oracle}
                if first_impl is not None and (fid is not None or agreed):
                    break
            # (no member for either of them: an item refused by both, nothing to explain; a union that the
            #  implementation refuses keeps a lax value that is not compared)
            if first_impl is not None and not py_equal(first_impl[0], val):
                return None
            if fid is not None:
                found.append(fid)
            elif agreed and value_denotes(val, sv_item, item):
                # same member for both, another value: explained only if that member is itself a union (nested
                # unions) in which the same rule finds the listed finding
                sub = union_member_finding(agreed_case, val, sv_item, allow_f4) if _contains_union(agreed_case['desc']) \
                    else None
                if sub is None:
                    return None
                found.append(sub)
    except Exception:   # noqa  (member not buildable on its own / escapes: leave it to the failure report)
        return None
    finally:
        oracle.take()
    return found[0] if found else None


def f12_shape(d: Any) -> bool:
    """somewhere in the type: restriction with patterns over (restrictions ...) a restriction with patterns over a union"""
    if d[0] == 'r':
        if 'pattern' in d[2]:
            b = d[1]
            while b[0] == 'r':
                if 'pattern' in b[2]:
                    root = b
                    while root[0] == 'r':
                        root = root[1]
                    if root[0] == 'u':
                        return True
                b = b[1]
        return f12_shape(d[1])
    if d[0] == 'l':
        return f12_shape(d[1])
    if d[0] == 'u':
        return any(f12_shape(m) for m in d[1])
    return False


def f13_shape(d: Any) -> bool:
    """somewhere in the type: a restriction with patterns over a union that has a union (or a restriction of one) as
    a direct member"""
    if d[0] == 'r':
        if 'pattern' in d[2]:
            root = _root(d)
            if root[0] == 'u' and any(_root(m)[0] == 'u' for m in root[1]):
                return True
        return f13_shape(d[1])
    if d[0] == 'l':
        return f13_shape(d[1])
    if d[0] == 'u':
        return any(f13_shape(m) for m in d[1])
    return False


def _dt_enum_literals(d: Any) -> list:
    out: list = []
    if d[0] == 'r':
        r = root_name(d)
        if r in DT_TYPES and 'enumeration' in d[2]:
            out += [(x, r) for x in d[2]['enumeration']]
        out += _dt_enum_literals(d[1])
    elif d[0] == 'l':
        out += _dt_enum_literals(d[1])
    elif d[0] == 'u':
        for m in d[1]:
            out += _dt_enum_literals(m)
    return out


def _contains_list(d: Any) -> bool:
    if d[0] == 'l':
        return True
    if d[0] == 'r':
        return _contains_list(d[1])
    if d[0] == 'u':
        return any(_contains_list(m) for m in d[1])
    return False


def _has_digit_facets_anywhere(d: Any) -> bool:
    if d[0] == 'r':
        return 'totalDigits' in d[2] or 'fractionDigits' in d[2] or _has_digit_facets_anywhere(d[1])
    if d[0] == 'l':
        return _has_digit_facets_anywhere(d[1])
    if d[0] == 'u':
        return any(_has_digit_facets_anywhere(m) for m in d[1])
    return False


def _all_builtin_names(d: Any) -> set:
    if d[0] == 'b':
        return {d[1]}
    if d[0] in ('r', 'l'):
        return _all_builtin_names(d[1])
    return set().union(*[_all_builtin_names(m) for m in d[1]])


# ------------------------------------------------------------------------------------------------
# evaluation of one case on the real code
# ------------------------------------------------------------------------------------------------

def canon_floats(j: Any) -> Any:
    if isinstance(j, dict):
        if 'f' in j and len(j) == 1:
            return {'f': '*'}
        return {k: canon_floats(v) for k, v in j.items()}
    if isinstance(j, list):
        return [canon_floats(x) for x in j]
    return j


def impl_eval(t: Any, text: str, oracle: L.Oracle) -> dict:
    from xmlschema.validators.exceptions import XMLSchemaDecodeError, XMLSchemaValidationError
    from xmlschema.exceptions import XMLSchemaException
    oracle.take()
    out: dict = {}
    try:
        value, errors = t.decode(text, validation='lax', datetime_types=True, binary_types=True)
    except XMLSchemaException as e:
        out['exc'] = 'library:' + type(e).__name__
        out['pats'] = oracle.take()
        return out
    except Exception as e:      # noqa
        out['exc'] = 'foreign:' + type(e).__name__
        out['pats'] = oracle.take()
        return out
    out['pats'] = oracle.take()
    if L.involves_qname(t):
        out['pats'] += L.qname_trace(t, text)
        oracle.take()
        out['qn'] = True
    out['value'] = value
    try:
        out['val'] = canon_floats(L.val_json(value))
    except Unsupported as e:
        out['val'] = {'unsupported': str(e)}
    out['errs'] = ['decode' if isinstance(e, XMLSchemaDecodeError) else 'validation' for e in errors]
    if out.get('qn'):
        out['errs'] = squash(out['errs'])
    return out


def squash(errs: list) -> list:
    """types that reach xs:QName: the atomic built-in reports a bad literal once (qname_validator) or twice (plus the
    unmapped prefix); the oracle knows only accepted/refused, so runs of equal error classes are compared as one"""
    return [e for i, e in enumerate(errs) if i == 0 or errs[i - 1] != e]


def py_equal(a: Any, b: Any) -> bool:
    if isinstance(a, float) and isinstance(b, float):
        return a == b or (a != a and b != b)
    if isinstance(a, list) and isinstance(b, list):
        return len(a) == len(b) and all(py_equal(x, y) for x, y in zip(a, b))
    return type(a) is type(b) and a == b


def value_denotes(v: Any, spec: Any, t: str) -> Optional[str]:
    """None if the decoded Python value denotes the XSD value `spec`; else a description"""
    if spec is None:
        return None
    tag = spec[0]
    from elementpath.datatypes import AbstractDateTime, HexBinary, Base64Binary
    if tag == 's':
        return None if v == spec[1] and isinstance(v, str) else f'{v!r} is not the normalised text {spec[1]!r}'
    if tag == 'b':
        return None if v is spec[1] else f'{v!r} is not {spec[1]}'
    if tag == 'n':
        if isinstance(v, bool) or not isinstance(v, (int, Decimal)):
            return f'{v!r} is not a number'
        return None if Fraction(v) == spec[1] else f'{v!r} != {spec[1]}'
    if tag == 'x':
        return None if isinstance(v, HexBinary) and v.value.decode().upper() == spec[1] else f'{v!r}'
    if tag == 'y':
        return None if isinstance(v, Base64Binary) and v.value.decode() == spec[1] else f'{v!r}'
    if tag == 'l':
        if not isinstance(v, list) or len(v) != len(spec[1]):
            return f'{v!r}: wrong number of items'
        for a, b in zip(v, spec[1]):
            r = value_denotes(a, b, t)
            if r:
                return r
        return None
    if tag == 'dt':
        _, kind, year, month, day, hh, mm, ss, frac, tz = spec
        if not isinstance(v, AbstractDateTime):
            return f'{v!r} is not a date/time object'
        if hh == 24:
            return None         # next-day normalisation: compared by the model only
        if year is not None:
            want = year if year > 0 or not hasattr(v, '_xsd_version') or v._xsd_version == '1.0' else year - 1
            if v.year != want:
                return f'year {v.year} for {year}'
        for name, w in (('month', month), ('day', day), ('hour', hh), ('minute', mm), ('second', ss)):
            if w is not None and getattr(v, name) != w:
                return f'{name} {getattr(v, name)} for {w}'
        if frac is not None:
            w = int((frac[1:] + '000000')[:6])
            if v.microsecond != w:
                return f'microsecond {v.microsecond} for {frac}'
        if (tz is None) != (v.tzinfo is None):
            return f'timezone {v.tzinfo!r} for {tz!r}'
        if tz is not None:
            want = 0 if tz == 'Z' else (1 if tz[0] == '+' else -1) * (int(tz[1:3]) * 60 + int(tz[4:6]))
            off = v.tzinfo.utcoffset(None)
            if off.days * 1440 + off.seconds // 60 != want:
                return f'timezone offset {off} for {tz}'
        return None
    return None


class Batch:
    def __init__(self) -> None:
        self.reqs: list = []
        self.pend: list = []


def one_case(ctx: Ctx, oracle: L.Oracle, batch: Optional[Batch], v11: bool, label: str, d: Any, t: Any,
             tj: Optional[dict], text: str, near_miss: bool, elem: Any = None) -> None:
    case = {'v': '1.1' if v11 else '1.0', 'type': label, 'desc': d, 'text': text, '_t': t, '_oracle': oracle}
    impl = impl_eval(t, text, oracle)
    if 'exc' in impl:
        if impl['exc'].startswith('foreign:'):
            ctx.failure('an exception that is not a library error escapes decode()', _pub(case), impl['exc'])
        else:
            ctx.failure('lax decode raised instead of collecting the error', _pub(case), impl['exc'])
        ctx.case(case, True, tag='exception')
        return
    valid = not impl['errs']
    # API coherence: is_valid == no lax errors
    try:
        iv = t.is_valid(text)
    except Exception as e:   # noqa
        iv = 'exc:' + type(e).__name__
    oracle.take()
    if iv is not valid:
        ctx.failure('is_valid() disagrees with the errors of a lax decode()', _pub(case), {'is_valid': iv, 'errors': impl['errs']})
    # API coherence: a strict decode() raises exactly when the lax one collects an error, and returns the same value
    from xmlschema.validators.exceptions import XMLSchemaValidationError as _VE
    try:
        strict_value, strict = t.decode(text, validation='strict', datetime_types=True, binary_types=True), 'ok'
    except _VE:
        strict_value, strict = None, 'raises'
    except Exception as e:   # noqa
        strict_value, strict = None, 'exc:' + type(e).__name__
    oracle.take()
    if strict != ('ok' if valid else 'raises'):
        ctx.failure('strict decode() disagrees with the errors of a lax decode()', _pub(case),
                    {'strict': strict, 'lax_errors': impl['errs'], 'lax_value': repr(impl['value'])})
    elif valid and not py_equal(strict_value, impl['value']):
        ctx.failure('strict decode() and lax decode() return different values', _pub(case),
                    {'strict': repr(strict_value), 'lax': repr(impl['value'])})
    # every pattern group of the regular-expression subset that the implementation evaluated: its verdict is
    # membership in the language of the pattern (independent reading lib_datatypes.rx_match)
    for pid, value, verdict in impl['pats']:
        g = oracle.rxs.get(pid)
        if g is not None:
            ctx.count('pattern-verdict:judged')
            if any(L.rx_match(r, value) for r in g) != verdict:
                ctx.failure('pattern facet: the verdict differs from the language of the pattern', _pub(case),
                            {'patterns': list(oracle.keep[pid - 1].regexps), 'value': value, 'impl': verdict})
    # ---- the property itself, by the independent reading ----
    spec = spec_type(d, v11, text)
    if d == ('b', 'NOTATION'):
        spec = 'unjudged'       # xs:NOTATION itself cannot be the type of a value (only its enumerated restrictions)
    judged = spec != 'unjudged'
    if judged:
        sv, sval = spec
        if sv != valid:
            kind = 'spec-valid-impl-invalid' if sv else 'spec-invalid-impl-valid'
            detail = {'kind': kind, 'what': 'verdict', 'impl_valid': valid, 'impl_errors': impl['errs'],
                      'impl_value': repr(impl['value'])}
            pyws = L.has_py_ws(text)
            fid = known_match(case, detail)
            if fid is None and pyws:
                # candidate for C02-F4: settled below against the model run with Python's white-space class
                case['_pyws_pending'] = detail
                case['_sval'] = sval
            elif fid:
                ctx.known_hit(fid, _pub(case), detail)
                case['_known'] = fid
            else:
                ctx.failure('accepted/refused against the lexical space and facets of the type', _pub(case), detail)
        elif valid:
            bad = value_denotes(impl['value'], sval, text)
            if bad:
                fid = union_member_finding(case, impl['value'], sval) if _contains_union(d) else None
                if fid:
                    # the union is valid for the reading and for the implementation, but through different members:
                    # the first member at which the two verdicts part is an instance of a listed finding
                    # (C02-F6/F7/F11 make a date/duration member accept or refuse the text)
                    ctx.known_hit(fid, _pub(case), {'kind': 'union-member', 'what': bad})
                    ctx.count('known-through-union-member:' + fid)
                    case['_known'] = fid
                elif L.has_py_ws(text):
                    case['_pyws_pending'] = {'kind': 'value', 'what': bad}
                    case['_sval'] = sval
                else:
                    ctx.failure('decoded value does not denote the XSD value of the text', _pub(case), bad)
    # ---- round trip on the real code ----
    if valid and impl['value'] is not None and not _contains_union(d) and root_name(d) not in ('error',) \
            and not _has_pattern(d) and not _ROLLOVER.search(text):
        try:
            enc = t.encode(impl['value'], validation='strict')
            back = t.decode(enc, validation='strict', datetime_types=True, binary_types=True)
            oracle.take()
            if not py_equal(back, impl['value']):
                detail = {'kind': 'roundtrip', 'value': repr(impl['value']), 'encoded': enc, 'decoded_again': repr(back)}
                case['_back'] = back
                fid = known_match(case, detail)
                if fid:
                    ctx.known_hit(fid, _pub(case), detail)
                else:
                    ctx.failure('encode(decode(text)) decodes to a different value', _pub(case), detail)
        except Exception as e:    # noqa
            oracle.take()
            detail = {'kind': 'roundtrip', 'value': repr(impl['value']), 'error': repr(e)[:200]}
            case['_value'] = impl['value']
            fid = known_match(case, detail)
            if fid:
                ctx.known_hit(fid, _pub(case), detail)
            else:
                ctx.failure('encode(decode(text)) fails', _pub(case), detail)
    nontrivial = valid or impl['value'] is not None or near_miss
    ctx.case({k: v for k, v in case.items() if not k.startswith('_')}, nontrivial,
             tag=f"{case['v']}/{'builtin' if d[0] == 'b' else {'r': 'restriction', 'l': 'list', 'u': 'union'}[d[0]]}")
    ctx.count('verdict:' + ('valid' if valid else 'invalid:' + impl['errs'][0]))
    if impl.get('qn') or 'NOTATION' in _all_builtin_names(d):
        lf = _length_family_on(d)
        ctx.count('dimension:qname-notation:' + ('list' if _contains_list(d) else 'atomic') +
                  ('+length-family-on-' + lf if lf else '') + ':' + ('valid' if valid else 'invalid'))
    ctx.count('judged:' + ('yes' if judged else 'no'))
    if tj is None or batch is None:
        if case.get('_pyws_pending'):
            # no model available: the white-space finding is recognised by re-running on the XML-cleaned text
            _settle_pyws_without_model(ctx, case, t, text, oracle)
        return
    req = {'type': tj, 'text': text, 'pats': impl['pats'], 'v11': v11, 'wsclass': 'xml', 'cdfix': True,
           'rxs': oracle.table(tj), 'chain': True}
    batch.reqs.append(req)
    batch.pend.append((case, impl))


# 24:00:00 on 31 December of a year outside 1..9998 (elementpath keeps the year: not judged, see ASSUMPTIONS)
_ROLLOVER = re.compile(r'(?:^|[^0-9])(?:-[0-9]+|0000|9999|[0-9]{5,})-12-31T24:')


def _length_family_on(d: Any) -> str:
    """where a length/minLength/maxLength facet sits: 'list' (restriction whose root is a list), 'atomic', or ''"""
    if d[0] == 'r':
        if any(k in d[2] for k in ('length', 'minLength', 'maxLength')):
            return 'list' if _root(d)[0] == 'l' else 'atomic' if _root(d)[0] == 'b' else 'union'
        return _length_family_on(d[1])
    if d[0] == 'l':
        return _length_family_on(d[1])
    if d[0] == 'u':
        return next((x for x in (_length_family_on(m) for m in d[1]) if x), '')
    return ''


def _has_pattern(d: Any) -> bool:
    if d[0] == 'r':
        return 'pattern' in d[2] or _has_pattern(d[1])
    if d[0] == 'l':
        return _has_pattern(d[1])
    if d[0] == 'u':
        return any(_has_pattern(m) for m in d[1])
    return False


def _contains_union(d: Any) -> bool:
    if d[0] == 'u':
        return True
    if d[0] in ('r', 'l'):
        return _contains_union(d[1])
    return False


def _settle_pyws_without_model(ctx: Ctx, case: dict, t: Any, text: str, oracle: L.Oracle) -> None:
    cleaned = ''.join(' ' if c in L.PY_ONLY_WS else c for c in text)
    a = impl_eval(t, cleaned, oracle)
    b = impl_eval(t, text, oracle)
    fid = 'C02-F4' if (a.get('errs') == b.get('errs') and a.get('val') == b.get('val')) else _f4_settle(case, b)
    if fid:
        ctx.known_hit(fid, _pub(case), case.get('_pyws_pending'))
    else:
        ctx.failure('accepted/refused against the lexical space and facets of the type', _pub(case), case['_pyws_pending'])


def _pub(case: dict) -> dict:
    return {k: v for k, v in case.items() if not k.startswith('_')}


def _proj(m: dict) -> dict:
    if 'err' in m:
        return {'driver-error': m['err']}
    return {'val': canon_floats(m['val']), 'errs': m['errs']}


def _zero7_case(case: dict) -> bool:
    d, text = case['desc'], case['text']
    items = L.xsd_collapse(''.join(' ' if c in L.PY_ONLY_WS else c for c in text)).split(' ')
    return _has_digit_facets_anywhere(d) and any(_ZERO7.match(i) for i in items)


def _list_level_facets(d: Any) -> bool:
    """a restriction with facets whose base (through restrictions) is a list"""
    while d[0] == 'r':
        b = d[1]
        while b[0] == 'r':
            b = b[1]
        if b[0] == 'l' and any(k != 'whiteSpace' for k in d[2]):
            return True
        d = d[1]
    return False


def _f4_settle(case: dict, impl: dict) -> Optional[str]:
    """a difference on a text with Python-only white space: the elementpath sites of C02-F4 on the whole type, or (a
    union) on the member at which the reading and the implementation part (`union_member_finding`)"""
    if _f4_elementpath_strip(case, impl):
        return 'C02-F4'
    if _contains_union(case['desc']) and 'value' in impl:
        return union_member_finding(case, impl['value'], case.get('_sval'), allow_f4=True)
    return None


def _f4_elementpath_strip(case: dict, impl: dict) -> bool:
    """C02-F4, call sites in elementpath: `fromstring` strips Python white space from date/time and duration
    literals (datetime.py:408,1086); `AbstractBinary.__init__` collapses with `[^\\S\\xa0]+` (binary.py:56-61,
    helpers.py:131,165), so Python-only white space is stripped from the ends of a hexBinary literal and removed
    anywhere in a base64Binary literal.  Rule: the type involves such a built-in and the implementation's
    outcome is the one the implementation gives for the same text without that white space (and no such
    character remains)."""
    d = case['desc']
    names = _all_builtin_names(d)
    if case.get('_t') is None:
        return False
    raw_items = [i for i in re.split('[ \t\n\r]+', case['text'])]
    candidates = []
    if names & (set(DT_TYPES) | set(DUR_TYPES) | {'dateTimeStamp', 'hexBinary', 'base64Binary'}):
        candidates.append([i.strip(L.PY_ONLY_WS + L.XML_WS) for i in raw_items])
    if names & {'base64Binary'}:
        ep_ws = L.PY_ONLY_WS.replace('\xa0', '')
        candidates.append([''.join(c for c in i if c not in ep_ws) for i in raw_items])
    # list over a union with a string member next to such a built-in: only the items that the implementation decoded
    # to a date/time, duration or binary VALUE went through elementpath; the other items (strings) keep the character
    got_l = impl['val'].get('l') if isinstance(impl.get('val'), dict) else None
    nonempty_idx = [k for k, r in enumerate(raw_items) if r]
    selective: list = []
    if candidates and _contains_list(d) and _contains_union(d) and isinstance(got_l, list) and len(got_l) == len(nonempty_idx):
        through_ep = {k: isinstance(g, dict) and bool(set(g) & {'dt', 'dur', 'x', 'y'}) for k, g in zip(nonempty_idx, got_l)}
        if any(through_ep.values()) and not all(through_ep.values()):
            for items in candidates:
                sel = [c if through_ep.get(k) else r for k, (c, r) in enumerate(zip(items, raw_items))]
                if not any(L.has_py_ws(c) for k, c in enumerate(sel) if through_ep.get(k)) and sel != raw_items:
                    selective.append(sel)
    for items in candidates + selective:
        cleaned = ' '.join(i for i in items if i)
        if L.has_py_ws(cleaned) and not any(items is s for s in selective):
            continue
        again = impl_eval(case['_t'], cleaned, case['_oracle'])
        if again.get('val') == impl.get('val') and again.get('errs') == impl.get('errs'):
            return True
        # list manifestation: an item made only of such white space is data for the XSD list splitter and is
        # stripped by elementpath to the EMPTY binary value; apart from those items the outcome is the same
        if _contains_list(d) and names & {'hexBinary', 'base64Binary'} and isinstance(impl.get('val'), dict) and \
                isinstance(again.get('val'), dict) and 'l' in impl['val'] and 'l' in again['val'] and \
                (again.get('errs') == impl.get('errs') or
                 # a facet on the LIST (length family, enumeration) sees one item more per vanished item: the facet
                 # errors may differ, the decode errors of the items may not
                 (_list_level_facets(d) and [e for e in again.get('errs', []) if e != 'validation'] ==
                  [e for e in impl.get('errs', []) if e != 'validation'])):
            nonempty = [i for i in raw_items if i]
            got = impl['val']['l']
            if len(got) == len(nonempty):
                kept = [g for g, c in zip(got, [i for i, r in zip(items, raw_items) if r]) if c]
                dropped = [g for g, c in zip(got, [i for i, r in zip(items, raw_items) if r]) if not c]
                if dropped and kept == again['val']['l'] and all(g in ({'x': ''}, {'y': ''}) for g in dropped):
                    return True
    return False


def flush(ctx: Ctx, batch: Batch, drv: Driver) -> None:
    """compare with the model in its repaired configuration (XML white space, count_digits repaired); a
    difference is a listed finding only if the rule of the finding holds for the input AND the implementation
    behaves exactly as the model configured with that pinned quirk; anything else is a mismatch"""
    if not batch.reqs:
        return
    answers = drv.query(batch.reqs)
    retry: list = []
    for (case, impl), req, m in zip(batch.pend, batch.reqs, answers):
        ctx.traces += 1
        want = {'val': impl['val'], 'errs': impl['errs']}
        mx = _proj(m)
        if impl.get('qn') and 'errs' in mx:
            mx['errs'] = squash(mx['errs'])
        if mx == want:
            fid = _f4_settle(case, impl) if case.get('_pyws_pending') else None
            if fid:
                ctx.known_hit(fid, _pub(case), case.get('_pyws_pending'))
            elif case.get('_pyws_pending'):
                ctx.failure('accepted/refused against the lexical space and facets of the type', _pub(case),
                            case['_pyws_pending'])
            continue
        retry.append((case, want, mx, req))
    alts = []
    for case, want, mx, req in retry:
        pyws, z7, f12 = L.has_py_ws(case['text']), _zero7_case(case), f12_shape(case['desc'])
        for ws, fix, chain in (('py', True, True), ('xml', False, True), ('py', False, True), ('xml', True, False),
                               ('py', True, False)):
            if (ws == 'py' and not pyws) or (not fix and not z7) or (not chain and not f12):
                continue
            alts.append((case, want, ws, fix, chain, dict(req, wsclass=ws, cdfix=fix, chain=chain)))
    alt_ans = drv.query([a[5] for a in alts]) if alts else []
    settled: dict[int, list] = {}
    for (case, want, ws, fix, chain, _), m in zip(alts, alt_ans):
        pm = _proj(m)
        if 'errs' in pm and any(e[0] == L.QNAME_ID for e in _['pats']):
            pm['errs'] = squash(pm['errs'])
        if pm == want and id(case) not in settled:
            settled[id(case)] = (['C02-F4'] if ws == 'py' else []) + ([] if fix else ['C02-F5']) + \
                ([] if chain else ['C02-F12'])
    for case, want, mx, req in retry:
        fids = settled.get(id(case))
        if fids:
            for f in fids:
                ctx.known_hit(f, _pub(case), {'impl': want})
            continue
        if case.get('_pyws_pending'):
            ctx.failure('accepted/refused against the lexical space and facets of the type', _pub(case), case['_pyws_pending'])
        ctx.mismatch('decode', _pub(case), want, mx)
    batch.reqs.clear()
    batch.pend.clear()


# ------------------------------------------------------------------------------------------------
# run
# ------------------------------------------------------------------------------------------------

def texts_for(rng: Any, d: Any, n_mut: int) -> list[tuple[str, bool]]:
    """catalogue + mutations for a description: (text, near_miss)"""
    names = sorted(_all_builtin_names(d))
    base: list[str] = []
    for n in names:
        base += catalogue(n)
    base = list(dict.fromkeys(base))
    lits = _literals(d)
    out = [(t, False) for t in base] + [(t, False) for t in lits]
    pool = [t for t in base + lits if t.strip()]
    for _ in range(n_mut):
        out.append((mutate(rng, rng.choice(pool)), True))
    if _contains_list(d):
        for _ in range(max(6, n_mut // 2)):
            k = rng.randrange(0, 5)
            sep = rng.choice([' ', '  ', '\t', '\n', '  ', ' '])
            out.append((sep.join(rng.choice(pool) for _ in range(k)), True))
    return list(dict.fromkeys(out))


def _literals(d: Any) -> list[str]:
    out: list[str] = []
    if d[0] == 'r':
        for k, v in d[2].items():
            if k in ('minInclusive', 'minExclusive', 'maxInclusive', 'maxExclusive'):
                out.append(str(v))
                try:
                    q = Decimal(str(v))
                    out += [str(q + 1), str(q - 1), str(q) + '.0', str(q + Decimal('0.001')), str(q - Decimal('0.001'))]
                except Exception:   # noqa
                    pass
            elif k == 'enumeration':
                out += [str(x) for x in v] + [' ' + str(x) + ' ' for x in v[:1]]
            elif k in ('length', 'minLength', 'maxLength'):
                for n in (v - 1, v, v + 1):
                    if n >= 0:
                        out += ['a' * n, 'ab' * n, ' '.join(['1'] * n), '0a' * n, ' ' + 'a' * n + ' ']
                        out += ['YWJj' * (n // 3) + ['', 'YQ==', 'YWI='][n % 3]]
            elif k == 'pattern':
                import random
                for pt in (v if isinstance(v, list) else [v]):
                    ast = L.rx_parse(pt)
                    if ast is not None:
                        prng = random.Random(sum(map(ord, pt)))
                        out += [L.rx_sample(prng, ast) for _ in range(4)]
            elif k in ('totalDigits', 'fractionDigits'):
                out += ['1' * v, '1' * (v + 1), '0.' + '1' * v, '0.' + '1' * (v + 1), '1.' + '0' * (v + 3),
                        '0' * 5 + '1' * v, '1' * v + '.0', '0.' + '0' * v + '1', '-' + '9' * v, '0.' + '0' * (v + 7)]
        out += _literals(d[1])
    elif d[0] == 'l':
        out += _literals(d[1])
    elif d[0] == 'u':
        for m in d[1]:
            out += _literals(m)
    return out


def _local_findings(ctx: Ctx) -> None:
    """findings of notes/findings/C02.json that the committed known_findings.json does not list yet (the integrator
    merges them): `ctx.known_hit` reads their status from `ctx.known`"""
    if not FINDINGS.exists():
        return
    listed = {e.get('id') for e in ctx.known}
    for e in json.loads(FINDINGS.read_text()).get('findings', []):
        if e.get('id') not in listed:
            ctx.known.append(dict(e, _local=True))


def run(ctx: Ctx, driver_ok: bool) -> None:
    _local_findings(ctx)
    drv = Driver('drv_c02') if driver_ok else None
    oracle = L.Oracle()
    oracle.install()
    try:
        _run(ctx, drv, oracle)
    finally:
        oracle.uninstall()
    unit_ops(ctx, drv)
    replay_counterexamples(ctx)
    reconfirm_known(ctx)


def _run(ctx: Ctx, drv: Optional[Driver], oracle: L.Oracle, widen: bool = False) -> None:
    from xmlschema.validators.builtins import BUILTIN_TYPES
    # (search() runs this family at the thorough sizes without the model: the thorough tier itself explores the same
    #  number of seeded types, so that search() never reaches a space the tiers have not been through)
    n_types = ctx.pick(140, 1000)
    n_mut_builtin = ctx.pick(300, 2500)
    n_mut_derived = ctx.pick(20, 80)
    for v11 in (False, True):
        descs = gen_types(ctx.rng, v11, n_types)
        schema, good = build(v11, descs)
        ctx.count('types:generated', len(descs))
        ctx.count('types:built', len(good))
        batch = Batch() if drv is not None else None
        # built-in atomic types
        for item in BUILTIN_TYPES['1.1' if v11 else '1.0']:
            name = item['name'].split('}')[1]
            t = schema.maps.types[item['name']]
            d = ('b', name)
            try:
                tj = L.type_json(t, oracle)
            except Unsupported as e:
                tj = None
                ctx.count('unsupported:' + str(e)[:30])
            for text, nm in texts_for(ctx.rng, d, n_mut_builtin if name not in ('QName', 'NOTATION') else 10):
                one_case(ctx, oracle, batch, v11, 'xs:' + name, d, t, tj, text, nm)
            if batch is not None and drv is not None:
                flush(ctx, batch, drv)
        # derived types
        for i, d in enumerate(good):
            t = schema.types[f'T{i}']
            try:
                tj = L.type_json(t, oracle)
            except Unsupported as e:
                tj = None
                ctx.count('unsupported:' + str(e)[:30])
            for text, nm in texts_for(ctx.rng, d, n_mut_derived):
                one_case(ctx, oracle, batch, v11, f'T{i}', d, t, tj, text, nm)
            if batch is not None and drv is not None and len(batch.reqs) > 4000:
                flush(ctx, batch, drv)
        if batch is not None and drv is not None:
            flush(ctx, batch, drv)
        element_level(ctx, schema, good, v11, oracle)
        document_level(ctx, drv, v11, good, oracle)
        qname_in_documents(ctx, v11)
    ctx.extra['explanation'] = ('built-in types x boundary catalogue is exhaustive over the catalogue; mutations and '
                                'derived types are seeded samples')



# ------------------------------------------------------------------------------------------------
# unit correspondence: each model function that a theorem of Props/C02.lean talks about, against the
# function of /repo it ports (driver requests with an `op` field), plus the clauses those theorems
# state, evaluated directly on the real functions
# ------------------------------------------------------------------------------------------------

def gen_decimal(rng: Any) -> str:
    """sign? zeros? digits ('.' zeros? digits zeros?)? with every shape of str(Decimal): plain, point with
    a long/short coefficient, scientific (6 or more zeros after the point), zero at any scale"""
    sign = rng.choice(['', '', '-', '+'])
    lead = '0' * rng.choice([0, 0, 0, 1, 3])
    k = rng.random()
    if k < 0.15:
        ip, fp = rng.choice(['0', '', '000']), '0' * rng.randrange(0, 12)
    elif k < 0.45:
        ip = str(rng.randrange(0, 10 ** rng.randrange(1, 9)))
        fp = ''.join(rng.choice('0123456789') for _ in range(rng.randrange(0, 9))) + '0' * rng.choice([0, 0, 1, 3])
    else:
        ip = rng.choice(['', '0', '0', '00'])
        fp = '0' * rng.randrange(0, 12) + str(rng.randrange(1, 10 ** rng.randrange(1, 6))) + '0' * rng.choice([0, 0, 1, 2, 7])
    point = '.' if fp or rng.random() < 0.2 else ''
    if not ip and not fp:
        ip = '0'
    return sign + lead + ip + point + fp


def spec_digits(d: Decimal) -> tuple[int, int]:
    """(digits of the integer part, least number of fraction digits) of |d|, by exact arithmetic"""
    q = abs(Fraction(d))
    fd = 0
    while (q * 10 ** fd).denominator != 1:
        fd += 1
    ip = int(q)
    return (len(str(ip)) if ip else 0), fd


def unit_ops(ctx: Ctx, drv: Optional[Driver]) -> None:
    import codecs
    import xmlschema
    from xmlschema.validators import helpers
    from xmlschema.utils.decoding import count_digits
    from elementpath.datatypes import HexBinary, Base64Binary, Date, Date10
    rng = ctx.rng
    n = ctx.pick(1500, 12000)
    schema = xmlschema.XMLSchema11(HEAD + '<xs:simpleType name="L"><xs:list itemType="xs:string"/></xs:simpleType>'
                                   '</xs:schema>')
    t_pres, t_repl, t_coll = (schema.maps.types[XSD + x] for x in ('string', 'normalizedString', 'token'))
    t_list = schema.types['L']
    # the encoders in force for the built-ins (`from_python`; `str` when the table names none)
    enc_dec, enc_int, enc_bool = (schema.maps.types[XSD + x].from_python for x in ('decimal', 'integer', 'boolean'))
    reqs: list = []
    pend: list = []

    def add(op: str, req: dict, impl: Any, case: dict, nontrivial: bool) -> None:
        ctx.case(case, nontrivial, tag='unit/' + op)
        if drv is not None:
            reqs.append(dict(req, op=op))
            pend.append((op, case, impl))

    # ---- white space: normalize() of the three modes, list splitting; shape + idempotence on the real code
    ws_pool = ['', ' ', '  ', 'a', ' a', 'a ', ' a ', 'a  b', 'a\tb', '\ta\n', 'a\r\nb', ' \t\n\r', 'a \t b  c ',
               '\xa0a\xa0', 'a b', '\x0ca', 'a\u2003', ' \xa0 ', 'a \xa0 b']   # (no U+0085/U+2028: the line protocol splits on them)
    for _ in range(n):
        ws_pool.append(''.join(rng.choice(' \t\n\rab ' + '  \xa0 \x0c') for _ in range(rng.randrange(0, 12))))
    for text in dict.fromkeys(ws_pool):
        case = {'unit': 'ws', 'text': text}
        c, r, p = t_coll.normalize(text), t_repl.normalize(text), t_pres.normalize(text)
        words = t_list.decode(text, validation='lax')[0]
        bad = None
        if p != text:
            bad = 'preserve changed the text'
        elif c != L.xsd_collapse(text) or r != L.xsd_replace(text):
            # (the xmlschema site of C02-F4 is repaired by 2aa74a1: a difference here is a regression, not the
            # known elementpath sites)
            bad = 'normalize() differs from the XSD normalisation (#x20|#x9|#xA|#xD only)'
        elif len(r) != len(text) or any(ch in '\t\n\r' for ch in r):
            bad = 'replace: length changed or tab/LF/CR left'
        elif any(ch in '\t\n\r' for ch in c) or c[:1] == ' ' or c[-1:] == ' ' or '  ' in c:
            bad = 'collapse: tab/LF/CR, leading/trailing or double blank left'
        elif t_coll.normalize(c) != c:
            bad = 'collapse is not idempotent'
        elif words != [w for w in c.split(' ') if w]:
            bad = 'list items are not the words of the collapsed text'
        if bad:
            ctx.failure('white-space normalisation: ' + bad, case, {'collapse': c, 'replace': r, 'items': words})
        add('ws', {'text': text}, {'collapse': c, 'replace': r, 'words': words}, case, c != text)

    # ---- xs:decimal: converter, str(Decimal), plain encoder, count_digits, comparison
    dec_pool = [x for x in catalogue('decimal')]
    for _ in range(n):
        dec_pool.append(gen_decimal(rng))
    for _ in range(n // 4):
        dec_pool.append(mutate(rng, gen_decimal(rng)))
    decs: list = []
    for text in dict.fromkeys(dec_pool):
        case = {'unit': 'dec', 'text': text}
        try:
            d = helpers.decimal_to_python(text)
        except ValueError:
            d = None
        lex = bool(L._RX['decimal'].match(text))
        if (d is not None) != lex:
            ctx.failure('decimal_to_python accepts/refuses against the lexical space of xs:decimal', case, repr(d))
        if d is None:
            add('dec', {'text': text}, {'val': None}, case, False)
            continue
        decs.append(text)
        plain = enc_dec(d)
        try:
            back = helpers.decimal_to_python(plain)
        except ValueError:
            back = None
        digits = count_digits(d)
        if Fraction(d) != Fraction(Decimal(text)) or d.as_tuple() != Decimal(text).as_tuple():
            ctx.failure('decimal value differs from the value of the literal', case, repr(d))
        if back is None or back != d:       # (the property asks for the same VALUE; the model comparison below
            ctx.failure(                        #  also pins sign of zero, digits and exponent)
                'encode(decode(text)) of xs:decimal does not decode to the same value', case,
                        {'kind': 'roundtrip', 'encoded': plain, 'decoded_again': repr(back)})
        if tuple(digits) != spec_digits(d):
            ctx.failure('count_digits differs from (integer digits, fraction digits) of the value', case,
                        {'count_digits': list(digits), 'value': spec_digits(d)})
        impl = {'val': L.aval_json(d)['d'], 'str': str(d), 'plain': plain, 'digits': list(digits),
                'reparse': None if back is None else L.aval_json(back)['d']}
        ctx.count('unit:dec-shape:' + ('sci' if 'E' in str(d) else 'point' if '.' in str(d) else 'plain'))
        add('dec', {'text': text}, impl, case, True)
    for _ in range(n):
        a, b = rng.choice(decs), rng.choice(decs)
        if rng.random() < 0.3:
            b = a.lstrip('+-').rstrip('0') + ('' if '.' in a else '.') + '0' * rng.randrange(0, 3) if a else b
            if not L._RX['decimal'].match(b):
                b = a
        x, y = Decimal(a), Decimal(b)
        fx, fy = Fraction(x), Fraction(y)
        impl = {'lt': x < y, 'le': x <= y, 'eq': x == y}
        case = {'unit': 'cmp', 'a': a, 'b': b}
        if impl != {'lt': fx < fy, 'le': fx <= fy, 'eq': fx == fy}:
            ctx.failure('Decimal comparison differs from the order of the rationals', case, impl)
        add('cmp', {'a': a, 'b': b}, impl, case, True)

    # ---- integers: converter, encoder, count_digits
    int_pool = catalogue('integer') + [str(rng.randrange(-10 ** 25, 10 ** 25)) for _ in range(n // 4)] + \
        [mutate(rng, rng.choice(['0', '-12', '+007', '123456789012345678901'])) for _ in range(n // 4)]
    for text in dict.fromkeys(int_pool):
        case = {'unit': 'int', 'text': text}
        try:
            i = helpers.integer_to_python(text)
        except ValueError:
            add('int', {'text': text}, {'val': None}, case, False)
            continue
        enc = enc_int(i)
        try:
            again_i: Any = helpers.integer_to_python(enc)
        except ValueError as e:
            again_i = repr(e)[:80]
        if again_i != i:
            ctx.failure('encode(decode(text)) of an integer does not decode to the same value', case,
                        {'kind': 'roundtrip', 'encoded': enc, 'decoded_again': repr(again_i)})
        add('int', {'text': text}, {'val': str(i), 'enc': enc, 'digits': list(count_digits(i))}, case, True)

    # ---- boolean
    for text in dict.fromkeys(catalogue('boolean')):
        case = {'unit': 'bool', 'text': text}
        try:
            b = helpers.boolean_to_python(text)
        except Exception:   # noqa  (XMLSchemaValueError)
            add('bool', {'text': text}, {'val': None}, case, False)
            continue
        enc = enc_bool(b)
        try:
            again_b: Any = helpers.boolean_to_python(enc)
        except Exception as e:   # noqa
            again_b = repr(e)[:80]
        if again_b is not b:
            ctx.failure('encode(decode(text)) of xs:boolean does not decode to the same value', case,
                        {'kind': 'roundtrip', 'encoded': enc, 'decoded_again': repr(again_b)})
        add('bool', {'text': text}, {'val': b, 'enc': enc}, case, True)

    # ---- hexBinary (on the text collapsed by the type, as raw_decode passes it), base64Binary
    hex_pool = catalogue('hexBinary') + [''.join(rng.choice('0123456789abcdefABCDEF') for _ in range(rng.randrange(0, 13)))
                                         for _ in range(n // 3)]
    hex_pool += [mutate(rng, x) for x in rng.sample(hex_pool, min(len(hex_pool), n // 6)) if x]
    for text in dict.fromkeys(hex_pool):
        norm = t_coll.normalize(text)
        case = {'unit': 'hex', 'text': norm}
        try:
            h = HexBinary(norm)
        except (ValueError, TypeError):
            add('hex', {'text': norm}, {'ok': False}, case, False)
            continue
        octets = codecs.decode(h.value, 'hex')
        if len(h) != len(octets):
            ctx.failure('len() of a hexBinary value is not its number of octets', case, len(h))
        again = HexBinary(str(h))
        if again != h or len(again) != len(h):
            ctx.failure('encode(decode(text)) of xs:hexBinary does not decode to the same value', case, str(h))
        add('hex', {'text': norm}, {'ok': True, 'len': len(h), 'enc': str(h)}, case, True)
    b64c = 'ABCDEFGHIJKLMNOPQRSTUVWXYZabcdefghijklmnopqrstuvwxyz0123456789+/'
    b64_pool = catalogue('base64Binary')
    for _ in range(n // 3):
        raw = bytes(rng.randrange(256) for _ in range(rng.randrange(0, 9)))
        enc = codecs.encode(raw, 'base64').decode().replace('\n', '')
        if rng.random() < 0.3:
            enc = ' '.join(enc)
        b64_pool.append(enc)
        b64_pool.append(''.join(rng.choice(b64c) for _ in range(rng.randrange(0, 10))) + rng.choice(['', '=', '==']))
    b64_pool += [mutate(rng, x) for x in rng.sample(b64_pool, min(len(b64_pool), n // 6)) if x]
    for text in dict.fromkeys(b64_pool):
        norm = t_coll.normalize(text)
        case = {'unit': 'b64', 'text': norm}
        try:
            v = Base64Binary(norm)
        except (ValueError, TypeError):
            add('b64', {'text': norm}, {'ok': False}, case, False)
            continue
        lit = v.value.decode()
        try:
            octets = codecs.decode(v.value, 'base64')
        except Exception:   # noqa
            octets = None
        if octets is None or len(v) != len(octets):
            ctx.failure('len() of a base64Binary value is not its number of octets', case, len(v))
        again = Base64Binary(str(v))
        if again.value != v.value:
            ctx.failure('encode(decode(text)) of xs:base64Binary does not decode to the same value', case, str(v))
        add('b64', {'text': norm}, {'ok': True, 'val': lit, 'len': len(v), 'enc': str(v), 'reparse': again.value.decode()},
            case, True)

    # ---- xs:date: `fromstring` + constructor + `str()` of both versions (model vs implementation only; the
    #      verdicts are judged against XSD by the main run)
    date_pool = catalogue('date')
    date_pool += [mutate(rng, rng.choice(date_pool)) for _ in range(n // 2)]
    for _ in range(n // 2):
        y = rng.choice([rng.randrange(1, 10000), rng.randrange(-12000, 12000), rng.randrange(-2 ** 31 - 2, 2 ** 31 + 2)])
        ys = ('-' if y < 0 else '') + f'{abs(y):04d}'
        date_pool.append(f'{ys}-{rng.randrange(0, 14):02d}-{rng.randrange(0, 33):02d}' + rng.choice(TZS[:9]))
    for text in dict.fromkeys(date_pool):
        for v11, cls in ((True, Date), (False, Date10)):
            case = {'unit': 'date', 'text': text, 'v': '1.1' if v11 else '1.0'}
            try:
                v = cls.fromstring(text)
            except (ValueError, ArithmeticError):
                add('date', {'text': text, 'v11': v11}, {'val': None}, case, False)
                continue
            add('date', {'text': text, 'v11': v11}, {'val': L.aval_json(v), 'str': str(v)}, case, True)

    # ---- pattern facets of the regular-expression subset: the real XsdPatternFacets (elementpath's translation to a
    #      Python `re`) against the language of the pattern (lib_datatypes.rx_match) and against the model's matcher
    from xmlschema.validators.exceptions import XMLSchemaValidationError
    pats = [p for p in dict.fromkeys(NUM_PATTERNS + STR_PATTERNS + UNION_PATTERNS) if L.rx_parse(p) is not None]
    pats += list(dict.fromkeys(L.rx_xsd(L.rx_random(rng)) for _ in range(ctx.pick(60, 400))))
    body = ''.join(f'<xs:simpleType name="P{i}"><xs:restriction base="xs:string"><xs:pattern value="{esc(pt)}"/>'
                   f'</xs:restriction></xs:simpleType>' for i, pt in enumerate(pats))
    try:
        pschema = xmlschema.XMLSchema11(HEAD + body + '</xs:schema>')
    except Exception as e:   # noqa
        pschema = None
        ctx.failure('a pattern of the regular-expression subset is refused by the schema parser', {'unit': 'rx'}, repr(e)[:300])
    for i, pt in enumerate(pats if pschema is not None else []):
        ast = L.rx_parse(pt)
        facet = pschema.types[f'P{i}'].patterns
        texts = [L.rx_sample(rng, ast) for _ in range(8)]
        texts += [mutate(rng, x) for x in texts[:6] if x] + ['', ' ', 'a', '0', 'a\nb', 'é']
        for text in dict.fromkeys(texts):
            case = {'unit': 'rx', 'pattern': pt, 'text': text}
            try:
                facet(text)
                got = True
            except XMLSchemaValidationError:
                got = False
            if got != L.rx_match(ast, text):
                ctx.failure('pattern facet: the verdict differs from the language of the pattern', case, {'impl': got})
            add('rx', {'g': [L.rx_json(ast)], 'text': text}, {'match': got}, case, got)

    if drv is not None:
        for (op, case, impl), m in zip(pend, drv.query(reqs)):
            ctx.traces += 1
            ctx.count('unit-compared:' + op)
            if 'err' in m:
                ctx.mismatch('unit:' + op, case, impl, {'driver-error': m['err']})
            elif m != impl:
                ctx.mismatch('unit:' + op, case, impl, m)



def replay_counterexamples(ctx: Ctx) -> None:
    """the witnesses of the `_counterexample` theorems of Props/C02.lean, on the real code: the implementation must
    behave as the theorem says the model does (otherwise the model no longer describes it)"""
    import xmlschema
    from elementpath.datatypes import Date
    obs: dict = {}

    def attempt(f: Any) -> Any:
        try:
            return f()
        except (ValueError, ArithmeticError) as e:
            return 'raises ' + type(e).__name__

    # date_lex_counterexample / leap_year_counterexample (C02-F6)
    obs['date 10000-02-29 (1.1)'] = attempt(lambda: str(Date.fromstring('10000-02-29')))
    obs['date 10003-02-29 (1.1)'] = attempt(lambda: str(Date.fromstring('10003-02-29')))
    # date_roundtrip_counterexample (C02-F10)
    v = Date.fromstring('-9999-01-01')
    obs['date -9999-01-01 (1.1)'] = [v.year, str(v), Date.fromstring(str(v)).year]
    # binary_whitespace_counterexample (C02-F4, elementpath binary site)
    sch = xmlschema.XMLSchema11(HEAD + '<xs:element name="h" type="xs:hexBinary"/><xs:element name="b" type="xs:base64Binary"/>'
                                '</xs:schema>')
    obs['hexBinary 4a<U+2003>'] = sch.maps.types[XSD + 'hexBinary'].is_valid('4a\u2003')
    obs['base64Binary Y<U+2003>WJj'] = sch.maps.types[XSD + 'base64Binary'].is_valid('Y\u2003WJj')
    # countDigits_counterexample (C02-F5, repaired side) and decimal round trip of the former C02-F9 witness
    from xmlschema.utils.decoding import count_digits
    from xmlschema.validators import helpers
    obs['count_digits 0E-7'] = list(count_digits(Decimal('0.0000000')))
    obs['python_to_decimal 1E-7'] = sch.maps.types[XSD + 'decimal'].from_python(Decimal('0.0000001'))
    # pattern_chain_counterexample (C02-F12): int | string restricted by [0-9]{3}, restricted again by [0-9]*
    pch = xmlschema.XMLSchema11(
        HEAD + '<xs:simpleType name="u"><xs:union memberTypes="xs:integer xs:string"/></xs:simpleType>'
        '<xs:simpleType name="r1"><xs:restriction base="u"><xs:pattern value="[0-9]{3}"/></xs:restriction></xs:simpleType>'
        '<xs:simpleType name="r2"><xs:restriction base="r1"><xs:pattern value="[0-9]*"/></xs:restriction></xs:simpleType>'
        '</xs:schema>')
    obs['pattern chain: base refuses 12, derived accepts 12'] = [pch.types['r1'].is_valid('12'), pch.types['r2'].is_valid('12'),
                                                                 pch.types['r2'].is_valid('123')]
    # C02-F12: the pinned code drops the base step's patterns (derived accepts '12'); repaired since the chain fix
    f12_known = ctx._finding_status.get('C02-F12') == 'known'
    want = {'pattern chain: base refuses 12, derived accepts 12': [False, True, True] if f12_known else [False, False, True],
            'date 10000-02-29 (1.1)': 'raises ValueError', 'date 10003-02-29 (1.1)': '10003-02-29',
            'date -9999-01-01 (1.1)': [-10000, '-10000-01-01', -10001],
            'hexBinary 4a<U+2003>': True, 'base64Binary Y<U+2003>WJj': True,
            'count_digits 0E-7': [0, 0], 'python_to_decimal 1E-7': '0.0000001'}
    for k, w in want.items():
        ctx.traces += 1
        ctx.count('witness-replayed')
        if obs.get(k) != w:
            ctx.mismatch('counterexample witness', {'witness': k}, obs.get(k), w)
    ctx.extra['counterexample_witnesses'] = obs


def element_level(ctx: Ctx, schema: Any, good: list, v11: bool, oracle: L.Oracle) -> None:
    """verdict through an element == verdict of the type; decode options"""
    from xmlschema.validators.builtins import BUILTIN_TYPES
    from elementpath.datatypes import AbstractDateTime, Duration, AbstractBinary
    names = [item['name'].split('}')[1] for item in BUILTIN_TYPES['1.1' if v11 else '1.0']]
    rng = ctx.rng
    n = ctx.pick(25, 200)
    for name in names:
        if name in ('QName', 'NOTATION', 'ID', 'IDREF', 'ENTITY', 'error'):
            continue
        t = schema.maps.types[XSD + name]
        cat = [x for x in catalogue(name) if all(c in '\t\n\r' or ord(c) >= 32 for c in x) and '\r' not in x
               and not any(0xd800 <= ord(c) <= 0xdfff for c in x)]
        for text in rng.sample(cat, min(n, len(cat))):
            case = {'v': '1.1' if v11 else '1.0', 'type': 'xs:' + name, 'text': text, 'through': 'element', 'desc': ('b', name)}
            xml = f'<b_{name}>{esc(text)}</b_{name}>'
            try:
                ev = schema.is_valid(xml)
                tv = t.is_valid(text)
            except Exception as e:    # noqa
                ctx.failure('an exception escapes is_valid()', _pub(case), repr(e)[:200])
                continue
            ctx.case(case, True, tag=f"{case['v']}/element")
            if ev != tv:
                ctx.failure('verdict through an element differs from the verdict of its type', _pub(case), {'element': ev, 'type': tv})
                continue
            if not tv or not L.xsd_collapse(text):
                continue
            base = t.decode(text, datetime_types=True, binary_types=True)
            for opts in ({}, {'decimal_type': str}, {'decimal_type': float}, {'datetime_types': True}, {'binary_types': True}):
                try:
                    got = schema.decode(xml, **opts)
                except Exception as e:    # noqa
                    ctx.failure('decode() of a valid element fails', _pub(case), {'options': str(opts), 'error': repr(e)[:200]})
                    continue
                ctx.count('options:' + (','.join(opts) or 'default'))
                bad = None
                norm = L.xsd_collapse(text)
                if isinstance(base, bool) or isinstance(base, int) or isinstance(base, float):
                    if not py_equal(got, base):
                        bad = 'number/boolean is not decoded to its value'
                elif isinstance(base, Decimal):
                    dt = opts.get('decimal_type')
                    want = base if dt is None else dt(base)
                    if type(got) is not type(want) or got != want:
                        bad = f'decimal_type={dt}: expected {want!r}'
                elif isinstance(base, (AbstractDateTime, Duration)):
                    if opts.get('datetime_types'):
                        if not py_equal(got, base):
                            bad = 'typed date/time object differs from the value of the type'
                    elif got != norm and not L.has_py_ws(text):
                        bad = f'untyped date/time is not the normalised text {norm!r}'
                elif isinstance(base, AbstractBinary):
                    if opts.get('binary_types'):
                        if not (type(got) is type(base) and got == base):
                            bad = 'typed binary differs from the value of the type'
                    elif not isinstance(got, str) or got.replace(' ', '').upper() != norm.replace(' ', '').upper():
                        bad = f'untyped binary is not the normalised text {norm!r}'
                elif isinstance(base, str):
                    if got != base and not (got is None and base == ''):
                        bad = 'string value differs'
                if bad:
                    ctx.failure('decode option semantics', _pub(case), {'options': str(opts), 'got': repr(got), 'detail': bad})
    oracle.take()


DOC_TEXTS = ['abc', '2020-01-01', '12', '123', 'true', 'x y', '!!', '1', 'a', 'zz', '2000-02-29', '12 345', 'true false', ' 12 ',
             '0a', 'P1D', '-1', '1.5']


def _doc_ok_text(x: str) -> bool:
    return bool(x) and all(ord(c) >= 32 and not 0xd800 <= ord(c) <= 0xdfff and ord(c) not in (0xfffe, 0xffff) for c in x)


def doc_eval(v11: bool, items: list, oracle: L.Oracle) -> dict:
    """one document whose root carries the values `items` = [(desc, text, 'element'|'attribute')], validated in ONE lax
    run (one validation context); per value: the verdict inside the document and the verdict of its own type on its
    own (fresh context), both on the real code"""
    import xmlschema
    cls = xmlschema.XMLSchema11 if v11 else xmlschema.XMLSchema10
    types, els, ats = [], [], []
    for i, (d, _, how) in enumerate(items):
        tname = f'xs:{d[1]}' if d[0] == 'b' else f'D{i}'
        if d[0] != 'b':
            types.append(f'<xs:simpleType name="D{i}">{desc_xsd(d)}</xs:simpleType>')
        if how == 'attribute':
            ats.append(f'<xs:attribute name="a{i}" type="{tname}"/>')
        else:
            els.append(f'<xs:element name="c{i}" type="{tname}"/>')
    schema = cls(HEAD + ''.join(types) + '<xs:element name="root"><xs:complexType><xs:sequence>' + ''.join(els) +
                 '</xs:sequence>' + ''.join(ats) + '</xs:complexType></xs:element></xs:schema>')
    xml = '<root' + ''.join(f' a{i}="{esc(t)}"' for i, (_, t, how) in enumerate(items) if how == 'attribute') + '>' + \
        ''.join(f'<c{i}>{esc(t)}</c{i}>' for i, (_, t, how) in enumerate(items) if how != 'attribute') + '</root>'
    errors = list(schema.iter_errors(xml))
    oracle.take()
    in_doc: list = []
    other: list = []
    bad_paths = [e.path for e in errors]
    reasons = ' | '.join(str(e.reason)[:80] for e in errors)
    for i, (d, t, how) in enumerate(items):
        if how == 'attribute':
            in_doc.append(not any(e.path == '/root' and f'attribute a{i}=' in str(e.reason) for e in errors))
        else:
            in_doc.append(f'/root/c{i}' not in bad_paths)
    own: list = []
    tys: list = []
    for i, (d, t, how) in enumerate(items):
        ty = schema.maps.types[XSD + d[1]] if d[0] == 'b' else schema.types[f'D{i}']
        tys.append(ty)
        own.append(ty.is_valid(t))
        oracle.take()
    for e in errors:
        if not (e.path == '/root' and str(e.reason).startswith('attribute a') or
                any(e.path == f'/root/c{i}' for i in range(len(items)))):
            other.append(e.path + ': ' + str(e.reason)[:60])
    return {'xml': xml, 'in_doc': in_doc, 'own': own, 'types': tys, 'schema': schema, 'other': other, 'reasons': reasons,
            'n_errors': len(errors)}


def document_level(ctx: Ctx, drv: Optional[Driver], v11: bool, good: list, oracle: L.Oracle) -> None:
    """values of sibling elements and attributes are validated in one shared validation context: each must be judged
    by its own type only (what one value leaves in the context must not reach the next).  Property evaluation: the
    verdict of every value inside the document equals the verdict of its type on its own; correspondence: the model's
    `decodeSeq` over the same values."""
    rng = ctx.rng
    unions = [d for d in good if _contains_union(d) and spec_ok_for_doc(d)]
    pat_unions = [d for d in unions if _has_pattern(d)]
    others = [d for d in good if not _contains_union(d) and spec_ok_for_doc(d)]
    directed = [d for d in directed_pattern_unions() if d in good]
    docs: list = []
    # directed: a pattern-restricted union followed by every other union, on texts no member / some member accepts
    for a in directed:
        if not _has_pattern(a):
            continue
        for b in directed[:6]:
            for ta, tb in (('abc', '2020-01-01'), ('!!', '123'), ('x y', 'true'), ('123', 'abc')):
                docs.append([(a, ta, 'element'), (b, tb, 'element')])
        docs.append([(a, 'abc', 'attribute'), (directed[1], '2020-01-01', 'element')])
        docs.append([(a, 'x y', 'attribute'), (directed[1], 'abc', 'attribute'), (a, '123', 'element')])
    for _ in range(ctx.pick(150, 1500)):
        k = rng.randrange(2, 5)
        items = []
        for _ in range(k):
            src = rng.random()
            pool = pat_unions if src < 0.45 and pat_unions else unions if src < 0.8 and unions else others or unions
            if not pool:
                continue
            d = rng.choice(pool)
            cand = [x for x in DOC_TEXTS + _literals(d) if _doc_ok_text(x)]
            if _all_builtin_names(d) & {'QName', 'NOTATION'}:
                # (a prefix is in scope inside a document and not for the type on its own: `qname_in_documents`)
                cand = [x for x in cand + ['a b', 'a b c', 'n1', 'n1 n2', 'ab'] if ':' not in x]
            items.append((d, rng.choice(cand), 'attribute' if rng.random() < 0.25 else 'element'))
        if len(items) >= 2:
            docs.append(items)
    reqs, pend = [], []
    for items in docs:
        items = [(d, t if how != 'attribute' else ' '.join(t.split()) or 'a', how) for d, t, how in items]
        case = {'v': '1.1' if v11 else '1.0', 'through': 'document',
                'items': [{'desc': d, 'text': t, 'as': how} for d, t, how in items]}
        try:
            r = doc_eval(v11, items, oracle)
        except Exception as e:   # noqa
            ctx.failure('lax validation of a document raises', case, repr(e)[:200])
            continue
        case['doc'] = r['xml']
        nontrivial = not all(r['own'])
        ctx.case(case, nontrivial, tag=f"{case['v']}/document")
        ctx.count('document:values', len(items))
        diff = [i for i, (x, y) in enumerate(zip(r['in_doc'], r['own'])) if x != y]
        f14 = bool(diff) and not r['other'] and 'content is empty' in r['reasons'] and \
            all(f14_item(items[i]) and r['own'][i] and not r['in_doc'][i] for i in diff)
        if f14:
            ctx.known_hit('C02-F14', case, {'positions': diff, 'reasons': r['reasons']})
            r = dict(r, in_doc=[o if i in diff else x for i, (x, o) in enumerate(zip(r['in_doc'], r['own']))])
        if r['in_doc'] != r['own'] or r['other']:
            pos = next((i for i, (x, y) in enumerate(zip(r['in_doc'], r['own'])) if x != y), None)
            ctx.failure('a value inside a document is judged differently than by its own type', case,
                        {'position': pos, 'valid_in_document': r['in_doc'], 'valid_for_own_type': r['own'],
                         'other_error_paths': r['other'], 'reasons': r['reasons']})
        if drv is not None:
            try:
                tjs = [L.type_json(ty, oracle) for ty in r['types']]
            except Unsupported:
                continue
            pats: list = []
            for ty, (d, t, how) in zip(r['types'], items):
                pats += impl_eval(ty, t, oracle)['pats']
            rxs: dict = {}
            for tj in tjs:
                for i, g in oracle.table(tj):
                    rxs[i] = g
            reqs.append({'seq': [{'type': tj, 'text': t} for tj, (_, t, _) in zip(tjs, items)], 'pats': pats, 'v11': v11,
                         'wsclass': 'xml', 'cdfix': True, 'chain': True, 'rxs': [[i, g] for i, g in rxs.items()]})
            pend.append((case, r))
    if drv is not None and reqs:
        for (case, r), m in zip(pend, drv.query(reqs)):
            ctx.traces += 1
            if 'err' in m:
                ctx.mismatch('document', case, r['in_doc'], {'driver-error': m['err']})
                continue
            model = [not x['errs'] for x in m['seq']]
            if model != r['in_doc'] or m['slot']:
                # (C02-F4/F12: white-space class, dropped patterns: the type-level run settles those; here only the
                #  values on which the type-level verdict of the real code agrees with the model are compared)
                if [a for a, b in zip(model, r['own']) if a != b]:
                    ctx.count('document:type-level-difference')
                    if model != r['in_doc'] and r['in_doc'] == r['own']:
                        continue
                ctx.mismatch('document', case, r['in_doc'], {'valid': model, 'slot': m['slot']})


_QNAME_LEX = re.compile(r'(?:([A-Za-z_][A-Za-z0-9_.\-]*):)?[A-Za-z_][A-Za-z0-9_.\-]*\Z')


def _qname_list_expected(d: Any, text: str) -> bool:
    """restrictions (length family) of a list of xs:QName, prefixes p and q in scope, ASCII names"""
    items = [x for x in L.xsd_collapse(text).split(' ') if x]
    ok = all((m := _QNAME_LEX.match(x)) is not None and m.group(1) in (None, 'p', 'q') for x in items)
    while d[0] == 'r':
        for k, n in d[2].items():
            if _root(d)[0] == 'l':
                ok = ok and {'length': len(items) == n, 'minLength': len(items) >= n, 'maxLength': len(items) <= n}[k]
        d = d[1]
    return ok


def qname_in_documents(ctx: Ctx, v11: bool) -> None:
    """lists of xs:QName with the length family through an element, where prefixes are in scope (xmlns:p on the
    element): valid iff every item is a QName whose prefix is declared and the NUMBER OF ITEMS satisfies the facets"""
    import xmlschema
    cls = xmlschema.XMLSchema11 if v11 else xmlschema.XMLSchema10
    q = ('b', 'QName')
    descs = [('l', q)]
    for n in (0, 1, 2, 3):
        descs += [('r', ('l', q), {'length': n}), ('r', ('l', q), {'minLength': n}), ('r', ('l', q), {'maxLength': n})]
    descs.append(('r', ('r', ('l', q), {'minLength': 1, 'maxLength': 3}), {'minLength': 2, 'maxLength': 2}))
    descs.append(('r', ('l', ('r', q, {'maxLength': 1})), {'length': 2}))
    schema = cls(HEAD + ''.join(f'<xs:element name="e{i}"><xs:simpleType>{desc_xsd(d)}</xs:simpleType></xs:element>'
                                for i, d in enumerate(descs)) + '</xs:schema>')
    texts = ['a', 'a b', 'p:a b', 'p:a p:b', 'p:a p:b c', 'a b c d', 'z:a b', 'p:a  b ', 'p:1a b', 'p:a:b c', 'p: a', 'q:x q:y',
             'a p:b q:c', 'p:a b c']
    for i, d in enumerate(descs):
        for text in texts:
            ok = _qname_list_expected(d, text)
            xml = f'<e{i} xmlns:p="urn:p" xmlns:q="urn:q">{esc(text)}</e{i}>'
            case = {'v': '1.1' if v11 else '1.0', 'through': 'element-with-prefixes', 'desc': d, 'text': text, 'doc': xml}
            try:
                got = schema.is_valid(xml)
            except Exception as e:   # noqa
                ctx.failure('an exception escapes is_valid()', case, repr(e)[:200])
                continue
            ctx.case(case, True, tag=f"{case['v']}/qname-list-in-element")
            ctx.count('dimension:qname-list-in-element:' + ('valid' if got else 'invalid'))
            if got != ok:
                ctx.failure('list of xs:QName in an element: accepted/refused against item lexical space, prefixes in scope '
                            'and the length family counting items', case, {'impl_valid': got, 'expected': ok})


def f14_item(item: tuple) -> bool:
    """C02-F14: an element whose type is an atomic restriction of xs:QName / xs:NOTATION with length=0 or maxLength=0
    (facets that are not in force on these types) and a text that is not empty"""
    d, text, how = item
    if how != 'element' or not L.xsd_collapse(text) or _root(d)[0] != 'b' or _root(d)[1] not in ('QName', 'NOTATION'):
        return False
    while d[0] == 'r':
        if d[2].get('length') == 0 or d[2].get('maxLength') == 0:
            return True
        d = d[1]
    return False


def spec_ok_for_doc(d: Any) -> bool:
    """types usable in a generated document: no QName/NOTATION/ID-like built-ins (document-wide constraints)"""
    return not (_all_builtin_names(d) & {'ID', 'IDREF', 'ENTITY', 'error'})


def reconfirm_known(ctx: Ctx) -> None:
    """replay the witnesses of notes/findings/C02.json on the real code; print KNOWN-FINDING lines for the
    entries that are not yet in known_findings.json (the integrator merges them)"""
    if not FINDINGS.exists():
        return
    listed = {e['id'] for e in ctx.known if not e.get('_local')}
    for e in json.loads(FINDINGS.read_text()).get('findings', []):
        if e.get('status') != 'known':
            continue
        still = witness_fails(e.get('witness', {}))
        ctx.extra.setdefault('known_witnesses', {})[e['id']] = 'still failing' if still else 'no longer failing'
        if e['id'] not in listed and (still or ctx.known_hits.get(e['id'])):
            print(f"KNOWN-FINDING: property=C02 {e['id']} {e['what']} "
                  f"[{ctx.known_hits.get(e['id'], 0)} matching case(s) on this run; witness "
                  f"{'reproduced' if still else 'no longer fails'}]")


def witness_fails(w: dict) -> bool:
    import xmlschema
    try:
        if w.get('kind') == 'document':
            def tup(d: Any) -> Any:
                if isinstance(d, list):
                    return ('u', [tup(x) for x in d[1]]) if d[0] == 'u' else ('r', tup(d[1]), d[2]) if d[0] == 'r' else \
                        ('l', tup(d[1])) if d[0] == 'l' else tuple(d)
                return d
            r = doc_eval(w.get('v', '1.1') == '1.1', [(tup(i['desc']), i['text'], i['as']) for i in w['items']], L.Oracle())
            return r['in_doc'] != r['own']
        cls = xmlschema.XMLSchema11 if w.get('v', '1.1') == '1.1' else xmlschema.XMLSchema10
        t = cls(HEAD + w['schema'] + '</xs:schema>').types['T']
        if w.get('kind') == 'roundtrip':
            v = t.decode(w['text'], datetime_types=True, binary_types=True)
            try:
                return not py_equal(t.decode(t.encode(v), datetime_types=True, binary_types=True), v)
            except Exception:   # noqa
                return True
        return t.is_valid(w['text']) != w['expected_valid']
    except Exception:   # noqa
        return False


def search(ctx: Ctx) -> None:
    """a tie broke without a failing input: the family of the thorough tier (same generators, same sizes, same known-
    finding matchers through `one_case`), property evaluation only (no model: the white-space findings are settled by
    `_settle_pyws_without_model`).  On the unchanged tree it reports nothing (tools/search_clean.py C02)."""
    _local_findings(ctx)
    oracle = L.Oracle()
    oracle.install()
    saved = ctx.tier
    try:
        if ctx.quick():
            ctx.tier = 'thorough'
        _run(ctx, None, oracle, widen=True)
    finally:
        ctx.tier = saved
        oracle.uninstall()


def replay(ctx: Ctx, obj: dict) -> int:
    import xmlschema
    print(json.dumps(obj, indent=1, default=str)[:3000])
    _local_findings(ctx)
    case = obj.get('input') or (obj.get('first_mismatches') or [{}])[0].get('case')
    if not case or ('desc' not in case and case.get('through') != 'document'):
        return 0

    def tup(d):
        if isinstance(d, list):
            if d and d[0] == 'u':
                return ('u', [tup(x) for x in d[1]])
            if d and d[0] == 'r':
                return ('r', tup(d[1]), d[2])
            if d and d[0] == 'l':
                return ('l', tup(d[1]))
            return tuple(d)
        return d
    v11 = case.get('v') == '1.1'
    if case.get('through') == 'document':
        # values of one document validated in one lax run: each against its own type only
        items = [(tup(i['desc']), i['text'], i['as']) for i in case['items']]
        oracle = L.Oracle()
        oracle.install()
        try:
            r = doc_eval(v11, items, oracle)
            print('DOCUMENT            :', r['xml'])
            print('REAL CODE, in the document (valid per value):', r['in_doc'], '  errors:', r['reasons'])
            print('REAL CODE, own type on its own              :', r['own'])
            print('XSD READING                                 :',
                  [(lambda x: x if x == 'unjudged' else x[0])(spec_type(d, v11, t)) for d, t, _ in items])
            if (LEAN / '.lake/build/bin/drv_c02').exists():
                try:
                    tjs = [L.type_json(ty, oracle) for ty in r['types']]
                    pats: list = []
                    for ty, (d, t, how) in zip(r['types'], items):
                        pats += impl_eval(ty, t, oracle)['pats']
                    rxs = {i: g for tj in tjs for i, g in oracle.table(tj)}
                    m = Driver('drv_c02').query([{'seq': [{'type': tj, 'text': t} for tj, (_, t, _) in zip(tjs, items)],
                                                  'pats': pats, 'v11': v11, 'wsclass': 'xml', 'cdfix': True, 'chain': True,
                                                  'rxs': [[i, g] for i, g in rxs.items()]}])[0]
                    print('LEAN MODEL (decodeSeq, valid per value, slot):', [not x['errs'] for x in m.get('seq', [])], m.get('slot'))
                except Unsupported:
                    pass
        finally:
            oracle.uninstall()
        diff = [i for i, (x, y) in enumerate(zip(r['in_doc'], r['own'])) if x != y]
        if diff and not r['other'] and 'content is empty' in r['reasons'] and \
                all(f14_item(items[i]) and r['own'][i] and not r['in_doc'][i] for i in diff):
            print('matches known finding C02-F14')
            return 0
        if r['in_doc'] != r['own'] or r['other']:
            print('FAILS ON THE REAL CODE: a value inside a document is judged differently than by its own type')
            return 1
        return 0
    d = tup(case['desc'])
    cls = xmlschema.XMLSchema11 if v11 else xmlschema.XMLSchema10
    if case.get('through') == 'element-with-prefixes':
        sch = cls(HEAD + f'<xs:element name="e"><xs:simpleType>{desc_xsd(d)}</xs:simpleType></xs:element></xs:schema>')
        xml = f'<e xmlns:p="urn:p" xmlns:q="urn:q">{esc(case["text"])}</e>'
        got, want = sch.is_valid(xml), _qname_list_expected(d, case['text'])
        print('DOCUMENT :', xml)
        print('REAL CODE: valid =', got, '  XSD READING (items are QNames with prefixes in scope, facets count items): valid =', want)
        if got != want:
            print('FAILS ON THE REAL CODE: list of xs:QName in an element')
            return 1
        return 0
    if d[0] == 'b':
        schema = cls(HEAD + f'<xs:element name="b_{d[1]}" type="xs:{d[1]}"/></xs:schema>')
        t = schema.maps.types[XSD + d[1]]
    else:
        schema = cls(HEAD + f'<xs:simpleType name="T">{desc_xsd(d)}</xs:simpleType></xs:schema>')
        t = schema.types['T']
    oracle = L.Oracle()
    oracle.install()
    try:
        try:
            tj = L.type_json(t, oracle)
        except Unsupported:
            tj = None
        drv = Driver('drv_c02') if tj is not None and (LEAN / '.lake/build/bin/drv_c02').exists() else None
        batch = Batch() if drv else None
        if case.get('through') == 'element':
            xml = f'<b_{d[1]}>{esc(case["text"])}</b_{d[1]}>'
            print('element verdict:', schema.is_valid(xml), ' type verdict:', t.is_valid(case['text']))
        one_case(ctx, oracle, batch, v11, case.get('type', 'T'), d, t, tj, case['text'], True)
        impl = impl_eval(t, case['text'], oracle)
        print('REAL CODE :', {k: v for k, v in impl.items() if k in ('val', 'errs', 'exc')})
        print('XSD READING:', spec_type(d, v11, case['text']))
        if drv and batch:
            print('LEAN MODEL:', drv.query([batch.reqs[0]])[0] if batch.reqs else None)
            flush(ctx, batch, drv)
    finally:
        oracle.uninstall()
    for f in ctx.failures:
        print('FAILS ON THE REAL CODE:', f['what'], f['detail'])
    for m in ctx.mismatches:
        print('MODEL != IMPLEMENTATION:', m['impl'], m['model'])
    for k, v in ctx.known_hits.items():
        print('matches known finding', k)
    return 1 if ctx.failures else 0
