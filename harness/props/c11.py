"""
C11 — every input ends in a verdict or a library error; documented limits hold.

Model: lean/XsVerif/Model/Limits.lean (parse folds with remaining_levels / remaining_elements, limit setters,
classification of exception classes, handler coverage); tables regenerated from /repo on every run into
lean/XsVerif/Generated/C11.lean by `translate`; theorems: lean/XsVerif/Props/C11.lean.

Correspondence / exploration on the real code:
  * limits: random forests and chain / comb / wide documents swept over limit-1, limit, limit+1 of MAX_XML_DEPTH and
    MAX_XML_ELEMENTS for several limit settings, eager and lazy resources: refused / processed compared with
    `eagerParse` / `lazyParse` of the Lean model run on the event stream of the very same bytes (obtained with
    ElementTree.iterparse independently of xmlschema) and with the specification (depth / size of the tree);
  * limit setters swept around each minimum and over non-int values against `setLimit`;
  * mutation fuzzing: corpus + generated documents under structural and lexical mutation (huge numbers and years,
    odd QNames, stray xsi attributes, unknown namespaces) and truncated / garbled byte streams, run through
    XMLResource, is_valid, iter_errors, decode strict/lax/skip: every outcome is classified
    verdict | library error | foreign exception, the runtime class is looked up in the generated hierarchy table
    and classified by the model as well.
Property evaluation: no foreign exception ever; lax / skip entry points return for every well-formed document
within the limits; documents over a limit are refused with XMLResourceExceeded, documents within are processed.
"""
from __future__ import annotations

import ast
import io
import json
import re
import sys
from pathlib import Path
from typing import Any, Callable, Optional

from harness.core import Ctx, Driver, REPO, VERIF, LEAN
from harness import lib_c04gen as G

PROPS = 'XsVerif.Props.C11'
AUDIT = 'XsVerif.Audit.C11'
LEAN_TARGETS = ['XsVerif.Props.C11', 'drv_c11']
LEANCHECK = ['XsVerif.Model.Limits', 'XsVerif.Lemmas.Limits', 'XsVerif.Generated.C11', 'XsVerif.Props.C11']
GENERATED = LEAN / 'XsVerif' / 'Generated' / 'C11.lean'
FINDINGS_FILE = VERIF / 'notes' / 'findings' / 'C11.json'

LIMIT_ATTRS = [('modelDepth', 'MAX_MODEL_DEPTH'), ('schemaSources', 'MAX_SCHEMA_SOURCES'),
               ('xmlDepth', 'MAX_XML_DEPTH'), ('xmlElements', 'MAX_XML_ELEMENTS')]

# lexical catalogue used to observe what the built-in converters can raise
CATALOGUE = [
    '', ' ', '0', '-0', '+1', '1.5', '1e5', '1E400', '-1E400', 'NaN', 'INF', '-INF', '99999999999999999999', '9' * 400,
    '-' + '9' * 30, '1_000', '１２', '12 ', 'true', 'false', '2', 'abc', '2024-02-29', '2023-02-29',
    '99999999999999999999-01-01', '-99999999999999999999-01-01', '0000-01-01', '2024-13-01', '2024-01-01T25:00:00',
    '2024-01-01T00:00:00+15:00', '99999999999999999999-01-01T00:00:00', '24:00:00', '12:00:00Z', '-99999999999999999999',
    '99999999999999999999-01', '--02-30', '--13', '---32', '2024-02', 'P1Y', 'PT1S', 'P99999999999999999999Y',
    'P99999999999999999999M', 'PT99999999999999999999999999999999999999S', '-P1D', 'P1.5Y', 'PT1.5S', 'P', '0A', '0a1', 'GG',
    'QUJD', 'QUJ', '====', 'a:b', 'a:b:c', ':a', '1a', 'p:', '{x}y', 'http://x y', '%zz', 'urn:x', '\x00', 'a' * 20000, 'en-US',
    'x' * 9 + '-y', '  12  ', '\t1\n',
]


# ------------------------------------------------------------------------------------------------
# translator: tables regenerated from the current source

def lean_str(s: str) -> str:
    return '"' + s.replace('\\', '\\\\').replace('"', '\\"') + '"'


def lean_list(items: list[str]) -> str:
    return '[' + ', '.join(items) + ']'


def mro_names(c: type) -> list[str]:
    return [k.__name__ for k in c.__mro__]


def exc_lean(c: type) -> str:
    return '⟨%s, %s⟩' % (lean_str(c.__name__), lean_list([lean_str(n) for n in mro_names(c)]))


def handler_names(node: ast.ExceptHandler) -> list[str]:
    t = node.type
    if t is None:
        return ['BaseException']
    if isinstance(t, ast.Tuple):
        return [getattr(e, 'id', getattr(e, 'attr', '?')) for e in t.elts]
    return [getattr(t, 'id', getattr(t, 'attr', '?'))]


def find_sites() -> list[tuple[str, list[str]]]:
    """The `try … except` sites around the conversions that C11 names, read from the AST of the current source."""
    sites: list[tuple[str, list[str]]] = []

    def calls(node: ast.AST, attr: str) -> bool:
        return any(isinstance(n, ast.Call) and isinstance(n.func, ast.Attribute) and n.func.attr == attr
                   for n in ast.walk(node))

    def tries_with(fn: ast.AST, attr: str) -> list[tuple[ast.Try, bool]]:
        """(try node, inside `if validation == 'skip'`) for every try whose BODY calls `.attr(`"""
        out = []

        def walk(node: ast.AST, in_skip: bool) -> None:
            for ch in ast.iter_child_nodes(node):
                if isinstance(ch, ast.If):
                    t = ch.test
                    is_skip = (isinstance(t, ast.Compare) and isinstance(t.left, ast.Name) and t.left.id == 'validation'
                               and len(t.comparators) == 1 and isinstance(t.comparators[0], ast.Constant)
                               and t.comparators[0].value == 'skip' and isinstance(t.ops[0], ast.Eq))
                    for b in ch.body:
                        walk_one(b, in_skip or is_skip)
                    for b in ch.orelse:
                        walk_one(b, in_skip)
                else:
                    walk_one(ch, in_skip)

        def walk_one(ch: ast.AST, in_skip: bool) -> None:
            if isinstance(ch, ast.Try) and any(calls(b, attr) for b in ch.body):
                out.append((ch, in_skip))
            walk(ch, in_skip)

        walk(fn, False)
        return out

    def method(path: str, cls: str, name: str) -> Optional[ast.AST]:
        tree = ast.parse((REPO / path).read_text(encoding='utf-8-sig'))
        for n in ast.walk(tree):
            if isinstance(n, ast.ClassDef) and n.name == cls:
                for m in n.body:
                    if isinstance(m, ast.FunctionDef) and m.name == name:
                        return m
        return None

    fn = method('xmlschema/validators/simple_types.py', 'XsdAtomicBuiltin', 'raw_decode')
    if fn is not None:
        for t, in_skip in tries_with(fn, 'to_python'):
            hs: list[str] = []
            for h in t.handlers:
                hs.extend(handler_names(h))
            sites.append(('builtin.to_python:' + ('skip' if in_skip else 'validate'), sorted(set(hs))))
    fn = method('xmlschema/validators/groups.py', 'XsdGroup', 'raw_decode')
    if fn is not None:
        for t, _ in tries_with(fn, 'check_dynamic_context'):
            hs = []
            for h in t.handlers:
                hs.extend(handler_names(h))
            sites.append(('group.check_dynamic_context', sorted(set(hs))))
    fn = method('xmlschema/validators/elements.py', 'XsdElement', 'raw_decode')
    if fn is not None:
        for t, _ in tries_with(fn, 'get_instance_type'):
            hs = []
            for h in t.handlers:
                hs.extend(handler_names(h))
            sites.append(('element.get_instance_type', sorted(set(hs))))
    return sorted(set((n, tuple(h)) for n, h in sites))  # type: ignore


def observe_raisable() -> dict[str, list[type]]:
    """Exception classes that the code under the handler sites can raise (observed, listed in the trusted base)."""
    import xmlschema
    conv: dict[str, type] = {}
    for cls in (xmlschema.XMLSchema10, xmlschema.XMLSchema11):
        s = cls('<xs:schema xmlns:xs="http://www.w3.org/2001/XMLSchema"/>')
        for name, t in sorted(s.maps.types.items()):
            if not hasattr(t, 'to_python'):
                continue
            for v in CATALOGUE:
                try:
                    t.to_python(v)
                except Exception as e:  # noqa
                    conv[type(e).__name__] = type(e)
    xsi: dict[str, type] = {}
    s = xmlschema.XMLSchema10(G.xsd_text('T', False))
    base = s.types['base']
    for name in ('t:ext', 't:other', 't:nonexistent', 'zz:base', 'nonexistent', 't:code', '', 't:', ':x', 'xs:int'):
        try:
            s.maps.get_instance_type(name, base, {'t': G.TNS, 'xs': 'http://www.w3.org/2001/XMLSchema'})
        except Exception as e:  # noqa
            xsi[type(e).__name__] = type(e)
    return {'builtin.to_python:skip': [conv[k] for k in sorted(conv)],
            'builtin.to_python:validate': [conv[k] for k in sorted(conv)],
            'group.check_dynamic_context': [xsi[k] for k in sorted(xsi)],
            'element.get_instance_type': [xsi[k] for k in sorted(xsi)]}


def library_classes() -> list[type]:
    import xmlschema
    import xmlschema.exceptions
    import xmlschema.validators.exceptions
    seen: dict[str, type] = {}

    def rec(c: type) -> None:
        if c.__name__ in seen:
            return
        seen[c.__name__] = c
        for sub in c.__subclasses__():
            if sub.__module__.startswith('xmlschema'):
                rec(sub)
    rec(xmlschema.XMLSchemaException)
    for mod in (xmlschema.exceptions, xmlschema.validators.exceptions):
        for n in dir(mod):
            o = getattr(mod, n)
            if isinstance(o, type) and issubclass(o, BaseException) and o.__module__.startswith('xmlschema'):
                seen.setdefault(o.__name__, o)
    return [seen[k] for k in sorted(seen)]


FOREIGN_SAMPLES = [RecursionError, OverflowError, KeyError, ValueError, TypeError, AttributeError, IndexError, MemoryError,
                   UnicodeDecodeError, UnicodeEncodeError, AssertionError, OSError, SyntaxError, ZeroDivisionError, LookupError,
                   ArithmeticError, RuntimeError, StopIteration]


def probe_limits() -> tuple[dict[str, int], dict[str, int]]:
    """Defaults and the smallest accepted value of every limit, by calling the real setter."""
    from xmlschema import limits, _limits
    from xmlschema.exceptions import XMLSchemaValueError
    defaults = {a: getattr(_limits, py) for a, py in LIMIT_ATTRS}
    minima: dict[str, int] = {}
    for a, py in LIMIT_ATTRS:
        saved = getattr(limits, py)
        try:
            lo = None
            for v in range(-2, 64):
                try:
                    setattr(limits, py, v)
                except XMLSchemaValueError:
                    continue
                lo = v
                break
            minima[a] = lo if lo is not None else 10 ** 9
        finally:
            setattr(limits, py, saved)
    return defaults, minima


def table_classes() -> dict[str, type]:
    import xml.etree.ElementTree as ET
    import decimal
    classes: dict[str, type] = {}
    for c in library_classes() + FOREIGN_SAMPLES + [ET.ParseError, decimal.InvalidOperation, decimal.DecimalException]:
        classes[c.__name__] = c
    try:
        import elementpath
        for n in ('ElementPathError', 'ElementPathValueError', 'ElementPathTypeError', 'ElementPathKeyError'):
            if hasattr(elementpath, n):
                classes[n] = getattr(elementpath, n)
    except Exception:  # noqa
        pass
    try:
        import lxml.etree as LE
        classes['XMLSyntaxError'] = LE.XMLSyntaxError
    except Exception:  # noqa
        pass
    for lst in observe_raisable().values():
        for c in lst:
            classes[c.__name__] = c
    return classes


def translate(ctx: Optional[Ctx]) -> None:
    import xmlschema
    classes = table_classes()
    public = [n for n in xmlschema.__all__ if isinstance(getattr(xmlschema, n), type)
              and issubclass(getattr(xmlschema, n), Exception) and not issubclass(getattr(xmlschema, n), Warning)]
    lib = [c.__name__ for c in library_classes() if issubclass(c, Exception) and not issubclass(c, Warning)]
    defaults, minima = probe_limits()
    sites = find_sites()
    raisable = observe_raisable()
    lines = [
        '/-  GENERATED by harness/props/c11.py (translate) from the source tree under check — do not edit.',
        '    Tables only: exception classes with their MRO, public error classes, limit defaults / minima probed',
        '    through the real setter, the handler lists of the conversion sites (read from the AST) and the',
        '    exception classes observed under those sites. -/',
        'import XsVerif.Model.Limits',
        'namespace XsVerif.Generated.C11',
        'open XsVerif.Limits',
        '',
        'def excTable : List Exc := [',
        ',\n'.join('  ' + exc_lean(classes[k]) for k in sorted(classes)),
        ']',
        '',
        '/-- exception (non-warning) classes exported by `xmlschema.__all__` -/',
        'def publicErrors : List String := ' + lean_list([lean_str(n) for n in sorted(public)]),
        '',
        '/-- every exception (non-warning) class defined in the package\'s exception modules -/',
        'def libraryErrors : List String := ' + lean_list([lean_str(n) for n in sorted(set(lib) | set(public))]),
        '',
        'def limitDefaults : Limits := ⟨%d, %d, %d, %d⟩' % tuple(defaults[a] for a, _ in LIMIT_ATTRS),
        '',
        '/-- smallest value accepted by `xmlschema.limits.<attr> = v` (probed) -/',
        'def limitMinima : List (Limit × Int) := ' + lean_list(['(.%s, %d)' % (a, minima[a]) for a, _ in LIMIT_ATTRS]),
        '',
        '/-- handler lists of the conversion sites, from the AST of the current source -/',
        'def sites : List Site := ' + lean_list(['⟨%s, %s⟩' % (lean_str(n), lean_list([lean_str(h) for h in hs]))
                                                   for n, hs in sites]),
        '',
        '/-- exception classes observed under each site (catalogue of lexical values / xsi:type names) -/',
        'def raisable : List (String × List Exc) := [',
        ',\n'.join('  (%s, %s)' % (lean_str(n), lean_list([exc_lean(c) for c in raisable.get(n, [])])) for n, _ in sites),
        ']',
        '',
        'end XsVerif.Generated.C11',
        '',
    ]
    text = '\n'.join(lines)
    GENERATED.parent.mkdir(exist_ok=True)
    if not GENERATED.exists() or GENERATED.read_text() != text:
        GENERATED.write_text(text)
    if ctx is not None:
        ctx.extra['generated'] = {'exception_classes': len(classes), 'public_errors': len(public), 'sites': [n for n, _ in sites],
                                  'limit_defaults': defaults, 'limit_minima': minima}


if __name__ == '__main__':
    sys.path.insert(0, str(REPO))
    translate(None)
    print(GENERATED.read_text()[:3000])
