"""
C11 — every input ends in a verdict or a library error; documented limits hold.

Model: lean/XsVerif/Model/Limits.lean (parse folds with remaining_levels / remaining_elements, limit setters,
classification of exception classes, handler coverage); tables regenerated from /repo on every run into
lean/XsVerif/Generated/C11.lean by `translate`; theorems: lean/XsVerif/Props/C11.lean.

Correspondence / exploration on the real code:
  * limits: random forests and chain / comb / wide documents swept over limit-1, limit, limit+1 of MAX_XML_DEPTH and
    MAX_XML_ELEMENTS for several limit settings, eager and lazy resources: refused / processed compared with
    `eagerParse` / `lazyParse` of the Lean model run on the event stream of the very same bytes (obtained with
    ElementTree.iterparse independently of xmlschema) and with the specification (depth / size of the tree);
  * limit setters swept around each minimum and over non-int values against `setLimit`;
  * mutation fuzzing: corpus + generated documents under structural and lexical mutation (huge numbers and years,
    odd QNames, stray xsi attributes, unknown namespaces) and truncated / garbled byte streams, run through
    XMLResource, is_valid, iter_errors, decode strict/lax/skip: every outcome is classified
    verdict | library error | foreign exception, the runtime class is looked up in the generated hierarchy table
    and classified by the model as well.
  * raise-site policy (clause "lax mode never raises for invalid content"): every `raise` statement of
    xmlschema/validators (AST, harness/lib_c11sites.py) regenerated into Generated/C11.lean with its mode guard and
    reachability, classified by the hand table of Model/RaisePolicy.lean; while the fuzz parts run, sys.monitoring
    records every executed raise statement (with the literal mode of an enclosing union-member / text_is_valid
    sub-descent) and the statement an escaping exception came from: compared with `fire` per (site, mode) and with
    `run` per distinct script;
  * descent frames (C11-F2 / F16): smallest overflowing depth of is_valid / decode / lazy / encode at two recursion
    limits against `descendFits` / `processExc` (two frames per level; RecursionError vs XMLResourceExceeded by detection
    of the `except RecursionError` guard in the AST);
  * encoding (schema.encode / to_etree on decoded and mutated data, 9 converters, 3 modes), schema-level APIs with
    randomised options (path, max_depth, hooks, fillers, converter, flags, lazy), and a list / union / nillable family
    (blank, whitespace-only, duplicated siblings × 9 converters × 3 modes × option sets);
  * wildcards: element and attribute wildcards of every constraint form (##any, ##other, ##local, ##targetNamespace, URI
    lists, the EMPTY list, 1.1 notNamespace / notQName / ##defined / ##definedSibling) × processContents × position
    (first / middle / last / only / in a choice / in a repeated inner sequence) × occurrence, with documents whose content
    model fails AT the wildcard; every form is driven once exhaustively (strict, last, required), the product by draws;
  * error objects: every error collected or raised by the fuzzed entry points is RENDERED completely (str / repr, every
    property and public zero-argument method of the classes of its MRO, its attributes, its pickle state): an exception
    while an error is built or rendered is a foreign exception; the table of the computed members of the error classes is
    read from the AST of the exception modules and reported with the members rendered on the run.
Property evaluation: no foreign exception ever; lax / skip entry points return for every well-formed document
within the limits; documents over a limit are refused with XMLResourceExceeded, documents within are processed.
"""
from __future__ import annotations

import ast
import io
import json
import re
import sys
from pathlib import Path
from typing import Any, Callable, Optional

from harness.core import Ctx, Driver, REPO, VERIF, LEAN
from harness import lib_c04gen as G
from harness import lib_c11sites as SITES

PROPS = 'XsVerif.Props.C11'
AUDIT = 'XsVerif.Audit.C11'
LEAN_TARGETS = ['XsVerif.Props.C11', 'drv_c11']
LEANCHECK = ['XsVerif.Model.Limits', 'XsVerif.Lemmas.Limits', 'XsVerif.Model.RaisePolicy', 'XsVerif.Lemmas.RaisePolicy',
             'XsVerif.Generated.C11', 'XsVerif.Props.C11']
GENERATED = LEAN / 'XsVerif' / 'Generated' / 'C11.lean'
FINDINGS_FILE = VERIF / 'notes' / 'findings' / 'C11.json'

LIMIT_ATTRS = [('modelDepth', 'MAX_MODEL_DEPTH'), ('schemaSources', 'MAX_SCHEMA_SOURCES'),
               ('xmlDepth', 'MAX_XML_DEPTH'), ('xmlElements', 'MAX_XML_ELEMENTS')]

# lexical catalogue used to observe what the built-in converters can raise
CATALOGUE = [
    '', ' ', '0', '-0', '+1', '1.5', '1e5', '1E400', '-1E400', 'NaN', 'INF', '-INF', '99999999999999999999', '9' * 400,
    '-' + '9' * 30, '1_000', '１２', '12 ', 'true', 'false', '2', 'abc', '2024-02-29', '2023-02-29',
    '99999999999999999999-01-01', '-99999999999999999999-01-01', '0000-01-01', '2024-13-01', '2024-01-01T25:00:00',
    '2024-01-01T00:00:00+15:00', '99999999999999999999-01-01T00:00:00', '24:00:00', '12:00:00Z', '-99999999999999999999',
    '99999999999999999999-01', '--02-30', '--13', '---32', '2024-02', 'P1Y', 'PT1S', 'P99999999999999999999Y',
    'P99999999999999999999M', 'PT99999999999999999999999999999999999999S', '-P1D', 'P1.5Y', 'PT1.5S', 'P', '0A', '0a1', 'GG',
    'QUJD', 'QUJ', '====', 'a:b', 'a:b:c', ':a', '1a', 'p:', '{x}y', 'http://x y', '%zz', 'urn:x', '\x00', 'a' * 20000, 'en-US',
    'x' * 9 + '-y', '  12  ', '\t1\n',
]


# byte streams used to observe what the XML parser can raise inside the parse loops
PARSE_CATALOGUE = [
    b'', b'<', b'<a', b'<a>', b'<a></b>', b'<a/><b/>', b'text', b'<a>&undefined;</a>', b'<a>&#0;</a>', b'<a>\x00</a>', b'<a>\xff</a>',
    b'<?xml version="1.0" encoding="no-such-encoding"?><a/>', b'<?xml version="1.0" encoding="utf-32"?><a/>',
    b'<?xml version="1.0" encoding="utf-16"?><a/>', b'<?xml version="2.0"?><a/>', b'\xff\xfe<\x00a\x00/\x00>\x00', b'\xef\xbb\xbf<a/>',
    b'<?xml version="1.0" encoding="ucs-4"?><a/>', b'<?xml version="1.0" encoding="cp037"?><a/>', b'<a xmlns:p=""/>', b'<p:a/>',
    b'<a a="1" a="2"/>', b'<!DOCTYPE a [<!ENTITY e "&e;">]><a>&e;</a>', b'<a><![CDATA[x]]', b'<a>]]></a>', b'<?xml version="1.0" encoding="latin-1"?><a>\xe9</a>',
    b'<?xml version="1.0" encoding="ascii"?><a>\xe9</a>', b'<?xml version="1.0" encoding="utf-7"?><a/>', b'<?xml version="1.0" encoding="idna"?><a/>',
    b'<?xml version="1.0" encoding="big5"?><a/>', b'<?xml version="1.0" encoding="rot13"?><a/>', b'<?xml version="1.0" encoding="base64"?><a/>',
]


# ------------------------------------------------------------------------------------------------
# translator: tables regenerated from the current source

def lean_str(s: str) -> str:
    return '"' + s.replace('\\', '\\\\').replace('"', '\\"') + '"'


def lean_list(items: list[str]) -> str:
    return '[' + ', '.join(items) + ']'


def mro_names(c: type) -> list[str]:
    return [k.__name__ for k in c.__mro__]


def exc_lean(c: type) -> str:
    return '⟨%s, %s⟩' % (lean_str(c.__name__), lean_list([lean_str(n) for n in mro_names(c)]))


def handler_names(node: ast.ExceptHandler) -> list[str]:
    t = node.type
    if t is None:
        return ['BaseException']
    if isinstance(t, ast.Tuple):
        return [getattr(e, 'id', getattr(e, 'attr', '?')) for e in t.elts]
    return [getattr(t, 'id', getattr(t, 'attr', '?'))]


def find_sites() -> list[tuple[str, list[str]]]:
    """The `try … except` sites around the conversions that C11 names, read from the AST of the current source."""
    sites: list[tuple[str, list[str]]] = []

    def calls(node: ast.AST, attr: str) -> bool:
        return any(isinstance(n, ast.Call) and isinstance(n.func, ast.Attribute) and n.func.attr == attr
                   for n in ast.walk(node))

    def tries_with(fn: ast.AST, attr: str) -> list[tuple[ast.Try, bool]]:
        """(try node, inside `if validation == 'skip'`) for every try whose BODY calls `.attr(`"""
        out = []

        def walk(node: ast.AST, in_skip: bool) -> None:
            for ch in ast.iter_child_nodes(node):
                if isinstance(ch, ast.If):
                    t = ch.test
                    is_skip = (isinstance(t, ast.Compare) and isinstance(t.left, ast.Name) and t.left.id == 'validation'
                               and len(t.comparators) == 1 and isinstance(t.comparators[0], ast.Constant)
                               and t.comparators[0].value == 'skip' and isinstance(t.ops[0], ast.Eq))
                    for b in ch.body:
                        walk_one(b, in_skip or is_skip)
                    for b in ch.orelse:
                        walk_one(b, in_skip)
                else:
                    walk_one(ch, in_skip)

        def walk_one(ch: ast.AST, in_skip: bool) -> None:
            if isinstance(ch, ast.Try) and any(calls(b, attr) for b in ch.body):
                out.append((ch, in_skip))
            walk(ch, in_skip)

        walk(fn, False)
        return out

    def method(path: str, cls: str, name: str) -> Optional[ast.AST]:
        tree = ast.parse((REPO / path).read_text(encoding='utf-8-sig'))
        for n in ast.walk(tree):
            if isinstance(n, ast.ClassDef) and n.name == cls:
                for m in n.body:
                    if isinstance(m, ast.FunctionDef) and m.name == name:
                        return m
        return None

    fn = method('xmlschema/validators/simple_types.py', 'XsdAtomicBuiltin', 'raw_decode')
    if fn is not None:
        for t, in_skip in tries_with(fn, 'to_python'):
            hs: list[str] = []
            for h in t.handlers:
                hs.extend(handler_names(h))
            sites.append(('builtin.to_python:' + ('skip' if in_skip else 'validate'), sorted(set(hs))))
    fn = method('xmlschema/validators/groups.py', 'XsdGroup', 'raw_decode')
    if fn is not None:
        for t, _ in tries_with(fn, 'check_dynamic_context'):
            hs = []
            for h in t.handlers:
                hs.extend(handler_names(h))
            sites.append(('group.check_dynamic_context', sorted(set(hs))))
    fn = method('xmlschema/validators/elements.py', 'XsdElement', 'raw_decode')
    if fn is not None:
        for t, _ in tries_with(fn, 'get_instance_type'):
            hs = []
            for h in t.handlers:
                hs.extend(handler_names(h))
            sites.append(('element.get_instance_type', sorted(set(hs))))
    fn = method('xmlschema/validators/assertions.py', 'XsdAssert', '__call__')
    if fn is not None:
        for t, _ in tries_with(fn, 'evaluate'):
            hs = []
            for h in t.handlers:
                hs.extend(handler_names(h))
            sites.append(('assertion.evaluate', sorted(set(hs))))
    for meth in ('_parse', '_lazy_iterparse'):
        fn = method('xmlschema/resources/xml_loader.py', 'XMLResourceLoader', meth)
        if fn is not None:
            for t, _ in tries_with(fn, '_iterparse'):
                hs = []
                for h in t.handlers:
                    hs.extend(handler_names(h))
                sites.append(('xml_loader.' + meth, sorted(set(hs))))
    return sorted(set((n, tuple(h)) for n, h in sites))  # type: ignore


def observe_raisable() -> dict[str, list[type]]:
    """Exception classes that the code under the handler sites can raise (observed, listed in the trusted base)."""
    import xmlschema
    conv: dict[str, type] = {}
    for cls in (xmlschema.XMLSchema10, xmlschema.XMLSchema11):
        s = cls('<xs:schema xmlns:xs="http://www.w3.org/2001/XMLSchema"/>')
        for name, t in sorted(s.maps.types.items()):
            if not hasattr(t, 'to_python'):
                continue
            for v in CATALOGUE:
                try:
                    t.to_python(v)
                except Exception as e:  # noqa
                    conv[type(e).__name__] = type(e)
    xsi: dict[str, type] = {}
    s = xmlschema.XMLSchema10(G.xsd_text('T', False))
    base = s.types['base']
    for name in ('t:ext', 't:other', 't:nonexistent', 'zz:base', 'nonexistent', 't:code', '', 't:', ':x', 'xs:int'):
        try:
            s.maps.get_instance_type(name, base, {'t': G.TNS, 'xs': 'http://www.w3.org/2001/XMLSchema'})
        except Exception as e:  # noqa
            xsi[type(e).__name__] = type(e)
    # XSD 1.1 assertions: exceptions that reach XsdAssert.__call__ from the XPath machinery
    asrt: dict[str, type] = {}
    import xmlschema.validators.assertions as A
    s11 = xmlschema.XMLSchema11(G.xsd_text('T', True))
    px = 'xmlns:p="urn:t" xmlns:xsi="%s"' % G.XSI
    orig_call = A.XsdAssert.__call__

    def spy(self, *a, **k):  # type: ignore
        try:
            return orig_call(self, *a, **k)
        except xmlschema.XMLSchemaValidationError:
            raise
        except Exception as e:  # noqa
            asrt[type(e).__name__] = type(e)
            raise
    A.XsdAssert.__call__ = spy  # type: ignore
    try:
        for body in ('<p:price>NaN</p:price>', '<p:price>abc</p:price>', '<p:price>-1</p:price>', '<p:price>1</p:price>',
                     '<p:code xsi:type=":">A</p:code><p:price>1</p:price>', '<p:code xsi:type="a:b:c">A</p:code><p:price>1</p:price>',
                     '<p:price>1e999999</p:price>', '<p:price>' + '9' * 500 + '</p:price>', '<p:price/>', ''):
            try:
                s11.is_valid('<p:root %s version="2"><p:title>x</p:title><p:item key="1">%s</p:item></p:root>' % (px, body))
            except Exception:  # noqa
                pass
    finally:
        A.XsdAssert.__call__ = orig_call  # type: ignore
    parse: dict[str, type] = {}
    from xml.etree import ElementTree as ET
    for data in PARSE_CATALOGUE:
        try:
            for _ in ET.iterparse(io.BytesIO(data), events=('start-ns', 'end-ns', 'start', 'comment', 'pi', 'end')):
                pass
        except Exception as e:  # noqa
            parse[type(e).__name__] = type(e)
    return {'assertion.evaluate': [asrt[k] for k in sorted(asrt)],
            'xml_loader._parse': [parse[k] for k in sorted(parse)],
            'xml_loader._lazy_iterparse': [parse[k] for k in sorted(parse)],
            'builtin.to_python:skip': [conv[k] for k in sorted(conv)],
            'builtin.to_python:validate': [conv[k] for k in sorted(conv)],
            'group.check_dynamic_context': [xsi[k] for k in sorted(xsi)],
            'element.get_instance_type': [xsi[k] for k in sorted(xsi)]}


def library_classes() -> list[type]:
    import xmlschema
    import xmlschema.exceptions
    import xmlschema.validators.exceptions
    seen: dict[str, type] = {}

    def rec(c: type) -> None:
        if c.__name__ in seen:
            return
        seen[c.__name__] = c
        for sub in c.__subclasses__():
            if sub.__module__.startswith('xmlschema'):
                rec(sub)
    rec(xmlschema.XMLSchemaException)
    for mod in (xmlschema.exceptions, xmlschema.validators.exceptions):
        for n in dir(mod):
            o = getattr(mod, n)
            if isinstance(o, type) and issubclass(o, BaseException) and o.__module__.startswith('xmlschema'):
                seen.setdefault(o.__name__, o)
    return [seen[k] for k in sorted(seen)]


FOREIGN_SAMPLES = [RecursionError, OverflowError, KeyError, ValueError, TypeError, AttributeError, IndexError, MemoryError,
                   UnicodeDecodeError, UnicodeEncodeError, AssertionError, OSError, SyntaxError, ZeroDivisionError, LookupError,
                   ArithmeticError, RuntimeError, StopIteration]


def probe_limits() -> tuple[dict[str, int], dict[str, int]]:
    """Defaults and the smallest accepted value of every limit, by calling the real setter."""
    from xmlschema import limits, _limits
    from xmlschema.exceptions import XMLSchemaValueError
    defaults = {a: getattr(_limits, py) for a, py in LIMIT_ATTRS}
    minima: dict[str, int] = {}
    for a, py in LIMIT_ATTRS:
        saved = getattr(limits, py)
        try:
            lo = None
            for v in range(-2, 64):
                try:
                    setattr(limits, py, v)
                except XMLSchemaValueError:
                    continue
                lo = v
                break
            minima[a] = lo if lo is not None else 10 ** 9
        finally:
            setattr(limits, py, saved)
    return defaults, minima


def table_classes() -> dict[str, type]:
    import xml.etree.ElementTree as ET
    import decimal
    classes: dict[str, type] = {}
    for c in library_classes() + FOREIGN_SAMPLES + [ET.ParseError, decimal.InvalidOperation, decimal.DecimalException]:
        classes[c.__name__] = c
    try:
        import elementpath
        for n in ('ElementPathError', 'ElementPathValueError', 'ElementPathTypeError', 'ElementPathKeyError'):
            if hasattr(elementpath, n):
                classes[n] = getattr(elementpath, n)
    except Exception:  # noqa
        pass
    try:
        import lxml.etree as LE
        classes['XMLSyntaxError'] = LE.XMLSyntaxError
    except Exception:  # noqa
        pass
    for lst in observe_raisable().values():
        for c in lst:
            classes[c.__name__] = c
    return classes


SWITCH_CALLEES = ('raw_decode', 'raw_encode', 'text_decode', 'decode', 'encode', 'iter_decode', 'iter_encode', 'iter_errors')


def recursion_guard() -> bool:
    """Does XsdElement.raw_decode catch RecursionError around the call of the content decoder?  (AST of the source)"""
    tree = ast.parse((REPO / 'xmlschema/validators/elements.py').read_text(encoding='utf-8-sig'))
    for n in ast.walk(tree):
        if isinstance(n, ast.ClassDef) and n.name == 'XsdElement':
            for m in n.body:
                if isinstance(m, ast.FunctionDef) and m.name == 'raw_decode':
                    for t in ast.walk(m):
                        if isinstance(t, ast.Try) and any('RecursionError' in handler_names(h) for h in t.handlers) and \
                                any(isinstance(c, ast.Call) and isinstance(c.func, ast.Attribute) and c.func.attr == 'raw_decode'
                                    for b in t.body for c in ast.walk(b)):
                            return True
    return False


def translate(ctx: Optional[Ctx]) -> None:
    import xmlschema
    classes = table_classes()
    public = [n for n in xmlschema.__all__ if isinstance(getattr(xmlschema, n), type)
              and issubclass(getattr(xmlschema, n), Exception) and not issubclass(getattr(xmlschema, n), Warning)]
    lib = [c.__name__ for c in library_classes() if issubclass(c, Exception) and not issubclass(c, Warning)]
    defaults, minima = probe_limits()
    sites = find_sites()
    raisable = observe_raisable()
    raise_sites = sorted(SITES.sites(REPO), key=lambda x: (x['key'].rsplit('#', 1)[0], int(x['key'].rsplit('#', 1)[1])))
    switches = [w for w in SITES.mode_switches(REPO) if w['callee'] in SWITCH_CALLEES]
    lines = [
        '/-  GENERATED by harness/props/c11.py (translate) from the source tree under check — do not edit.',
        '    Tables only: exception classes with their MRO, public error classes, limit defaults / minima probed',
        '    through the real setter, the handler lists of the conversion sites (read from the AST) and the',
        '    exception classes observed under those sites. -/',
        'import XsVerif.Model.Limits',
        'import XsVerif.Model.RaisePolicy',
        'namespace XsVerif.Generated.C11',
        'open XsVerif.Limits',
        '',
        'def excTable : List Exc := [',
        ',\n'.join('  ' + exc_lean(classes[k]) for k in sorted(classes)),
        ']',
        '',
        '/-- exception (non-warning) classes exported by `xmlschema.__all__` -/',
        'def publicErrors : List String := ' + lean_list([lean_str(n) for n in sorted(public)]),
        '',
        '/-- every exception (non-warning) class defined in the package\'s exception modules -/',
        'def libraryErrors : List String := ' + lean_list([lean_str(n) for n in sorted(set(lib) | set(public))]),
        '',
        'def limitDefaults : Limits := ⟨%d, %d, %d, %d⟩' % tuple(defaults[a] for a, _ in LIMIT_ATTRS),
        '',
        '/-- smallest value accepted by `xmlschema.limits.<attr> = v` (probed) -/',
        'def limitMinima : List (Limit × Int) := ' + lean_list(['(.%s, %d)' % (a, minima[a]) for a, _ in LIMIT_ATTRS]),
        '',
        '/-- handler lists of the conversion sites, from the AST of the current source -/',
        'def sites : List Site := ' + lean_list(['⟨%s, %s⟩' % (lean_str(n), lean_list([lean_str(h) for h in hs]))
                                                   for n, hs in sites]),
        '',
        '/-- exception classes observed under each site (catalogue of lexical values / xsi:type names) -/',
        'def raisable : List (String × List Exc) := [',
        ',\n'.join('  (%s, %s)' % (lean_str(n), lean_list([exc_lean(c) for c in raisable.get(n, [])])) for n, _ in sites),
        ']',
        '',
        '/-- every `raise` statement of xmlschema/validators (AST of the current source, harness/lib_c11sites.py):',
        '    key = module:function:class, k-th raise of that key, class, enclosing mode test, reachable from the descent;',
        '    sorted by key, then index (the order `RaisePolicy.classifyAll` walks) -/',
        'def raiseSites : List XsVerif.RaisePolicy.RaiseSite := [',
        ',\n'.join('  ⟨%s, %d, %s, .%s, %s⟩' % (lean_str(x['key'].rsplit('#', 1)[0]), int(x['key'].rsplit('#', 1)[1]), lean_str(x['cls']),
                                                  x['guard'], 'true' if x['reachable'] else 'false') for x in raise_sites),
        ']',
        '',
        '/-- calls inside the descent that start a sub-descent in a LITERAL validation mode, with the classes listed by the',
        '    enclosing handlers (AST) -/',
        'def modeSwitches : List XsVerif.RaisePolicy.ModeSwitch := ' + lean_list(
            ['⟨%s, %s, %s, %s⟩' % (lean_str(w['func']), lean_str(w['callee']), lean_str(w['mode']), lean_list([lean_str(h) for h in w['handlers']]))
             for w in switches]),
        '',
        '/-- XsdElement.raw_decode / raw_encode translate a RecursionError of the content descent into a library error',
        '    (`except RecursionError` around the recursive call: notes/fixes/C11-recursion-error-resource-exceeded.patch) -/',
        'def recursionGuard : Bool := %s' % ('true' if recursion_guard() else 'false'),
        '',
        'end XsVerif.Generated.C11',
        '',
    ]
    text = '\n'.join(lines)
    GENERATED.parent.mkdir(exist_ok=True)
    if not GENERATED.exists() or GENERATED.read_text() != text:
        GENERATED.write_text(text)
    if ctx is not None:
        ctx.extra['generated'] = {'exception_classes': len(classes), 'public_errors': len(public), 'sites': [n for n, _ in sites],
                                  'limit_defaults': defaults, 'limit_minima': minima,
                                  'raise_sites': len(raise_sites), 'raise_sites_reachable': sum(1 for x in raise_sites if x['reachable']),
                                  'recursion_guard': recursion_guard()}


if __name__ == '__main__':
    sys.path.insert(0, str(REPO))
    translate(None)
    print(GENERATED.read_text()[:3000])


# ================================================================================================
# the check

RULE = ('limit cases: one (limit setting, document, eager|lazy) — chains / wide / comb documents at limit-1, limit, '
        'limit+1 and random forests; non-trivial = the document is refused, or its depth or size is within 1 of a limit; '
        'setter cases: one assignment sequence, non-trivial = contains a rejected assignment; fuzz cases: one '
        '(schema, mutated document, entry point family); non-trivial = the outcome is not "valid" (invalid verdict, '
        'library error or foreign exception); handler cases: one (site, type, lexical value); policy cases: one (raise statement, '
        'mode) that was executed, and one distinct script of executed raise statements; descent cases: one (entry point, '
        'recursion limit) at its smallest overflowing depth; encode cases: one (schema, converter, decoded or mutated data), '
        'non-trivial = mutated or not encoded to a result; options / lists cases: one (document, API, option set), non-trivial = '
        'an option is set or the outcome is not a verdict; distinct by canonical JSON')
TRUSTED = [
    'termination and the absence of foreign exceptions in the interpreter are runtime facts: monitored by the '
    'mutation/fuzz exploration of this run, not proved',
    'the event stream given to the model is produced by xml.etree.ElementTree.iterparse on the same bytes (expat)',
    'the raise-site table is extracted from the AST by harness/lib_c11sites.py (name-based, over-approximating call graph); the '
    'classification of the sites (Model/RaisePolicy.lean `policyBase`) is hand-maintained: it is tied to the code by the table '
    'theorems (a new / moved / removed raise breaks them) and by the run-time observation of every raise (sys.monitoring), which '
    'covers only the sites that the exploration of this run executes',
    'the exception classes "raisable" under each conversion site are observed (catalogue of lexical values) and '
    'regenerated into lean/XsVerif/Generated/C11.lean on every run; handler lists are read from the AST of the source',
]
ASSUMPTIONS = [
    'documents given as already parsed ElementTree/lxml trees are outside the limit clauses (the loader does not parse them)',
    'the policy theorems speak of a BUILT schema and of documents handed to the documented entry points with well-typed arguments '
    '(kinds buildTime / notBuilt / abstractStub / invariant / apiArgument are excluded by these hypotheses, and the run-time '
    'observation reports any of them that fires); hooks that return the mode strict are not part of the lax clause',
    'encoding is outside the statement of C11: foreign exceptions of schema.encode on mutated data are the listed finding C11-F18 '
    '(matched by call site), every other outcome of the encode part is judged like decoding',
    'C11-F2: RecursionError for documents nested deeper than the interpreter stack allows is a listed finding, '
    'matched exactly by (class RecursionError, depth >= smallest failing depth measured on this run)',
]

RECURSIVE_XSD = '''<xs:schema xmlns:xs="http://www.w3.org/2001/XMLSchema">
<xs:element name="n"><xs:complexType mixed="true"><xs:sequence>
  <xs:element ref="n" minOccurs="0" maxOccurs="unbounded"/></xs:sequence>
  <xs:attribute name="a" type="xs:int"/></xs:complexType></xs:element></xs:schema>'''


def local_findings() -> list[dict]:
    if FINDINGS_FILE.exists():
        return json.loads(FINDINGS_FILE.read_text()).get('findings', [])
    return []


class State:
    d0: Optional[int] = None          # smallest document depth at which the descent raises RecursionError
    max_xml_depth: int = 1000


# call sites of finding C11-F18 (encoding direction, outside the statement of C11): "file function" of the innermost frame
# inside the xmlschema package
ENCODE_SITES = [r'converters/\w+\.py \w+', r'dataobjects\.py \w+', r'namespaces\.py \w+', r'caching\.py \w+', r'validators/\w+\.py \w+',
                r'xpath/\w+\.py \w+', r'utils/\w+\.py \w+', r'\w+\.py \w+']
# (the encode part found leaks below every module that raw_encode reaches — converters, from_python conversions of
# the simple types, the model visitor fed with unhashable tags, root selection by XPath …: the family is matched by the
# ENTRY POINT (schema.encode / to_etree of the encode part), the innermost frame must lie in the package)


def known_match(case: dict, detail: Any) -> Optional[str]:
    """Exact rules of notes/findings/C11.json."""
    if not isinstance(detail, dict):
        return None
    import html
    if isinstance(case.get('xml'), str) and '&' in case['xml']:
        case = dict(case, xml_raw=case['xml'])
        case['xml'] = html.unescape(case['xml'])
    exc = detail.get('exc')
    if exc == 'RecursionError':
        d = case.get('depth')
        if State.d0 is not None and isinstance(d, int) and State.d0 <= d <= State.max_xml_depth:
            return 'C11-F2'
        return None
    if exc == 'XMLResourceExceeded' and RECURSION_MSG in (detail.get('msg') or ''):
        # the repaired descent: the same documents are refused with the resource error instead of processed
        d = case.get('depth')
        if State.d0 is not None and isinstance(d, int) and State.d0 <= d <= State.max_xml_depth:
            return 'C11-F16'
        return None
    if detail.get('direction') == 'encode' and str(detail.get('entry', '')).split(':')[0] in ('encode', 'to_etree+path'):
        wh0 = [re.sub(r':\d+', '', w) for w in (detail.get('where') or []) if not w.startswith('@')]
        if wh0 and any(re.fullmatch(pat, wh0[-1]) for pat in ENCODE_SITES):
            return 'C11-F18'
        return None
    if exc in ('AssertionError', 'AttributeError', 'TypeError', 'KeyError', 'IndexError') or \
            (exc == 'XMLResourceError' and 'already under iteration' in (detail.get('msg') or '')):
        # C11-F17: the value of a depth filler (the chunk decoder that iter_decode installs for a lazy resource) reaches
        # the element_decode of a converter that assumes items it built itself
        wh17 = [w for w in (detail.get('where') or []) if not w.startswith('@')]
        if (case.get('lazy') or (case.get('options') or {}).get('depth_filler')) and \
                any(re.search(r'dataobjects\.py:\d+ element_decode$', w) for w in wh17):
            return 'C11-F17'      # data-object converters: fixed by 796bccf (a recurrence is a violation)
        if (case.get('lazy') or (case.get('options') or {}).get('depth_filler')) and \
                any(re.search(r'converters/(badgerfish|columnar|gdata)\.py:\d+ element_decode$', w) for w in wh17):
            return 'C11-F19'      # the same defect in the BadgerFish / Columnar / GData converters (not repaired)
        if exc in ('AssertionError', 'AttributeError', 'KeyError', 'IndexError'):
            return None
    if exc == 'OverflowError' and detail.get('mode') == 'skip':
        if re.search(r'\d{10,}', case.get('xml', '') + str(case.get('value', ''))):
            return 'C11-F4'
        return None
    wh_all = detail.get('where') or []
    origin = next((w for w in wh_all if w.startswith('@')), '')
    wh = [w for w in wh_all if not w.startswith('@')]
    if exc == 'ValueError' and detail.get('msg') == 'embedded null byte':
        data = case_bytes(case)
        if data is not None and b'\x00' in data and not data.lstrip(b' \t\r\n\xef\xbb\xbf').startswith(b'<'):
            return 'C11-F10'
        return None
    if exc == 'ValueError':
        m = re.match(r"wrong format for (?:reference name|prefixed QName) '(.*)'$", detail.get('msg') or '')
        if m and re.search(r'''xsi:type=(["'])\s*%s\s*\1''' % re.escape(m.group(1)), case.get('xml', '')):
            return 'C11-F9'
        if m and origin == '@elementpath/namespaces.py get_expanded_name' and re.search(r'xsi:type\s*=', case.get('xml', '')):
            return 'C11-F9'     # (value with characters that repr() escapes)
    if wh and re.search(r'validators/assertions\.py:\d+ __call__$', wh[-1]) and \
            exc in ('InvalidOperation', 'OverflowError', 'ZeroDivisionError', 'DivisionByZero', 'DecimalException', 'ArithmeticError'):
        return 'C11-F8'
    if exc.startswith('ElementPath') and 'invalid URI in an EQName' in (detail.get('msg') or '') and len(wh) >= 2 and \
            re.search(r'validators/schemas\.py:\d+ iter_errors$', wh[-2]) and re.search(r'xpath/mixin\.py:\d+ findall$', wh[-1]) \
            and str(detail.get('entry', '')).startswith('lazy.'):
        return 'C11-F11'
    if exc in ('LookupError', 'ValueError', 'UnicodeError'):
        data = case_bytes(case)
        if data is not None:
            from xml.etree import ElementTree as ET
            try:
                for _ in ET.iterparse(io.BytesIO(data), events=('start',)):
                    pass
            except (LookupError, ValueError) as e:
                if type(e).__name__ == exc and str(e)[:100000] == detail.get('msg'):
                    return 'C11-F6'
            except Exception:  # noqa
                pass
        return None
    if exc == 'XMLSchemaKeyError':
        msg = detail.get('msg', '')
        m = re.search(r"the namespace '([^']*)' is not loaded", msg)
        if m and re.search(r'(decode|to_dict)', detail.get('entry', '')):
            data = case_bytes(case)
            if data is not None and root_namespace(data) == m.group(1):
                return 'C11-F7'
            return None
        if 'global component' in msg and 'not found' in msg and \
                any(re.search(r'validators/groups\.py:\d+ check_dynamic_context$', w) for w in wh) and \
                re.search(r'xsi:type\s*=', case.get('xml', '')):
            # identified by call site: the look-up of the xsi:type of a CHILD element in XsdGroup.raw_decode
            return 'C11-F5'
    return None


def case_bytes(case: dict) -> Optional[bytes]:
    if case.get('hex'):
        return bytes.fromhex(case['hex'])
    if case.get('xml_raw') is not None:
        return case['xml_raw'].encode('utf-8', 'surrogatepass')
    if case.get('xml') is not None:
        return case['xml'].encode('utf-8', 'surrogatepass')
    return None


def root_namespace(data: bytes) -> Optional[str]:
    from xml.etree import ElementTree as ET
    try:
        for _, el in ET.iterparse(io.BytesIO(data), events=('start',)):
            return el.tag[1:].split('}')[0] if el.tag.startswith('{') else ''
    except Exception:  # noqa
        return None
    return None


def report(ctx: Ctx, what: str, case: dict, detail: Any) -> None:
    fid = known_match(case, detail)
    if fid and any(e['id'] == fid and e.get('status') == 'known' for e in ctx.known):
        ctx.known_hit(fid, case, detail)
    else:
        ctx.failure(what, case, detail)


# ------------------------------------------------------------------------------------------------
# documents as forests

def forest_xml(f: Any, rng: Any = None) -> str:
    """f = list of (junk, children) — a forest; serialised with `junk` comments / PIs before each element.
    Iterative (documents of depth 1000 and more are generated)."""
    out: list[str] = []
    stack: list[Any] = [('nodes', f, 0, 0)]
    while stack:
        item = stack.pop()
        if item[0] == 'close':
            out.append('</n>')
            continue
        _, nodes, idx, level = item
        if idx >= len(nodes):
            continue
        junk, children = nodes[idx]
        for k in range(junk):
            out.append('<!--j-->' if (k + level) % 2 == 0 else '<?j x?>')
        stack.append(('nodes', nodes, idx + 1, level))
        if children:
            out.append('<n>')
            stack.append(('close',))
            stack.append(('nodes', children, 0, level + 1))
        else:
            out.append('<n/>')
    return ''.join(out)


def forest_depth(f: list) -> int:
    best = 0
    stack = [(f, 0)]
    while stack:
        nodes, d = stack.pop()
        for _, c in nodes:
            best = max(best, d + 1)
            if c:
                stack.append((c, d + 1))
    return best


def forest_size(f: list) -> int:
    n = 0
    stack = [f]
    while stack:
        nodes = stack.pop()
        n += len(nodes)
        for _, c in nodes:
            if c:
                stack.append(c)
    return n


def chain(d: int) -> list:
    f: list = []
    for _ in range(d):
        f = [(0, f)]
    return f


def wide(c: int) -> list:
    return [(0, [(0, []) for _ in range(c - 1)])] if c >= 1 else []


def comb(depth: int, count: int) -> list:
    """A document of exactly `depth` levels and `count` elements (count >= depth >= 1)."""
    spine = chain(depth)
    extra = count - depth
    node = spine[0]
    # hang the extra leaves below the root (or next to it when depth == 1 — then it is not a document; avoided)
    kids = list(node[1]) + [(0, []) for _ in range(extra)]
    return [(0, kids)]


def random_forest(rng: Any, max_depth: int, max_size: int) -> list:
    budget = [rng.randint(1, max_size)]

    def kids(level: int) -> list:
        out = []
        while budget[0] > 0 and rng.random() < (0.75 if level < max_depth else 0.0):
            budget[0] -= 1
            junk = rng.choice([0, 0, 0, 1, 2])
            out.append((junk, kids(level + 1) if rng.random() < 0.6 else []))
        return out
    budget[0] -= 1
    return [(rng.choice([0, 0, 1]), kids(1))]


def events_of(data: bytes) -> Optional[str]:
    from xml.etree import ElementTree as ET
    m = {'start': 's', 'end': 'e'}
    try:
        return ''.join(m.get(ev, 'o') for ev, _ in ET.iterparse(
            io.BytesIO(data), events=('start', 'end', 'start-ns', 'end-ns', 'comment', 'pi')))
    except (ET.ParseError, LookupError, ValueError):
        return None


def resource_outcome(data: bytes, lazy: bool) -> dict:
    """Build the resource and traverse it completely."""
    import xmlschema
    try:
        r = xmlschema.XMLResource(data, lazy=lazy)
        n = sum(1 for _ in r.iter())
        return {'res': 'ok', 'n': n}
    except __import__("xmlschema.exceptions").exceptions.XMLResourceExceeded as e:
        msg = str(e)
        return {'res': 'depth' if 'maximum XML depth' in msg else 'elements' if 'maximum XML elements' in msg else 'exceeded?',
                'exc': type(e).__name__, 'library': isinstance(e, xmlschema.XMLSchemaException)}
    except RecursionError as e:
        return {'res': 'exc', 'exc': 'RecursionError', 'msg': str(e)[:100]}
    except Exception as e:  # noqa
        return {'res': 'exc', 'exc': type(e).__name__, 'msg': str(e)[:200]}


class LimitSetting:
    def __init__(self, depth: int, elements: int):
        self.depth, self.elements = depth, elements

    def __enter__(self) -> 'LimitSetting':
        from xmlschema import limits
        self.saved = (limits.MAX_XML_DEPTH, limits.MAX_XML_ELEMENTS)
        limits.MAX_XML_DEPTH = self.depth
        limits.MAX_XML_ELEMENTS = self.elements
        State.max_xml_depth = self.depth
        return self

    def __exit__(self, *a: Any) -> None:
        from xmlschema import limits
        limits.MAX_XML_DEPTH, limits.MAX_XML_ELEMENTS = self.saved
        State.max_xml_depth = self.saved[0]


def limit_case(ctx: Ctx, L: int, E: int, f: list, kind: str, reqs: Optional[list], pend: Optional[list],
               schema: Any = None) -> None:
    xml = forest_xml(f)
    data = xml.encode()
    depth, size = forest_depth(f), forest_size(f)
    evs = events_of(data)
    for lazy in (False, True):
        case = {'limits': {'MAX_XML_DEPTH': L, 'MAX_XML_ELEMENTS': E}, 'kind': kind, 'depth': depth, 'size': size,
                'lazy': lazy, 'xml': xml if len(xml) < 600 else None, 'forest': f if len(xml) >= 600 and size < 400 else None,
                'gen': None if len(xml) < 600 or size < 400 else {'chain': depth, 'elements': size}}
        out = resource_outcome(data, lazy)
        over_depth = depth > L
        over_size = (size > E) and not lazy
        near = abs(depth - L) <= 1 or abs(size - E) <= 1
        ctx.case(case, out['res'] != 'ok' or near, tag='limit/%s/%s' % ('lazy' if lazy else 'eager', kind))
        ctx.count('limit-outcome:%s' % out['res'])
        # the property itself
        if out['res'] == 'exc':
            report(ctx, 'building / traversing the resource raised something else than the documented resource error',
                   case, {'exc': out['exc'], 'msg': out.get('msg'), 'entry': 'XMLResource'})
        elif out['res'] != 'ok' and not out.get('library'):
            ctx.failure('the refusal is not an exception of the library hierarchy (documented: XMLResourceExceeded < XMLResourceError)',
                        case, out)
        elif (over_depth or over_size) and out['res'] == 'ok':
            ctx.failure('a document over a limit was processed instead of being refused with XMLResourceExceeded', case, out)
        elif not (over_depth or over_size) and out['res'] != 'ok':
            ctx.failure('a document within the limits was refused', case, out)
        if reqs is not None and evs is not None:
            reqs.append({'op': 'parse', 'L': L, 'E': E, 'events': evs})
            pend.append(('parse', case, out, lazy))
    # "documents within the limits are processed": the validator gives a verdict for them
    if schema is not None and depth <= L and size <= E:
        case = {'limits': {'MAX_XML_DEPTH': L, 'MAX_XML_ELEMENTS': E}, 'kind': kind + '/validate', 'depth': depth, 'size': size,
                'xml': xml if len(xml) < 600 else None, 'gen': {'chain': depth, 'elements': size}}
        for name, fn in (('is_valid', lambda: schema.is_valid(data)), ('decode:lax', lambda: schema.decode(data, validation='lax')),
                         ('lazy is_valid', lambda: schema.is_valid(__import__('xmlschema').XMLResource(data, lazy=True)))):
            o = call(fn)
            ctx.case(dict(case, entry=name), o['class'] != 'verdict', tag='limit/validate')
            ctx.count('validate-within-limits:%s' % (o.get('exc') or 'verdict'))
            if o['class'] != 'verdict':
                report(ctx, 'a document within the limits was not processed to a verdict', case,
                       {'exc': o.get('exc'), 'msg': o.get('msg'), 'entry': name, 'mode': 'lax'})


def call(fn: Callable[[], Any]) -> dict:
    """Outcome class of one call on the real code: verdict | library | foreign (by isinstance, independent of Lean)."""
    import xmlschema
    try:
        r = fn()
        return {'class': 'verdict', 'value': r if isinstance(r, bool) else None}
    except xmlschema.XMLSchemaException as e:
        return {'class': 'library', 'exc': type(e).__name__, 'msg': str(e)[:100000], 'where': where(e), 'origin': origin(e),
                'validation_error': isinstance(e, xmlschema.XMLSchemaValidationError)}
    except BaseException as e:  # noqa
        if isinstance(e, (KeyboardInterrupt, SystemExit)):
            raise
        return {'class': 'foreign', 'exc': type(e).__name__, 'msg': str(e)[:100000], 'where': where(e), 'origin': origin(e)}


def origin(e: BaseException) -> Optional[tuple[str, int]]:
    """(module, line) of the statement that raised, when it lies in xmlschema/validators"""
    tb = e.__traceback__
    last = None
    while tb is not None:
        last = tb
        tb = tb.tb_next
    if last is None:
        return None
    fn = last.tb_frame.f_code.co_filename
    if '/xmlschema/validators/' in fn:
        return (Path(fn).stem, last.tb_lineno)
    return None


class RaiseMonitor:
    """Observes every exception raised by a statement of xmlschema/validators while a call runs (sys.monitoring RAISE
    events): the sequence of `raise` statements of the regenerated table that were executed, in order."""
    TOOL = 3

    def __init__(self) -> None:
        self.by_line: dict[tuple[str, int], tuple[str, int]] = {}
        for x in SITES.sites(REPO):
            key, idx = x['key'].rsplit('#', 1)
            self.by_line[(x['module'], x['line'])] = (key, int(idx))
        # call sites that start a sub-descent in a literal mode: (module, line) -> mode
        # (only the shielded ones: the caller catches validation errors — `validate()` is the strict entry point itself)
        self.switch_lines = {(w['func'].split(':')[0], w['line']): w['mode'] for w in SITES.mode_switches(REPO)
                             if w['callee'] in SWITCH_CALLEES and
                             {'XMLSchemaValidationError', 'ValueError', 'Exception'} & set(w['handlers'])}
        self.fired: list[tuple[str, int, Optional[str]]] = []
        self.active = False
        self.ok = hasattr(sys, 'monitoring')
        self._stems: dict[str, Optional[str]] = {}

    def _stem(self, filename: str) -> Optional[str]:
        st = self._stems.get(filename)
        if st is None and filename not in self._stems:
            st = Path(filename).stem if '/xmlschema/validators/' in filename else None
            self._stems[filename] = st
        return st

    def _on_raise(self, code: Any, offset: int, exc: BaseException) -> None:
        st = self._stem(code.co_filename)
        if st is None or not self.active:
            return
        tb = exc.__traceback__
        line = None
        # the line of this frame: the last traceback entry belongs to the raising frame at RAISE time
        while tb is not None:
            if tb.tb_frame.f_code is code:
                line = tb.tb_lineno
            tb = tb.tb_next
        if line is None:
            for ln in code.co_lines():
                if ln[0] <= offset < ln[1]:
                    line = ln[2]
                    break
        site = self.by_line.get((st, line))
        if site is not None:
            # is the statement inside a sub-descent started by a mode switch?  (frames between it and the entry point)
            nested = None
            f = sys._getframe(1)
            n = 0
            while f is not None and n < 40:
                fst = self._stem(f.f_code.co_filename)
                if fst is not None:
                    md = self.switch_lines.get((fst, f.f_lineno))
                    if md is not None:
                        nested = md
                        break
                f = f.f_back
                n += 1
            self.fired.append((site[0], site[1], nested))

    def __enter__(self) -> 'RaiseMonitor':
        if self.ok:
            m = sys.monitoring
            try:
                m.use_tool_id(self.TOOL, 'c11')
            except ValueError:
                self.ok = False
                return self
            m.register_callback(self.TOOL, m.events.RAISE, self._on_raise)
            m.set_events(self.TOOL, m.events.RAISE)
        return self

    def __exit__(self, *a: Any) -> None:
        if self.ok:
            m = sys.monitoring
            m.set_events(self.TOOL, 0)
            m.register_callback(self.TOOL, m.events.RAISE, None)
            m.free_tool_id(self.TOOL)

    def watch(self, fn: Callable[[], Any]) -> tuple[dict, list[tuple[str, int, Optional[str]]]]:
        self.fired = []
        self.active = True
        try:
            o = call(fn)
        finally:
            self.active = False
        return o, self.fired


class PolicyObs:
    """What the raise statements did on this run: per (site, mode of the entry point) fired / escaped, and the distinct
    scripts (sequence of executed raise statements of one call) with the way the call ended."""
    def __init__(self) -> None:
        self.sites: dict[tuple[str, int, str], dict] = {}
        self.scripts: dict[tuple, dict] = {}
        self.encode_sites: dict[tuple[str, int], int] = {}
        self.calls = 0

    def add(self, mode: str, fired: list, o: dict, mon: RaiseMonitor, case: dict, encode: bool = False) -> None:
        """mode: the mode of the entry point (n/a for resource construction: nothing of the validators runs there)"""
        if mode not in ('strict', 'lax', 'skip'):
            return
        if encode:
            # encoding: the argument-dependent sites (no element selectable for the data …) do fire; only the
            # classification of the executed statements is compared
            self.calls += 1
            for key, idx, nested in fired:
                self.encode_sites.setdefault((key, idx), 0)
                self.encode_sites[key, idx] += 1
            return
        self.calls += 1
        esc = None
        if o['class'] != 'verdict' and o.get('origin') is not None:
            esc = mon.by_line.get(tuple(o['origin']))
        for key, idx, nested in fired:
            rec = self.sites.setdefault((key, idx, nested or mode), {'fired': 0, 'escaped': 0, 'example': None})
            rec['fired'] += 1
            if rec['example'] is None:
                rec['example'] = {k: case.get(k) for k in ('schema', 'mutation', 'xml', 'hex', 'entry')}
        if esc is not None:
            rec = self.sites.setdefault((esc[0], esc[1], mode), {'fired': 0, 'escaped': 0, 'example': None})
            rec['escaped'] += 1
        if len(fired) <= 60:
            key = (mode, tuple(fired), esc, o.get('exc') if o['class'] != 'verdict' else None)
            if key not in self.scripts and len(self.scripts) < 4000:
                self.scripts[key] = {k: case.get(k) for k in ('schema', 'mutation', 'xml', 'hex', 'entry')}


STATE_MON: dict[str, Any] = {'mon': None, 'obs': None}


def where(e: BaseException) -> list[str]:
    """innermost frames of the traceback that lie in the package under check (file:line function)"""
    frames: list[tuple[str, int, str]] = []
    tb = e.__traceback__
    while tb is not None:          # (no source lines read: traceback.extract_tb costs a file look-up per frame)
        frames.append((tb.tb_frame.f_code.co_filename, tb.tb_lineno, tb.tb_frame.f_code.co_name))
        tb = tb.tb_next
    fr = [f for f in frames if 'xmlschema' in f[0]]
    out = ['%s:%d %s' % (f[0].split('xmlschema/', 1)[-1], f[1], f[2]) for f in fr[-4:]]
    if frames:
        # innermost frame overall (may lie outside the package), marked with '@'
        out.append('@%s %s' % ('/'.join(frames[-1][0].split('/')[-2:]), frames[-1][2]))
    return out


def measure_d0(schema: Any) -> Optional[int]:
    """Smallest chain depth at which validation raises RecursionError (with some frames of head-room so that every
    call site of this module is at most as deep as the measurement)."""
    def deep(k: int, fn: Callable[[], Any]) -> Any:
        return fn() if k == 0 else deep(k - 1, fn)

    def fails(d: int) -> bool:
        data = forest_xml(chain(d)).encode()
        o = deep(25, lambda: call(lambda: schema.is_valid(data)))
        return is_overflow(o)
    from xmlschema import _limits
    lo, hi = 20, max(30, min(1000, _limits.MAX_XML_DEPTH) - 10)
    if not fails(hi):
        return None
    while lo < hi:
        mid = (lo + hi) // 2
        if fails(mid):
            hi = mid
        else:
            lo = mid + 1
    # monotonicity is not guaranteed (caches warm up): take the smallest failing depth of a downward scan window
    d0 = lo
    for d in range(lo - 1, max(lo - 12, 20), -1):
        if fails(d):
            d0 = d
    return d0


def limits_part(ctx: Ctx, drv: Optional[Driver]) -> None:
    import xmlschema
    schema = xmlschema.XMLSchema10(RECURSIVE_XSD)
    State.d0 = measure_d0(schema)
    ctx.extra['recursion'] = {'smallest_failing_depth_D0': State.d0, 'recursion_limit': sys.getrecursionlimit()}
    reqs: Optional[list] = [] if drv else None
    pend: Optional[list] = [] if drv else None
    settings = ctx.pick([(1000, 10 ** 6), (50, 40), (7, 5), (1, 1), (3, 3000), (12, 2)],
                        [(1000, 10 ** 6), (1000, 1000), (300, 10 ** 6), (50, 40), (7, 5), (1, 1), (2, 2), (3, 3000), (12, 2), (5, 100)])
    n_random = ctx.pick(900, 6000)
    for L, E in settings:
        with LimitSetting(L, E):
            for d in (L - 1, L, L + 1):
                if d >= 1:
                    limit_case(ctx, L, E, chain(d), 'chain', reqs, pend, schema if d <= E else None)
            if E <= 5000 or not ctx.quick():
                for c in (E - 1, E, E + 1):
                    if c >= 1 and L >= 2 or c == 1:
                        limit_case(ctx, L, E, wide(c), 'wide', reqs, pend, schema if E <= 5000 else None)
            if L <= 60 and E <= 5000:
                for d in (L - 1, L, L + 1):
                    for c in (E - 1, E, E + 1):
                        if 2 <= d <= c:
                            limit_case(ctx, L, E, comb(d, c), 'comb', reqs, pend, schema)
        # random forests around small limits derived from this setting
        l2, e2 = min(L, 6), min(E, 14)
        with LimitSetting(l2, e2):
            for _ in range(n_random // len(settings)):
                f = random_forest(ctx.rng, l2 + 2, e2 + 4)
                limit_case(ctx, l2, e2, f, 'random', reqs, pend, schema if ctx.rng.random() < 0.2 else None)
    if drv and reqs:
        for (what, case, out, lazy), ans in zip(pend, drv.query(reqs)):
            ctx.traces += 1
            want = ans['lazy'] if lazy else ans['eager']
            if 'err' in ans or out['res'] != want:
                ctx.mismatch('parse loop (%s)' % ('lazy' if lazy else 'eager'), case, out, ans)
            elif out['res'] != 'ok' and ans.get('exc') != out.get('exc') and not lazy:
                ctx.mismatch('refusal exception class', case, out, ans)


# ------------------------------------------------------------------------------------------------
# limit setters

def setters_part(ctx: Ctx, drv: Optional[Driver]) -> None:
    from xmlschema import limits, _limits
    from xmlschema.exceptions import XMLSchemaTypeError, XMLSchemaValueError
    saved = {py: getattr(limits, py) for _, py in LIMIT_ATTRS}
    py_of = dict(LIMIT_ATTRS)
    mins = {'modelDepth': 5, 'schemaSources': 10, 'xmlDepth': 1, 'xmlElements': 1}
    values: list[Any] = [-(10 ** 12), -1, 0, 1, 2, 4, 5, 6, 9, 10, 11, 1000, 10 ** 12, True, False, 1.5, 3.0, '5', None, [1]]

    def model_value(v: Any) -> Any:
        return int(v) if isinstance(v, int) else None        # bool is an int in Python; everything else: not an int

    seqs: list[list[tuple[str, Any]]] = [[(a, v)] for a, _ in LIMIT_ATTRS for v in values]
    for _ in range(ctx.pick(150, 1500)):
        seqs.append([(ctx.rng.choice(LIMIT_ATTRS)[0], ctx.rng.choice(values)) for _ in range(ctx.rng.randint(2, 6))])
    reqs, pend = [], []
    try:
        for seq in seqs:
            for _, py in LIMIT_ATTRS:
                setattr(limits, py, saved[py])
            results = []
            for a, v in seq:
                try:
                    setattr(limits, py_of[a], v)
                    results.append('ok')
                except XMLSchemaTypeError:
                    results.append('type')
                except XMLSchemaValueError:
                    results.append('value')
                except Exception as e:  # noqa
                    results.append('exc:' + type(e).__name__)
            final = {a: int(getattr(_limits, py)) for a, py in LIMIT_ATTRS}
            public = {a: getattr(limits, py) for a, py in LIMIT_ATTRS}
            case = {'assignments': [[a, repr(v)] for a, v in seq]}
            ctx.case(case, any(r != 'ok' for r in results), tag='setter')
            for r in results:
                ctx.count('setter:' + r)
            # the property: the effective limits never go below the documented minima, only library errors are raised
            if any(r.startswith('exc:') for r in results):
                ctx.failure('a limit setter raised something else than XMLSchemaTypeError / XMLSchemaValueError', case, results)
            if any(final[a] < mins[a] for a in final):
                ctx.failure('a limit was set below its documented minimum', case, final)
            if any(public[a] != final[a] for a in final):
                ctx.failure('xmlschema.limits and the effective xmlschema._limits disagree', case, {'public': str(public), 'effective': final})
            reqs.append({'op': 'set', 'ops': [[a, model_value(v)] for a, v in seq]})
            pend.append((case, results, final))
    finally:
        for _, py in LIMIT_ATTRS:
            setattr(limits, py, saved[py])
    if drv:
        for (case, results, final), ans in zip(pend, drv.query(reqs)):
            ctx.traces += 1
            if 'err' in ans or ans['results'] != results or ans['final'] != final or ans['applyAll'] != final:
                ctx.mismatch('limit setters', case, {'results': results, 'final': final}, ans)


# ------------------------------------------------------------------------------------------------
# handler coverage on the real code

def handlers_part(ctx: Ctx, drv: Optional[Driver]) -> None:
    """For every (built-in type, lexical value) whose converter raises class C: does the error leak out of a skip /
    lax decode?  Compared with `catches site.handlers C` of the model over the regenerated tables."""
    import xmlschema
    obs: dict[tuple[str, str], dict] = {}
    for cls in (xmlschema.XMLSchema10, xmlschema.XMLSchema11):
        s = cls('<xs:schema xmlns:xs="http://www.w3.org/2001/XMLSchema"/>')
        for name, t in sorted(s.maps.types.items()):
            if not hasattr(t, 'to_python') or not hasattr(t, 'decode'):
                continue
            local = name.split('}')[-1]
            for v in CATALOGUE:
                try:
                    t.to_python(t.normalize(v) if hasattr(t, 'normalize') else v)
                    continue
                except Exception as e:  # noqa
                    raised = type(e).__name__
                for mode, site in (('skip', 'builtin.to_python:skip'), ('lax', 'builtin.to_python:validate')):
                    case = {'type': local, 'value': v if len(v) < 60 else v[:20] + '…(%d)' % len(v), 'mode': mode,
                            'v': s.version if hasattr(s, 'version') else cls.__name__}
                    o = call(lambda: t.decode(v, validation=mode))
                    ctx.case(case, True, tag='handler/' + mode)
                    ctx.count('handler-raised:' + raised)
                    leaked = o['class'] != 'verdict'
                    if leaked:
                        report(ctx, '%s-mode decoding of a built-in type raised' % mode, case,
                               {'exc': o.get('exc'), 'msg': o.get('msg'), 'mode': mode, 'entry': 'XsdAtomicBuiltin.decode'})
                    key = (site, raised)
                    rec = obs.setdefault(key, {'leaked': False, 'caught': False, 'example': case})
                    if leaked and o.get('exc') == raised:
                        rec['leaked'] = True
                        rec['example'] = case
                    elif not leaked:
                        rec['caught'] = True
    # the parse loops: what the parser raises for each byte stream of the catalogue vs what leaves XMLResource
    from xml.etree import ElementTree as ET
    for data in PARSE_CATALOGUE:
        try:
            for _ in ET.iterparse(io.BytesIO(data), events=('start',)):
                pass
            continue
        except Exception as e:  # noqa
            raised = type(e).__name__
        for lazy, site in ((False, 'xml_loader._parse'), (True, 'xml_loader._lazy_iterparse')):
            case = {'schema': 'none', 'mutation': 'parse-catalogue', 'xml': data.decode('latin-1'), 'hex': data.hex(), 'lazy': lazy}
            o = call(lambda: [None for _ in xmlschema.XMLResource(data, lazy=lazy).iter()] and None)
            ctx.case(case, True, tag='handler/parse')
            ctx.count('handler-raised:' + raised)
            if o['class'] == 'foreign':
                report(ctx, 'an exception outside the library hierarchy escaped', case,
                       {'exc': o['exc'], 'msg': o['msg'], 'entry': 'XMLResource', 'mode': 'n/a', 'where': o.get('where')})
            rec = obs.setdefault((site, raised), {'leaked': False, 'caught': False, 'example': case})
            if o['class'] == 'foreign' and o.get('exc') == raised:
                rec['leaked'] = True
                rec['example'] = case
            elif o['class'] == 'library':
                rec['caught'] = True
    # xsi:type look-ups: on the root element only elements.py handles it, on a child groups.py sees it first
    s = xmlschema.XMLSchema10(G.xsd_text('T', False))
    px = 'xmlns:p="urn:t" xmlns:xsi="%s"' % G.XSI
    for tname in ('p:ext', 'p:other', 'p:nonexistent', 'zz:base', 'nonexistent', 'p:code', 'xs:int'):
        try:
            s.maps.get_instance_type(tname, s.types['base'], {'p': G.TNS, 'xs': 'http://www.w3.org/2001/XMLSchema'})
            continue
        except Exception as e:  # noqa
            raised = type(e).__name__
        docs = {'group.check_dynamic_context': '<p:root %s version="1"><p:title>x</p:title><p:head xsi:type="%s"><p:n>a</p:n></p:head></p:root>' % (px, tname),
                'element.get_instance_type': '<p:head %s xsi:type="%s"><p:n>a</p:n></p:head>' % (px, tname)}
        for site, xml in docs.items():
            case = {'schema': 'T/1.0', 'mutation': 'xsi-type-catalogue', 'xml': xml, 'site': site}
            o = call(lambda: s.is_valid(xml))
            ctx.case(case, True, tag='handler/xsi')
            ctx.count('handler-raised:' + raised)
            if o['class'] != 'verdict':
                report(ctx, 'lax mode raised for a well-formed document (invalid content must be collected, not raised)', case,
                       {'exc': o.get('exc'), 'msg': o.get('msg'), 'entry': 'is_valid', 'mode': 'lax', 'where': o.get('where')})
            rec = obs.setdefault((site, raised), {'leaked': False, 'caught': False, 'example': case})
            if o['class'] != 'verdict' and o.get('exc') == raised:
                rec['leaked'] = True
                rec['example'] = case
            elif o['class'] == 'verdict':
                rec['caught'] = True
    # XSD 1.1 assertions
    s11 = xmlschema.XMLSchema11(G.xsd_text('T', True))
    for body, raised in (('<p:price>NaN</p:price>', 'InvalidOperation'),
                         ('<p:code xsi:type=":">A</p:code><p:price>1</p:price>', 'ValueError'),
                         ('<p:code xsi:type="a:b:c">A</p:code><p:price>1</p:price>', 'ValueError')):
        xml = '<p:root %s version="2"><p:title>x</p:title><p:item key="1">%s</p:item></p:root>' % (px, body)
        case = {'schema': 'T/1.1', 'mutation': 'assertion-catalogue', 'xml': xml}
        o = call(lambda: s11.is_valid(xml))
        ctx.case(case, True, tag='handler/assert')
        ctx.count('handler-raised:' + raised)
        if o['class'] == 'foreign':
            report(ctx, 'an exception outside the library hierarchy escaped', case,
                   {'exc': o['exc'], 'msg': o['msg'], 'entry': 'is_valid', 'mode': 'lax', 'where': o.get('where')})
        elif o['class'] == 'library':
            report(ctx, 'lax mode raised for a well-formed document (invalid content must be collected, not raised)', case,
                   {'exc': o['exc'], 'msg': o['msg'], 'entry': 'is_valid', 'mode': 'lax', 'where': o.get('where')})
        rec = obs.setdefault(('assertion.evaluate', raised), {'leaked': False, 'caught': False, 'example': case})
        if o['class'] == 'foreign' and o.get('exc') == raised:
            rec['leaked'] = True
        elif o['class'] == 'verdict':
            rec['caught'] = True
    if drv:
        keys = sorted(obs)
        for (site, raised), ans in zip(keys, drv.query([{'op': 'covers', 'site': s, 'name': n} for s, n in keys])):
            ctx.traces += 1
            rec = obs[site, raised]
            # model: covered <=> never leaks
            if ans.get('covers') is None:
                ctx.mismatch('handler table has no entry', {'site': site, 'class': raised}, rec, ans)
            elif ans['covers'] == rec['leaked'] or (ans['covers'] and not rec['caught']):
                ctx.mismatch('handler coverage', {'site': site, 'class': raised, 'example': rec['example']},
                             {'leaked': rec['leaked'], 'caught': rec['caught']}, ans)


# ------------------------------------------------------------------------------------------------
# mutation / fuzz exploration

NASTY = ['99999999999999999999', '-99999999999999999999', '9' * 400, '1e400', '-1E400', '1' + '0' * 5000, 'NaN', 'INF', '0x10',
         '99999999999999999999-01-01', '-99999999999999999999-12-31', '99999999999999999999-01-01T00:00:00Z', '0000', '00000',
         '2024-02-30', 'P99999999999999999999Y', 'PT1e3S', ':', 'a:', ':a', 'a:b:c', 'p:', 'zz:name', '{urn:t}x', '1abc', 'p:1',
         'xsi:type', '', ' ', '\t\n', 'a' * 70000, 'é中\U0001f600', '​', '&lt;', ']]>', '%s%s%n', '-0', '+', '.', '1.',
         '.5', '1,5', '١٢٣', 'true ', 'TRUE', 'null', 'None', '[]', '{}']
XSI_ATTRS = [('type', ['p:ext', 'p:nonexistent', 'zz:base', 'xs:int', 'ext', '', ':', 'p:base p:ext', 'p:absT', 'p:code', 'p:intOrCode']),
             ('nil', ['true', 'false', '1', 'maybe', '']),
             ('schemaLocation', ['urn:t', 'urn:t file:///nonexistent.xsd', 'a b c', '']),
             ('noNamespaceSchemaLocation', ['file:///nonexistent.xsd', 'http://127.0.0.1:9/x.xsd', '\x7f']),
             ('unknown', ['1'])]


def mutate_tree(rng: Any, root: G.Node) -> str:
    """One structural / lexical mutation on a tree; returns its description."""
    nodes = list(root.iter())
    kind = rng.choice(['value', 'value', 'attr', 'xsi', 'xsi', 'ns-elem', 'ns-attr', 'delete', 'dup', 'swap', 'deep', 'rename',
                       'text-in-element', 'many'])
    n = rng.choice(nodes)
    if kind == 'value':
        leaves = [x for x in nodes if not x.children]
        n = rng.choice(leaves) if leaves else n
        n.text = rng.choice(NASTY)
    elif kind == 'attr':
        cands = [(x, k) for x in nodes for k in x.attrs]
        if cands:
            x, k = rng.choice(cands)
            x.attrs[k] = rng.choice(NASTY)
        else:
            n.attrs[('', 'a')] = rng.choice(NASTY)
    elif kind == 'xsi':
        name, vals = rng.choice(XSI_ATTRS)
        n.attrs[(G.XSI, name)] = rng.choice(vals)
    elif kind == 'ns-elem':
        n.ns = rng.choice([G.ONS, '', G.TNS])
    elif kind == 'ns-attr':
        n.attrs[(G.ONS, rng.choice(['x', 'type', 'nil']))] = rng.choice(NASTY)
    elif kind == 'delete':
        p = root.parent_of(n)
        if p is not None:
            p.children.remove(n)
    elif kind == 'dup':
        p = root.parent_of(n)
        if p is not None:
            for _ in range(rng.choice([1, 1, 5])):
                p.children.insert(p.children.index(n), G.clone(n))
    elif kind == 'swap':
        if len(n.children) >= 2:
            rng.shuffle(n.children)
    elif kind == 'deep':
        cur = n
        for _ in range(rng.choice([5, 30, 120])):
            c = G.Node(n.ns, n.name, dict(n.attrs), None, [])
            cur.children.append(c)
            cur = c
    elif kind == 'rename':
        n.name = rng.choice(['title', 'item', 'head', 'root', 'doc', 'x', 'n', 'ahead', 'cfg'])
    elif kind == 'text-in-element':
        n.text = rng.choice(NASTY)
        if n.children:
            n.children[0].tail = rng.choice(NASTY)
    else:
        p = root.parent_of(n) or root
        for _ in range(300):
            p.children.append(G.clone(n) if not n.children else G.Node(n.ns, n.name, {}, 'x'))
    return kind


def mutate_bytes(rng: Any, data: bytes) -> tuple[bytes, str]:
    kind = rng.choice(['truncate', 'truncate', 'flip', 'insert', 'drop', 'encoding', 'doctype', 'entity', 'bom', 'tag-garble'])
    if not data:
        return data, 'empty'
    i = rng.randrange(len(data))
    if kind == 'truncate':
        return data[:i], kind
    if kind == 'flip':
        b = bytearray(data)
        for _ in range(rng.choice([1, 1, 3, 10])):
            j = rng.randrange(len(b))
            b[j] = rng.choice([0, 0xff, 0x3c, 0x26, 0x3e, 0x22, b[j] ^ 0x20, rng.randrange(256)])
        return bytes(b), kind
    if kind == 'insert':
        junk = rng.choice([b'\x00', b'\xff\xfe', b'<', b'&', b'&#xD800;', b'&#0;', b'&undefined;', b'<!--', b']]>', b'<![CDATA[', b'\xc3',
                           b'&#x110000;', b'<?xml version="1.0"?>', b'</x>', b'\xef\xbf\xbe'])
        return data[:i] + junk + data[i:], kind
    if kind == 'drop':
        j = min(len(data), i + rng.choice([1, 2, 10]))
        return data[:i] + data[j:], kind
    if kind == 'encoding':
        enc = rng.choice(['utf-16', 'latin-1', 'utf-32', 'ascii', 'no-such-encoding', 'utf-8'])
        body = data.decode('utf-8', 'replace')
        decl = '<?xml version="1.0" encoding="%s"?>' % enc
        try:
            return (decl + body).encode(rng.choice([enc, 'utf-8'])), kind
        except (LookupError, UnicodeError):
            return (decl + body).encode('utf-8'), kind
    if kind == 'doctype':
        return b'<!DOCTYPE r [<!ENTITY e "x"><!ELEMENT r ANY>]>' + data, kind
    if kind == 'entity':
        return b'<!DOCTYPE r [<!ENTITY a "aaaaaaaaaa"><!ENTITY b "&a;&a;&a;&a;&a;&a;&a;&a;">]>' + data.replace(b'>', b'>&b;', 1), kind
    if kind == 'bom':
        return rng.choice([b'\xef\xbb\xbf', b'\xff\xfe', b'\xfe\xff']) + data, kind
    j = data.find(b'<', i)
    if j < 0:
        return data + b'<', kind
    return data[:j + 1] + rng.choice([b' ', b'1', b':', b'/', b'!', b'?']) + data[j + 1:], kind


def doc_depth(data: bytes) -> Optional[int]:
    evs = events_of(data)
    if evs is None:
        return None
    d = m = 0
    for c in evs:
        if c == 's':
            d += 1
            m = max(m, d)
        elif c == 'e':
            d -= 1
    return m


# ------------------------------------------------------------------------------------------------
# error objects: an exception raised while an error is BUILT or RENDERED is as foreign as one raised by the validator

RENDERED: dict[tuple[str, str], int] = {}


def error_property_table() -> dict[str, list[str]]:
    """Computed properties and public zero-argument methods of every error class, from the AST of the exception modules
    of the tree under check (the counterpart of the raise-site table for the error objects)."""
    out: dict[str, list[str]] = {}
    for rel in ('xmlschema/exceptions.py', 'xmlschema/validators/exceptions.py'):
        tree = ast.parse((REPO / rel).read_text(encoding='utf-8-sig'))
        for n in tree.body:
            if isinstance(n, ast.ClassDef):
                names = []
                for m in n.body:
                    if isinstance(m, ast.FunctionDef) and not m.name.startswith('_'):
                        is_prop = any(getattr(d, 'id', getattr(d, 'attr', '')) in ('property', 'cached_property') for d in m.decorator_list)
                        required = len(m.args.args) - 1 - len(m.args.defaults)
                        if is_prop or (required == 0 and not m.decorator_list):
                            names.append(m.name)
                    elif isinstance(m, ast.FunctionDef) and m.name in ('__str__', '__repr__', '__reduce__', '__getstate__'):
                        names.append(m.name)
                out[n.name] = sorted(set(names))
    return out


def render_error(e: Any) -> None:
    """Evaluates everything an error object computes: str / repr, every property and public zero-argument method of
    every class of its MRO that the package defines, the instance attributes, a pickle round of its state."""
    cname = type(e).__name__
    str(e)
    repr(e)
    for klass in type(e).__mro__:
        if not klass.__module__.startswith('xmlschema'):
            continue
        for name, attr in vars(klass).items():
            if name.startswith('_'):
                continue
            if isinstance(attr, property):
                getattr(e, name)
            elif callable(attr) and not isinstance(attr, (staticmethod, classmethod)):
                try:
                    import inspect
                    sig = inspect.signature(attr)
                    req = [q for q in list(sig.parameters.values())[1:] if q.default is q.empty and q.kind in (q.POSITIONAL_ONLY, q.POSITIONAL_OR_KEYWORD)]
                except (TypeError, ValueError):
                    continue
                if req:
                    continue
                getattr(e, name)()
            else:
                continue
            RENDERED[(klass.__name__, name)] = RENDERED.get((klass.__name__, name), 0) + 1
    for name in ('msg', 'message', 'reason', 'path', 'obj', 'elem', 'source', 'namespaces', 'validator', 'stack_trace', 'index', 'particle',
                 'occurs', 'expected', 'invalid_tag', 'decoder', 'encoder'):
        getattr(e, name, None)
    if hasattr(e, '__getstate__'):
        e.__getstate__()
    RENDERED[(cname, '__str__')] = RENDERED.get((cname, '__str__'), 0) + 1


def render_all(errors: Any) -> None:
    errors = [x for x in errors if isinstance(x, Exception)] if errors else []
    for e in (errors if len(errors) <= 12 else errors[:9] + errors[-3:]):
        render_error(e)


def _strict_render(fn: Callable[[], Any]) -> Any:
    """a strict call: the validation error it raises is rendered before it is passed on"""
    import xmlschema
    try:
        return fn()
    except xmlschema.XMLSchemaValidationError as e:
        render_error(e)
        raise


def _lax_render(r: Any) -> None:
    if isinstance(r, tuple) and len(r) == 2 and isinstance(r[1], list):
        render_all(r[1])


def fuzz_entry_points(schema: Any) -> list[tuple[str, str, Callable[[bytes], Any]]]:
    import xmlschema
    cls = type(schema)
    return [
        ('XMLResource', 'n/a', lambda d: xmlschema.XMLResource(d) and None),
        ('is_valid', 'lax', lambda d: schema.is_valid(d)),
        ('iter_errors', 'lax', lambda d: render_all(list(schema.iter_errors(d)))),
        ('validate', 'strict', lambda d: _strict_render(lambda: schema.validate(d))),
        ('decode:strict', 'strict', lambda d: _strict_render(lambda: schema.decode(d)) and None),
        ('decode:lax', 'lax', lambda d: _lax_render(schema.decode(d, validation='lax'))),
        ('decode:skip', 'skip', lambda d: schema.decode(d, validation='skip') and None),
        ('pkg.to_dict:lax', 'lax', lambda d: xmlschema.to_dict(d, schema, cls=cls, validation='lax') and None),
        ('lazy.is_valid', 'lax', lambda d: schema.is_valid(xmlschema.XMLResource(d, lazy=True))),
        ('lazy.decode:lax', 'lax', lambda d: schema.decode(xmlschema.XMLResource(d, lazy=True), validation='lax') and None),
        ('lazy.iter_errors', 'lax', lambda d: render_all(list(schema.iter_errors(xmlschema.XMLResource(d, lazy=True))))),
        # defusing applied to the raw source (the scan of sax.py runs before the parser) and location hints followed
        ('XMLResource:defuse', 'n/a', lambda d: xmlschema.XMLResource(d, defuse='always') and None),
        ('XMLResource:defuse-lazy', 'n/a', lambda d: xmlschema.XMLResource(d, defuse='always', lazy=True) and None),
        ('is_valid:hints', 'lax', lambda d: schema.is_valid(d, use_location_hints=True)),
        # the same document handed over as a parsed tree that keeps comment / PI nodes (lxml; ElementTree with
        # insert_comments): only for documents these parsers accept (their own parse errors are not the library's)
        ('lxml.is_valid:hints', 'tree', lambda d: _tree_call(schema, d, 'lxml')),
        ('etc.iter_errors:hints', 'tree', lambda d: _tree_call(schema, d, 'etc')),
    ]


class _NotParsed(Exception):
    pass


def _tree_call(schema: Any, data: bytes, kind: str) -> Any:
    import xml.etree.ElementTree as ET
    try:
        if kind == 'lxml':
            import lxml.etree as LE
            tree = LE.fromstring(data, parser=LE.XMLParser(resolve_entities=False, no_network=True))
        else:
            tree = ET.fromstring(data, parser=ET.XMLParser(target=ET.TreeBuilder(insert_comments=True, insert_pis=True)))
    except Exception:
        return None           # not a document for this parser: nothing handed to the library
    if kind == 'lxml':
        return schema.is_valid(tree, use_location_hints=True)
    return list(schema.iter_errors(tree, use_location_hints=True)) and None


def fuzz_case(ctx: Ctx, schema: Any, sname: str, data: bytes, how: str, seen_classes: dict,
              entry_points: Optional[list] = None) -> None:
    wf_depth = doc_depth(data)
    well_formed = wf_depth is not None
    try:
        text = data.decode('utf-8')
    except UnicodeDecodeError:
        text = data.decode('latin-1')
    case_base = {'schema': sname, 'mutation': how, 'xml': text,
                 'hex': data.hex() if not data.isascii() else None, 'depth': wf_depth, 'well_formed': well_formed}
    outcomes = []
    mon: Optional[RaiseMonitor] = STATE_MON['mon']
    for name, mode, fn in (entry_points or fuzz_entry_points(schema)):
        fired: list = []
        if mon is not None and mon.ok:
            o, fired = mon.watch(lambda: fn(data))
        else:
            o = call(lambda: fn(data))
        if mon is not None and mon.ok and STATE_MON['obs'] is not None:
            STATE_MON['obs'].add('lax' if mode == 'tree' else mode, fired, o, mon, dict(case_base, entry=name))
        if o.get('exc') == 'XMLResourceError' and 'already under iteration' in o.get('msg', ''):
            # the lock of a lazy resource is released when its abandoned generator is finalised: timing of the
            # garbage collector, not a property of the input (counted; retried once after a collection)
            import gc
            ctx.count('lazy-lock-held-by-unfinalised-generator')
            gc.collect()
            o = call(lambda: fn(data))
        outcomes.append(o['class'] if o['class'] != 'verdict' else 'verdict')
        if o.get('exc'):
            seen_classes.setdefault(o['exc'], o['class'])
        ctx.count('fuzz-outcome:%s' % (o.get('exc') or 'verdict'))
        case = dict(case_base, entry=name)
        if o['class'] == 'foreign':
            report(ctx, 'an exception outside the library hierarchy escaped', case,
                   {'exc': o['exc'], 'msg': o['msg'], 'entry': name, 'mode': mode, 'where': o.get('where')})
        elif o['class'] == 'library' and mode in ('lax', 'skip') and well_formed and wf_depth <= State.max_xml_depth:
            # lax / skip never raise for invalid content: for a well-formed document within the limits they return
            if o['exc'] in ('XMLResourceForbidden', 'XMLResourceBlocked'):
                continue     # refused by the security settings (properties C12 / C13), not "invalid content"
            report(ctx, '%s mode raised for a well-formed document (invalid content must be collected, not raised)' % mode,
                   case, {'exc': o['exc'], 'msg': o['msg'], 'entry': name, 'mode': mode, 'where': o.get('where')})
    ctx.case({'schema': sname, 'mutation': how, 'xml': case_base['xml'], 'hex': case_base['hex']},
             any(x != 'verdict' for x in outcomes) or not well_formed, tag='fuzz/' + how.split(':')[0])
    ctx.count('fuzz-doc:%s' % ('well-formed' if well_formed else 'malformed'))


def corpus_docs() -> list[tuple[str, Path, list[Path]]]:
    base = REPO / 'tests' / 'test_cases' / 'examples'
    out = []
    for d, xsd, xmls in (('vehicles', 'vehicles.xsd', ['vehicles.xml', 'vehicles-1_error.xml', 'vehicles-2_errors.xml']),
                         ('collection', 'collection.xsd', ['collection.xml', 'collection-1_error.xml'])):
        p = base / d / xsd
        if p.exists():
            out.append((d, p, [base / d / x for x in xmls if (base / d / x).exists()]))
    return out


def fuzz_part(ctx: Ctx, drv: Optional[Driver]) -> None:
    import xmlschema
    rng = ctx.rng
    schemas: dict[str, Any] = {}
    for fam in 'TN':
        for v11 in (False, True):
            schemas['%s/%s' % (fam, '1.1' if v11 else '1.0')] = (xmlschema.XMLSchema11 if v11 else xmlschema.XMLSchema10)(G.xsd_text(fam, v11))
    schemas['recursive/1.0'] = xmlschema.XMLSchema10(RECURSIVE_XSD)
    corpus: list[tuple[str, bytes]] = []
    for name, xsd, xmls in corpus_docs():
        try:
            schemas['corpus:' + name] = xmlschema.XMLSchema10(str(xsd))
        except Exception as e:  # noqa
            ctx.notes.append('corpus schema %s not usable: %s' % (name, type(e).__name__))
            continue
        for x in xmls:
            corpus.append(('corpus:' + name, x.read_bytes()))
    seen: dict[str, str] = {}
    n_tree = ctx.pick(1500, 12000)
    n_bytes = ctx.pick(1300, 10000)
    # witnesses of the listed findings first
    for sname, xml in (('N/1.0', '<doc><yr>99999999999999999999</yr></doc>'),
                       ('T/1.0', '<p:root xmlns:p="urn:t" xmlns:xsi="%s" version="1"><p:title>x</p:title>'
                                 '<p:head xsi:type="p:nonexistent"><p:n>a</p:n></p:head></p:root>' % G.XSI)):
        fuzz_case(ctx, schemas[sname], sname, xml.encode(), 'witness', seen)
    for sname, data in (('T/1.0', b'&roo\x00t xmlns="urn:t"><a/>'),                                   # C11-F10
                        ('T/1.0', b'<?xml version="1.0" encoding="no-such-encoding"?><a/>'),          # C11-F6
                        ('T/1.0', b'<o:root xmlns:o="urn:o" version="1"/>'),                          # C11-F7
                        ('T/1.1', ('<p:root xmlns:p="urn:t" xmlns:xsi="%s" version="2"><p:title>x</p:title><p:item key="1">'
                                   '<p:price>NaN</p:price></p:item></p:root>' % G.XSI).encode()),          # C11-F8
                        ('T/1.1', ('<p:root xmlns:p="urn:t" xmlns:xsi="%s" version="2"><p:title>x</p:title><p:item key="1">'
                                   '<p:code xsi:type=":">A</p:code><p:price>1</p:price></p:item></p:root>' % G.XSI).encode())):  # C11-F9
        fuzz_case(ctx, schemas[sname], sname, data, 'witness', seen)
    # declared encodings the parser knows, does not know or refuses (with and without defusing: both entry points)
    for enc in ('foo', 'utf-32', 'big5', 'utf-16', 'utf-7', 'cp037', 'ascii', 'latin-1', 'UTF-8', 'x' * 300, ''):
        fuzz_case(ctx, schemas['T/1.0'], 'T/1.0', ('<?xml version="1.0" encoding="%s"?><p:root xmlns:p="urn:t" version="1">'
                                                   '<p:title>x</p:title></p:root>' % enc).encode('latin-1'), 'declared-encoding', seen)
    # comment / PI nodes before an element that carries a schemaLocation hint (kept by lxml and by ElementTree with
    # insert_comments: iter_schema_namespaces walks them when use_location_hints=True)
    for sname in ('T/1.0', 'T/1.1', 'recursive/1.0'):
        for pre in ('<!-- c -->', '<?pi x?>', '<!-- c --><?pi x?>', ''):
            for loc in ('urn:o /nonexistent/o.xsd', 'urn:t urn:t', 'odd', ''):
                xml = ('<p:root xmlns:p="urn:t" xmlns:xsi="%s" version="1">%s<p:title xsi:schemaLocation="%s">x</p:title>'
                       '%s<o:x xmlns:o="urn:o" xsi:schemaLocation="%s"/></p:root>' % (G.XSI, pre, loc, pre, loc))
                fuzz_case(ctx, schemas[sname], sname, xml.encode(), 'comment-before-hint', seen)
    # unknown / odd namespace names (C11-F11 shows up for lazy resources)
    for ns in ('http://[bad', 'urn:x y', 'http://example.c]]&gt;om/v', '%zz', 'urn:' + 'n' * 3000, 'é', ' '):
        for sname in ('T/1.0', 'recursive/1.0') + (('corpus:vehicles',) if 'corpus:vehicles' in schemas else ()):
            xml = '<w:vehicles xmlns:w="%s"><w:cars><w:car make="a" model="b"/></w:cars><w:bikes/></w:vehicles>' % ns
            fuzz_case(ctx, schemas[sname], sname, xml.encode(), 'odd-namespace', seen)
    for i in range(n_tree):
        fam = rng.choice(['T', 'T', 'N'])
        v = rng.choice(['1.0', '1.1'])
        c = G.gen_case(rng, family=fam, nfaults=rng.choice([0, 0, 1]))
        root = c['tree']
        hows = []
        for _ in range(rng.choice([1, 1, 2, 3])):
            hows.append(mutate_tree(rng, root))
        data = G.serialize(root, c['style']).encode('utf-8', 'surrogatepass')
        fuzz_case(ctx, schemas['%s/%s' % (fam, v)], '%s/%s' % (fam, v), data, 'tree:' + '+'.join(hows), seen)
    for i in range(n_bytes):
        if corpus and rng.random() < 0.35:
            sname, data = rng.choice(corpus)
        else:
            fam = rng.choice(['T', 'N'])
            sname = '%s/%s' % (fam, rng.choice(['1.0', '1.1']))
            data = G.gen_case(rng, family=fam, nfaults=0)['xml'].encode()
        hows = []
        for _ in range(rng.choice([1, 1, 2])):
            data, h = mutate_bytes(rng, data)
            hows.append(h)
        fuzz_case(ctx, schemas[sname], sname, data, 'bytes:' + '+'.join(hows), seen)
    for sname, data in corpus:
        fuzz_case(ctx, schemas[sname], sname, data, 'corpus', seen)
    # recursion: documents deep but inside MAX_XML_DEPTH (finding C11-F2 is matched exactly by depth >= D0)
    rs = schemas['recursive/1.0']
    depths = sorted({5, 60, 150} | ({State.d0 - 3, State.d0 - 1, State.d0, State.d0 + 1, State.d0 + 40, 999, 1000} if State.d0 else {999, 1000}))
    for d in depths:
        if d >= 1:
            fuzz_case(ctx, rs, 'recursive/1.0', forest_xml(chain(d)).encode(), 'depth:%d' % d, seen)
    ctx.extra['exception_classes_seen'] = dict(sorted(seen.items()))
    if drv and seen:
        names = sorted(seen)
        for n, ans in zip(names, drv.query([{'op': 'classify', 'name': n} for n in names])):
            ctx.traces += 1
            if ans.get('class') == 'unknown':
                if seen[n] == 'library':
                    ctx.mismatch('library exception class missing from the generated hierarchy table', {'class': n}, seen[n], ans)
            elif ans.get('class') != seen[n]:
                ctx.mismatch('classification of an exception class', {'class': n}, seen[n], ans)


# ------------------------------------------------------------------------------------------------

# ------------------------------------------------------------------------------------------------
# typed values in element AND attribute position: the conversion / facet / identity sites see lists with bad
# items, huge numbers and years, NaN/INF, blank and padded values ... and must end in a verdict or library error
TV_XSD = '''<xs:schema xmlns:xs="http://www.w3.org/2001/XMLSchema">
 <xs:simpleType name="ints"><xs:list itemType="xs:int"/></xs:simpleType>
 <xs:simpleType name="ints3"><xs:restriction base="ints"><xs:maxLength value="3"/></xs:restriction></xs:simpleType>
 <xs:simpleType name="intsE"><xs:restriction base="ints"><xs:enumeration value="1 2"/><xs:enumeration value="3"/></xs:restriction></xs:simpleType>
 <xs:simpleType name="dates"><xs:list itemType="xs:date"/></xs:simpleType>
 <xs:simpleType name="dates2"><xs:restriction base="dates"><xs:minLength value="2"/></xs:restriction></xs:simpleType>
 <xs:simpleType name="uni"><xs:union memberTypes="xs:int xs:date xs:boolean"/></xs:simpleType>
 <xs:simpleType name="uniE"><xs:restriction base="uni"><xs:enumeration value="1"/><xs:enumeration value="true"/></xs:restriction></xs:simpleType>
 <xs:simpleType name="bigE"><xs:restriction base="xs:integer"><xs:enumeration value="7"/><xs:enumeration value="8"/></xs:restriction></xs:simpleType>
 <xs:simpleType name="dec2"><xs:restriction base="xs:decimal"><xs:totalDigits value="5"/><xs:fractionDigits value="2"/><xs:maxInclusive value="99.5"/></xs:restriction></xs:simpleType>
 <xs:simpleType name="dbl"><xs:restriction base="xs:double"><xs:minInclusive value="0"/></xs:restriction></xs:simpleType>
 <xs:simpleType name="yr"><xs:restriction base="xs:gYear"><xs:minInclusive value="1900"/></xs:restriction></xs:simpleType>
 <xs:simpleType name="dur"><xs:restriction base="xs:duration"><xs:maxInclusive value="P1Y"/></xs:restriction></xs:simpleType>
 <xs:simpleType name="hexL"><xs:restriction base="xs:hexBinary"><xs:length value="2"/></xs:restriction></xs:simpleType>
 <xs:element name="doc"><xs:complexType><xs:sequence>
   <xs:element name="row" maxOccurs="unbounded"><xs:complexType><xs:sequence>
     <xs:element name="v" minOccurs="0" maxOccurs="unbounded" type="xs:anySimpleType"/>
   </xs:sequence>
   <xs:attribute name="ints3" type="ints3"/><xs:attribute name="intsE" type="intsE"/><xs:attribute name="dates2" type="dates2"/>
   <xs:attribute name="uniE" type="uniE"/><xs:attribute name="bigE" type="bigE"/><xs:attribute name="dec2" type="dec2"/>
   <xs:attribute name="dbl" type="dbl"/><xs:attribute name="yr" type="yr"/><xs:attribute name="dur" type="dur"/>
   <xs:attribute name="hexL" type="hexL"/><xs:attribute name="kd" type="xs:date"/><xs:attribute name="ki" type="xs:integer"/>
   </xs:complexType></xs:element>
 </xs:sequence></xs:complexType>
   <xs:unique name="ud"><xs:selector xpath="row"/><xs:field xpath="@kd"/></xs:unique>
   <xs:unique name="ui"><xs:selector xpath="row"/><xs:field xpath="@ki"/></xs:unique>
 </xs:element>
 <xs:element name="e_ints3" type="ints3"/><xs:element name="e_intsE" type="intsE"/><xs:element name="e_dates2" type="dates2"/>
 <xs:element name="e_uniE" type="uniE"/><xs:element name="e_bigE" type="bigE"/><xs:element name="e_dec2" type="dec2"/>
 <xs:element name="e_dbl" type="dbl"/><xs:element name="e_yr" type="yr"/><xs:element name="e_dur" type="dur"/><xs:element name="e_hexL" type="hexL"/>
</xs:schema>'''

TV_VALUES = {
    'ints3': ['1 2 3', '1 x 3 4', '1 2 3 4', 'x', '', ' 1  2 ', '1 99999999999 3 4', '1.5 2'],
    'intsE': ['1 2', '3', '1 x', 'x y z', '1  2', ''],
    'dates2': ['2020-01-01 2020-02-30', '2020-01-01', 'x 2020-01-01 y', '99999999999-01-01 2020-01-01', ''],
    'uniE': ['1', 'true', 'x', '2020-01-01', '99999999999999999999', ''],
    'bigE': ['7', '9', '1' + '0' * 500, '-' + '9' * 400, 'x', ' 7 '],
    'dec2': ['1.25', '1.255', '100000', 'NaN', 'INF', '1E3', '9' * 400 + '.5', '.', '-0.00', '99.50'],
    'dbl': ['1', '-1', 'NaN', 'INF', '-INF', '1e999', '1e-999', 'nan', '0x1p3', ''],
    'yr': ['2000', '1899', '99999999999999999999', '-0001', '0000', '20000Z', 'x'],
    'dur': ['P1Y', 'P13M', 'P400D', 'P99999999999999999999Y', 'PT1S', '-P1Y', 'P', 'x'],
    'hexL': ['0a0b', '0a', '0A0B0C', 'zz', '0a 0b', ''],
    'kd': ['2020-01-01', '2020-01-01Z', '4294967296-01-01', '99999999999999999999-12-31', 'x'],
    'ki': ['1', '01', '1' + '0' * 400, 'x'],
}


def typed_values_part(ctx: Ctx) -> None:
    import xmlschema
    seen: dict = {}
    for cls in (xmlschema.XMLSchema10, xmlschema.XMLSchema11):
        schema = cls(TV_XSD)
        sname = 'typed-values/' + cls.XSD_VERSION
        docs = []
        for name, vals in TV_VALUES.items():
            for v in vals:
                a = esc_attr(v)
                docs.append(f'<doc><row {name}="{a}"/></doc>')
                if name not in ('kd', 'ki'):
                    docs.append(f'<e_{name}>{esc_attr(v)}</e_{name}>')
            # two rows: identity comparison of the (possibly undecodable / huge) values
            if name in ('kd', 'ki'):
                for v in vals:
                    docs.append(f'<doc><row {name}="{esc_attr(v)}"/><row {name}="{esc_attr(vals[0])}"/></doc>')
        for _ in range(ctx.pick(80, 800)):
            names = ctx.rng.sample(list(TV_VALUES), ctx.rng.randint(2, 4))
            attrs = ' '.join(f'{n}="{esc_attr(ctx.rng.choice(TV_VALUES[n]))}"' for n in names)
            docs.append(f'<doc><row {attrs}/><row {attrs}/></doc>')
        for d in docs:
            fuzz_case(ctx, schema, sname, d.encode('utf-8'), 'typed-value', seen)


def esc_attr(v: str) -> str:
    return v.replace('&', '&amp;').replace('<', '&lt;').replace('"', '&quot;')


# ------------------------------------------------------------------------------------------------
# interpreter frames of the recursive descent (C11-F2 / C11-F16): both variants of XsdElement.raw_decode, by detection

RECURSION_MSG = "recursion limit"


def is_overflow(o: dict) -> bool:
    """the descent ran out of interpreter frames: RecursionError (pinned) or the translated resource error (repaired)"""
    return o.get('exc') == 'RecursionError' or (o.get('exc') == 'XMLResourceExceeded' and RECURSION_MSG in (o.get('msg') or ''))


def descent_entry_points(ctx: Ctx, schema: Any) -> list[tuple[str, Callable[[bytes], Any]]]:
    import xmlschema
    eps: list[tuple[str, Callable[[bytes], Any]]] = [
        ('is_valid', lambda d: schema.is_valid(d)),
        ('decode:lax', lambda d: schema.decode(d, validation='lax')),
        ('lazy.is_valid', lambda d: schema.is_valid(xmlschema.XMLResource(d, lazy=True))),
        ('decode+encode', lambda d: schema.encode(_decode_deep(schema, d, None), validation='lax')),
    ]
    if not ctx.quick():
        for cname in ('ParkerConverter', 'BadgerFishConverter', 'AbderaConverter', 'JsonMLConverter', 'UnorderedConverter',
                      'DataElementConverter', 'GDataConverter'):
            conv = getattr(xmlschema, cname)
            eps.append(('decode:' + cname, (lambda c: lambda d: schema.decode(d, converter=c, validation='lax'))(conv)))
        eps.append(('decode:skip', lambda d: schema.decode(d, validation='skip')))
        eps.append(('iter_errors', lambda d: list(schema.iter_errors(d))))
    return eps


def _decode_deep(schema: Any, data: bytes, conv: Any) -> Any:
    """decoded data of a deep document, obtained with a recursion limit that cannot interfere"""
    old = sys.getrecursionlimit()
    sys.setrecursionlimit(old * 4 + 2000)
    try:
        return schema.decode(data, converter=conv, validation='skip')
    finally:
        sys.setrecursionlimit(old)


def descent_part(ctx: Ctx, drv: Optional[Driver]) -> None:
    """Frame cost of one element level, measured for every entry point at two recursion limits and compared with
    `descendFits` / `processExc` of the model (2 frames per level; overflow -> RecursionError when the descent is as
    pinned, XMLResourceExceeded when it is repaired — `Generated.C11.recursionGuard` read from the AST)."""
    import xmlschema
    schema = xmlschema.XMLSchema10(RECURSIVE_XSD)
    guarded = recursion_guard()
    r1 = sys.getrecursionlimit()
    limits_r = [r1, r1 + 600]
    from xmlschema import limits
    L, E = limits.MAX_XML_DEPTH, limits.MAX_XML_ELEMENTS
    reqs: list = []
    pend: list = []
    table: dict = {}

    def deep(k: int, fn: Callable[[], Any]) -> Any:
        return fn() if k == 0 else deep(k - 1, fn)

    for name, fn in descent_entry_points(ctx, schema):
        d0s = []
        for r in limits_r:
            sys.setrecursionlimit(r)
            try:
                def outcome(d: int) -> dict:
                    data = forest_xml(chain(d)).encode()
                    return deep(20, lambda: call(lambda: fn(data)))
                lo, hi = 10, min(L, r)
                o_hi = outcome(hi)
                if not is_overflow(o_hi):
                    d0s.append(None)
                    continue
                while lo < hi:
                    mid = (lo + hi) // 2
                    if is_overflow(outcome(mid)):
                        hi = mid
                    else:
                        lo = mid + 1
                d0 = lo
                o_at, o_below = outcome(d0), outcome(d0 - 1)
            finally:
                sys.setrecursionlimit(r1)
            d0s.append(d0)
            case = {'schema': 'recursive/1.0', 'entry': name, 'recursion_limit': r, 'depth': d0, 'mutation': 'descent-frames',
                    'gen': {'chain': d0, 'elements': d0}, 'limits': None}
            ctx.case(case, True, tag='descent/' + name)
            ctx.count('descent-overflow:%s' % o_at.get('exc'))
            # the property: never a foreign exception; a document within the limits is processed
            if o_at['class'] == 'foreign':
                report(ctx, 'an exception outside the library hierarchy escaped', case,
                       {'exc': o_at['exc'], 'msg': o_at['msg'], 'entry': name, 'mode': 'lax', 'where': o_at.get('where')})
            elif d0 <= L:
                report(ctx, 'a document within the limits was not processed to a verdict', case,
                       {'exc': o_at.get('exc'), 'msg': o_at.get('msg'), 'entry': name, 'mode': 'lax'})
            if o_below['class'] != 'verdict':
                report(ctx, 'a document within the limits (and within the measured frame budget) was not processed', dict(case, depth=d0 - 1),
                       {'exc': o_below.get('exc'), 'msg': o_below.get('msg'), 'entry': name, 'mode': 'lax'})
            pend.append((case, o_at, d0, r, name))
        table[name] = d0s
        if d0s[0] is not None and d0s[1] is not None:
            ctx.count('frames-per-level:%s' % (600 / (d0s[1] - d0s[0]) if d0s[1] != d0s[0] else 'inf'))
    ctx.extra['descent_frames'] = {'recursion_limits': limits_r, 'smallest_overflowing_depth': table, 'guarded': guarded}
    if not drv:
        return
    # the model: overflow iff 2*depth + tail > free.  tail (frames of the caller + of the innermost level) is taken from the
    # measurement at the FIRST limit; the prediction at the second limit (same parity) is then fixed.
    by_entry: dict = {}
    for case, o_at, d0, r, name in pend:
        by_entry.setdefault(name, []).append((case, o_at, d0, r))
    for name, lst in by_entry.items():
        tail = lst[0][3] - 2 * lst[0][2] + 1
        if tail < 0:
            ctx.mismatch('descent frames: more than two frames per level', {'entry': name}, lst[0][2], None)
            continue
        for case, o_at, d0, r in lst:
            ans = drv.query([{'op': 'descent', 'L': L, 'E': E, 'depth': d, 'free': r, 'tail': tail} for d in (d0 - 1, d0)])
            ctx.traces += 2
            want_exc = o_at.get('exc')
            if ans[0].get('fits') is not True or ans[0].get('exc') is not None or ans[1].get('fits') is not False \
                    or ans[1].get('exc') != want_exc or ans[1].get('guarded') != guarded:
                ctx.mismatch('descent frames (two frames per element level; class of the overflow error)', case,
                             {'smallest_overflowing_depth': d0, 'exc': want_exc, 'guarded': guarded}, ans)


# ------------------------------------------------------------------------------------------------
# encoding: decoded data of generated documents, mutated, given back to schema.encode with every converter

ENC_CONVERTERS = ['XMLSchemaConverter', 'ParkerConverter', 'BadgerFishConverter', 'AbderaConverter', 'JsonMLConverter',
                  'UnorderedConverter', 'ColumnarConverter', 'GDataConverter', 'DataElementConverter']


class _Odd:
    def __repr__(self) -> str:
        return '<odd object>'


def mutate_data(rng: Any, data: Any) -> tuple[Any, str]:
    """One mutation of decoded data (dict / list / scalars / DataElement trees are copied structurally first)."""
    import copy
    try:
        data = copy.deepcopy(data)
    except Exception:  # noqa
        return data, 'none'
    spots: list[tuple[Any, Any]] = []          # (container, key)

    def walk(x: Any, depth: int = 0) -> None:
        if depth > 40:
            return
        if isinstance(x, dict):
            for k in list(x):
                spots.append((x, k))
                walk(x[k], depth + 1)
        elif isinstance(x, list):
            for i in range(len(x)):
                spots.append((x, i))
                walk(x[i], depth + 1)
        elif hasattr(x, '__dict__') and hasattr(x, 'tag'):
            for attr in ('value', 'text', 'attrib'):
                if hasattr(x, attr):
                    spots.append((x, '.' + attr))
            try:
                for i in range(len(x)):
                    spots.append((x, i))
                    walk(x[i], depth + 1)
            except Exception:  # noqa
                pass
    walk(data)
    kind = rng.choice(['value', 'value', 'type', 'delete', 'add-key', 'dup', 'root', 'nest'])
    if not spots or kind == 'root':
        return rng.choice([None, [], {}, 'text', 12, [1, 2], {'unknown': 1}, {'@x': 1}, _Odd(), (1, 2), [[data]], {'a': {'b': data}}]), 'root'
    c, k = rng.choice(spots)

    def put(v: Any) -> None:
        if isinstance(k, str) and k.startswith('.'):
            setattr(c, k[1:], v)
        else:
            c[k] = v
    try:
        if kind == 'value':
            put(rng.choice(NASTY))
        elif kind == 'type':
            put(rng.choice([None, 12, 1.5, True, [], {}, [None], {'$': 1}, {'@a': [1]}, b'bytes', _Odd(), ('t',), float('nan'), 10 ** 30, ['a', ['b']]]))
        elif kind == 'delete':
            if isinstance(c, (dict, list)) and not (isinstance(k, str) and k.startswith('.')):
                del c[k]
        elif kind == 'add-key':
            if isinstance(c, dict):
                c[rng.choice(['unknown', '@unknown', 'zz:x', '{urn:o}x', '', '$', '@xmlns:q', 'xsi:type', '@xsi:type', '@xsi:nil', 1, None])] = \
                    rng.choice(['v', 1, None, {}, [], 'p:nonexistent', 'true'])
            elif isinstance(c, list):
                c.insert(rng.randrange(len(c) + 1), rng.choice(['v', 1, None, {}, [], {'unknown': 1}]))
        elif kind == 'dup':
            if isinstance(c, list):
                c.extend(copy.deepcopy(c) * rng.choice([1, 3]))
            else:
                put([copy.deepcopy(c[k])] * 3 if not (isinstance(k, str) and k.startswith('.')) else None)
        else:
            cur: Any = rng.choice(NASTY)
            for _ in range(rng.choice([3, 30, 200])):
                cur = {rng.choice(['title', 'item', 'n', 'row', 'x']): [cur]}
            put(cur)
    except Exception:  # noqa
        return data, 'none'
    return data, kind


def encode_part(ctx: Ctx) -> None:
    """schema.encode / to_etree on decoded data (valid and invalid documents, every converter), unchanged and mutated, in
    strict / lax / skip: every call must end with a result or a library error."""
    import xmlschema
    rng = ctx.rng
    schemas: dict[str, Any] = {}
    for fam in 'TN':
        for v11 in (False, True):
            schemas['%s/%s' % (fam, '1.1' if v11 else '1.0')] = (xmlschema.XMLSchema11 if v11 else xmlschema.XMLSchema10)(G.xsd_text(fam, v11))
    schemas['recursive/1.0'] = xmlschema.XMLSchema10(RECURSIVE_XSD)
    schemas['typed-values/1.0'] = xmlschema.XMLSchema10(TV_XSD)
    mon: Optional[RaiseMonitor] = STATE_MON['mon']
    n_docs = ctx.pick(90, 900)
    for i in range(n_docs):
        r = rng.random()
        if r < 0.12:
            sname = 'recursive/1.0'
            xml = forest_xml(random_forest(rng, 5, 12)).replace('<n>', '<n a="%s">' % rng.choice(['1', 'x', '']), 1) if rng.random() < 0.5 else \
                forest_xml(chain(rng.choice([1, 3, 40])))
            if not xml.startswith('<n'):
                xml = '<n/>'
        elif r < 0.24:
            sname = 'typed-values/1.0'
            names = rng.sample(list(TV_VALUES), rng.randint(1, 4))
            xml = '<doc><row %s/></doc>' % ' '.join('%s="%s"' % (n, esc_attr(rng.choice(TV_VALUES[n]))) for n in names)
        else:
            fam = rng.choice(['T', 'T', 'N'])
            sname = '%s/%s' % (fam, rng.choice(['1.0', '1.1']))
            xml = G.gen_case(rng, family=fam, nfaults=rng.choice([0, 0, 1]))['xml']
        schema = schemas[sname]
        cname = rng.choice(ENC_CONVERTERS)
        conv = getattr(xmlschema, cname)
        o = call(lambda: schema.decode(xml, converter=conv, validation='lax'))
        if o['class'] != 'verdict':
            continue            # decoding is judged by the fuzz part
        try:
            data = schema.decode(xml, converter=conv, validation='lax')[0]
        except Exception:  # noqa
            continue
        variants = [(data, 'decoded')]
        for _ in range(ctx.pick(3, 4)):
            variants.append(mutate_data(rng, data))
        for obj, how in variants:
            outcomes = []
            for mode in ('lax', 'strict', 'skip'):
                for ep_name, fn in (('encode', lambda: schema.encode(obj, converter=conv, validation=mode)),) + \
                        ((('to_etree+path', lambda: schema.to_etree(obj, path=rng.choice(['*', 'p:root', 'doc', 'n', 'zz:x', '/', './/x']),
                                                                     converter=conv, validation=mode)),) if rng.random() < 0.15 else ()):
                    if mon is not None and mon.ok:
                        oo, fired = mon.watch(fn)
                    else:
                        oo, fired = call(fn), []
                    case = {'schema': sname, 'mutation': 'encode:' + how, 'xml': xml, 'hex': None, 'converter': cname,
                            'data': repr(obj)[:1500], 'entry': '%s:%s' % (ep_name, mode)}
                    if mon is not None and mon.ok and STATE_MON['obs'] is not None and ep_name == 'encode':
                        STATE_MON['obs'].add(mode, fired, oo, mon, case, encode=True)
                    outcomes.append(oo['class'])
                    ctx.count('encode-outcome:%s:%s' % (mode, oo.get('exc') or 'result'))
                    if oo['class'] == 'foreign':
                        report(ctx, 'encoding: an exception outside the library hierarchy escaped', case,
                               {'exc': oo['exc'], 'msg': oo['msg'], 'entry': case['entry'], 'mode': mode, 'where': oo.get('where'),
                                'converter': cname, 'direction': 'encode'})
            ctx.case({'schema': sname, 'converter': cname, 'mutation': 'encode:' + how, 'xml': xml, 'data': repr(obj)[:600]},
                     any(x != 'verdict' for x in outcomes) or how != 'decoded', tag='encode/' + how)


# ------------------------------------------------------------------------------------------------
# schema-level APIs that take documents, with randomised option combinations

def random_options(rng: Any, xmlschema: Any, for_decode: bool) -> tuple[dict, dict]:
    """(kwargs, description); hooks only return what the documentation allows and only raise library errors"""
    kw: dict = {}
    desc: dict = {}
    flags = {'strict_hook': False, 'stop': False}

    def maybe(p: float) -> bool:
        return rng.random() < p
    if maybe(0.35):
        kw['max_depth'] = desc['max_depth'] = rng.choice([0, 1, 2, 3, 10])
    if maybe(0.3):
        ret = rng.choice([False, True, 'skip', 'lax', 'lax', None, 'bogus', 'stop'])
        nth = rng.randint(0, 4)
        counter = [0]

        def hook(elem: Any, xsd_element: Any) -> Any:
            counter[0] += 1
            if counter[0] <= nth:
                return False
            if ret == 'stop':
                raise xmlschema.XMLSchemaStopValidation()
            return ret
        kw['validation_hook'] = hook
        desc['validation_hook'] = '%r after %d' % (ret, nth)
        flags['stop'] = ret == 'stop'
    if maybe(0.3):
        style = rng.choice(['raise', 'yield', 'none', 'yield2'])

        def extra(elem: Any, xsd_element: Any) -> Any:
            if style == 'raise' and len(elem) == 0:
                raise xmlschema.XMLSchemaValidationError(xsd_element, elem, 'extra: leaf refused')
            if style == 'none':
                return None

            def gen() -> Any:
                if style in ('yield', 'yield2') and elem.text and elem.text.strip():
                    yield xmlschema.XMLSchemaValidationError(xsd_element, elem, 'extra: text refused')
                    if style == 'yield2':
                        yield xmlschema.XMLSchemaValidationError(xsd_element, elem, 'extra: twice')
            return gen()
        kw['extra_validator'] = extra
        desc['extra_validator'] = style
    if maybe(0.2):
        kw['use_defaults'] = desc['use_defaults'] = rng.choice([True, False])
    if maybe(0.15):
        kw['use_location_hints'] = desc['use_location_hints'] = True
    if for_decode:
        if maybe(0.25):
            kw['filler'] = lambda xsd_element: '?'
            desc['filler'] = True
        if maybe(0.25):
            kw['depth_filler'] = rng.choice([lambda xsd_element: None, lambda xsd_element: {'...': 1}])
            desc['depth_filler'] = True
        if maybe(0.25):
            hv = rng.choice(['id', 'str', 'none'])
            kw['value_hook'] = {'id': (lambda v, t: v), 'str': (lambda v, t: str(v)), 'none': (lambda v, t: None)}[hv]
            desc['value_hook'] = hv
        if maybe(0.2):
            kw['element_hook'] = lambda element_data, xsd_element, xsd_type: element_data
            desc['element_hook'] = 'id'
        for flag in ('fill_missing', 'keep_empty', 'keep_unknown', 'process_skipped', 'binary_types', 'datetime_types'):
            if maybe(0.3):
                kw[flag] = desc[flag] = rng.choice([True, False])
        if maybe(0.3):
            dt = rng.choice([str, float, None])
            kw['decimal_type'] = dt
            desc['decimal_type'] = getattr(dt, '__name__', None)
        if maybe(0.5):
            cname = rng.choice(ENC_CONVERTERS)
            kw['converter'] = getattr(xmlschema, cname)
            desc['converter'] = cname
    return kw, dict(desc, **{'_' + k: v for k, v in flags.items()})


def options_part(ctx: Ctx) -> None:
    import xmlschema
    rng = ctx.rng
    schemas: dict[str, Any] = {}
    for fam in 'TN':
        for v11 in (False, True):
            schemas['%s/%s' % (fam, '1.1' if v11 else '1.0')] = (xmlschema.XMLSchema11 if v11 else xmlschema.XMLSchema10)(G.xsd_text(fam, v11))
    schemas['recursive/1.0'] = xmlschema.XMLSchema10(RECURSIVE_XSD)
    mon: Optional[RaiseMonitor] = STATE_MON['mon']
    for i in range(ctx.pick(500, 6000)):
        if rng.random() < 0.1:
            sname = 'recursive/1.0'
            xml = forest_xml(random_forest(rng, 6, 14))
            if not xml.startswith('<n'):
                xml = '<n/>'
            paths = [None, '*', './/n', 'n/n', '/n', 'n', '.', '*/*']
        else:
            fam = rng.choice(['T', 'T', 'N'])
            sname = '%s/%s' % (fam, rng.choice(['1.0', '1.1']))
            c = G.gen_case(rng, family=fam, nfaults=rng.choice([0, 0, 1, 2]))
            root = c['tree']
            if rng.random() < 0.4:
                mutate_tree(rng, root)
            xml = G.serialize(root, c['style'])
            paths = [None, None, '*', '*/*', './/*', '.', '/*', '*/*/*', './/p:item', 'p:root/p:item', 'doc/*', '/doc', 'nothing', '*[1]']
        data = xml.encode('utf-8', 'surrogatepass')
        schema = schemas[sname]
        wf_depth = doc_depth(data)
        for_decode = rng.random() < 0.6
        kw, desc = random_options(rng, xmlschema, for_decode)
        path = rng.choice(paths)
        nsmap = {'p': G.TNS, 'o': G.ONS}
        lazy = rng.choice([False, False, True, 2]) if path is None else False     # a path cannot be used on a lazy resource
        mode = rng.choice(['lax', 'lax', 'strict', 'skip'])
        stop = desc.pop('_stop')
        desc.pop('_strict_hook')

        def src() -> Any:
            return xmlschema.XMLResource(data, lazy=lazy) if lazy else data
        if for_decode:
            api = rng.choice(['iter_decode', 'decode', 'to_objects' if 'converter' not in kw else 'decode'])
            if api == 'iter_decode':
                fn = lambda: list(schema.iter_decode(src(), path=path, validation=mode, namespaces=nsmap, **kw))  # noqa
            elif api == 'decode':
                fn = lambda: schema.decode(src(), path=path, validation=mode, namespaces=nsmap, **kw)  # noqa
            else:
                kw.pop('converter', None)
                fn = lambda: schema.to_objects(src(), path=path, validation=mode, namespaces=nsmap, **kw)  # noqa
        else:
            api = rng.choice(['iter_errors', 'is_valid', 'validate'])
            vkw = {k: v for k, v in kw.items() if k in ('max_depth', 'validation_hook', 'extra_validator', 'use_defaults', 'use_location_hints')}
            if api == 'iter_errors':
                mode = 'lax'
                fn = lambda: list(schema.iter_errors(src(), path=path, namespaces=nsmap, **vkw))  # noqa
            elif api == 'is_valid':
                mode = 'lax'
                fn = lambda: schema.is_valid(src(), path=path, namespaces=nsmap, **vkw)  # noqa
            else:
                mode = 'strict'
                fn = lambda: schema.validate(src(), path=path, namespaces=nsmap, **vkw)  # noqa
        if mon is not None and mon.ok:
            o, fired = mon.watch(fn)
        else:
            o, fired = call(fn), []
        if o.get('exc') == 'XMLResourceError' and 'already under iteration' in o.get('msg', ''):
            import gc
            gc.collect()
            o = call(fn)
        case = {'schema': sname, 'mutation': 'options', 'xml': xml, 'hex': data.hex() if not data.isascii() else None, 'api': api,
                'mode': mode, 'path': path, 'lazy': lazy, 'options': desc, 'depth': wf_depth, 'seed_index': i}
        ctx.case(case, o['class'] != 'verdict' or bool(desc), tag='options/' + api)
        ctx.count('options-outcome:%s' % (o.get('exc') or 'verdict'))
        for k in desc:
            ctx.count('option:' + k)
        if o['class'] == 'foreign':
            report(ctx, 'schema-level API with options: an exception outside the library hierarchy escaped', case,
                   {'exc': o['exc'], 'msg': o['msg'], 'entry': api, 'mode': mode, 'where': o.get('where'), 'options': desc})
        elif o['class'] == 'library' and mode in ('lax', 'skip') and wf_depth is not None and wf_depth <= State.max_xml_depth:
            if o['exc'] == 'XMLSchemaStopValidation' and stop:
                ctx.count('options:stop-requested-by-hook')
                continue
            if o['exc'] in ('XMLResourceForbidden', 'XMLResourceBlocked'):
                continue
            report(ctx, '%s mode raised for a well-formed document (invalid content must be collected, not raised)' % mode, case,
                   {'exc': o['exc'], 'msg': o['msg'], 'entry': api, 'mode': mode, 'where': o.get('where'), 'options': desc})


# ------------------------------------------------------------------------------------------------
# list / union / nillable / empty-able elements in single and repeated positions × every converter × decode options
LV_XSD = """<xs:schema xmlns:xs="http://www.w3.org/2001/XMLSchema">
  <xs:simpleType name="ints"><xs:list itemType="xs:int"/></xs:simpleType>
  <xs:simpleType name="uni"><xs:union memberTypes="xs:int xs:boolean ints"/></xs:simpleType>
  <xs:element name="root"><xs:complexType><xs:sequence>
    <xs:element name="codes" type="ints"/>
    <xs:element name="refs" type="xs:NMTOKENS" minOccurs="0"/>
    <xs:element name="ids" type="xs:IDREFS" minOccurs="0"/>
    <xs:element name="u" type="uni" minOccurs="0"/>
    <xs:element name="nil" type="xs:int" nillable="true" minOccurs="0"/>
    <xs:element name="s" type="xs:string" minOccurs="0"/>
    <xs:element name="many" type="ints" minOccurs="0" maxOccurs="unbounded"/>
    <xs:sequence minOccurs="0" maxOccurs="unbounded">
      <xs:element name="row" type="ints"/>
      <xs:element name="note" type="xs:string" minOccurs="0"/>
      <xs:element name="un" type="uni" minOccurs="0"/>
    </xs:sequence>
    <xs:element name="e" minOccurs="0" maxOccurs="2"><xs:complexType><xs:sequence>
      <xs:element name="row" type="ints" minOccurs="0" maxOccurs="2"/></xs:sequence>
      <xs:attribute name="a" type="ints"/></xs:complexType></xs:element>
  </xs:sequence></xs:complexType></xs:element>
</xs:schema>"""
LV_VALUES = ['', ' ', ' \n\t ', '1', '1 2', ' 7 ', 'x', '1 x', 'true', 'a b']
LV_NAMES = ['codes', 'refs', 'ids', 'u', 'nil', 's', 'many', 'row', 'note', 'un']


def lists_part(ctx: Ctx) -> None:
    """Documents over list / union / nillable / string elements with blank, whitespace-only and duplicated siblings:
    exhaustive pairs (name, first value, second value) plus random sequences, decoded with each of the 9 converters in
    lax / skip / strict with keep_empty / force_list / preserve_root / … option sets: a verdict or a library error."""
    import xmlschema
    rng = ctx.rng
    schema = xmlschema.XMLSchema10(LV_XSD)
    mon: Optional[RaiseMonitor] = STATE_MON['mon']
    docs: list[str] = []
    for name in LV_NAMES:
        for v1 in LV_VALUES[:5]:
            for v2 in ('', '1 2', 'x'):
                el = lambda v: ('<%s/>' % name) if v == '' and rng.random() < 0.5 else '<%s>%s</%s>' % (name, v, name)   # noqa
                pre = '<codes>1</codes>' if name != 'codes' else ''
                docs.append('<root>%s%s%s</root>' % (pre, el(v1), el(v2)))
                if name in ('row', 'un', 'codes'):
                    docs.append('<root>%s%s<note>n</note>%s</root>' % (pre, el(v1), el(v2)))
    for _ in range(ctx.pick(90, 1500)):
        items = []
        for _ in range(rng.randint(1, 6)):
            n = rng.choice(LV_NAMES)
            v = rng.choice(LV_VALUES)
            nil = ' xmlns:xsi="%s" xsi:nil="%s"' % (G.XSI, rng.choice(['true', 'false', '1'])) if rng.random() < 0.1 else ''
            items.append('<%s%s>%s</%s>' % (n, nil, v, n))
            if rng.random() < 0.35:
                items.append(items[-1] if rng.random() < 0.6 else '<%s>%s</%s>' % (n, rng.choice(LV_VALUES), n))
        if rng.random() < 0.3:
            items.append('<e a="%s">%s</e>' % (rng.choice(LV_VALUES), ''.join('<row>%s</row>' % rng.choice(LV_VALUES) for _ in range(rng.randint(0, 3)))))
        docs.append('<root>%s</root>' % ''.join(items))
    optsets = [{}, {'keep_empty': True}, {'keep_empty': True, 'force_list': True}, {'force_list': True}, {'fill_missing': True},
               {'keep_empty': True, 'preserve_root': True}, {'force_dict': True, 'keep_empty': True}, {'strip_namespaces': True},
               {'keep_empty': True, 'use_defaults': False, 'decimal_type': str}, {'keep_unknown': True, 'process_skipped': True}]
    for i, xml in enumerate(docs):
        data = xml.encode()
        outcomes = []
        for cname in ENC_CONVERTERS:
            conv = getattr(xmlschema, cname)
            # every converter: all three modes with two option sets (one fixed, one drawn), so that each
            # (converter, mode, keep_empty) combination is driven on every document
            for mode in ('lax', 'skip', 'strict'):
                for opts in (({'keep_empty': True}, rng.choice(optsets)) if mode == 'lax' else (rng.choice(({'keep_empty': True}, {})),)):
                    fn = lambda: schema.decode(data, converter=conv, validation=mode, **opts)   # noqa
                    if mon is not None and mon.ok:
                        o, fired = mon.watch(fn)
                        if STATE_MON['obs'] is not None:
                            STATE_MON['obs'].add(mode, fired, o, mon, {'schema': 'lists', 'mutation': 'lists', 'xml': xml, 'hex': None,
                                                                       'entry': 'decode:%s:%s' % (cname, mode)})
                    else:
                        o = call(fn)
                    outcomes.append(o['class'])
                    ctx.count('lists-outcome:%s' % (o.get('exc') or 'verdict'))
                    case = {'schema': 'lists', 'mutation': 'lists', 'xml': xml, 'hex': None, 'converter': cname, 'mode': mode,
                            'options': {k: getattr(v, '__name__', v) for k, v in opts.items()}, 'depth': 2}
                    if o['class'] == 'foreign':
                        report(ctx, 'decoding with a converter: an exception outside the library hierarchy escaped', case,
                               {'exc': o['exc'], 'msg': o['msg'], 'entry': 'decode:' + cname, 'mode': mode, 'where': o.get('where'),
                                'options': case['options']})
                    elif o['class'] == 'library' and mode in ('lax', 'skip'):
                        report(ctx, '%s mode raised for a well-formed document (invalid content must be collected, not raised)' % mode,
                               case, {'exc': o['exc'], 'msg': o['msg'], 'entry': 'decode:' + cname, 'mode': mode, 'where': o.get('where'),
                                      'options': case['options']})
        ctx.case({'schema': 'lists', 'mutation': 'lists', 'xml': xml}, any(x != 'verdict' for x in outcomes), tag='lists')


# ------------------------------------------------------------------------------------------------
# element AND attribute wildcards of every constraint form × processContents × position × occurrence, with documents
# whose content model fails AT the wildcard (missing child, repeated / unexpected child, child of an excluded namespace)

WILD_NS_10 = ['##any', '##other', '##local', '##targetNamespace', 'urn:x', 'urn:x urn:y', '', '##local ##targetNamespace', 'urn:x ##local']
WILD_NS_11 = [('notNamespace', 'urn:x ##targetNamespace'), ('notNamespace', '##local'), ('notNamespace', 'urn:x'),
              ('notQName', '##defined'), ('notQName', '##definedSibling'), ('notQName', 't:g x:e'),
              ('namespace+notQName', '##other|x:e'), ('notNamespace+notQName', 'urn:y|##defined')]


def wild_attrs(form: Any) -> str:
    if isinstance(form, str):
        return 'namespace="%s"' % form
    kind, val = form
    if '+' in kind:
        a, b = kind.split('+')
        va, vb = val.split('|')
        return '%s="%s" %s="%s"' % (a, va, b, vb)
    return '%s="%s"' % (kind, val)


def wild_xsd(params: dict) -> str:
    form = params['form'] if isinstance(params['form'], str) else tuple(params['form'])
    aform = params['aform'] if isinstance(params['aform'], str) else tuple(params['aform'])
    occ = {'optional': 'minOccurs="0"', 'required': '', 'repeated': 'minOccurs="1" maxOccurs="3"', 'many0': 'minOccurs="0" maxOccurs="unbounded"'}[params['occurs']]
    w = '<xs:any %s processContents="%s" %s/>' % (wild_attrs(form), params['pc'], occ)
    a = '<xs:element name="a" type="xs:string"/>'
    b = '<xs:element name="b" type="xs:int" minOccurs="0"/>'
    body = {'last': a + w, 'first': w + a, 'middle': a + w + '<xs:element name="b" type="xs:int"/>', 'only': w,
            'choice': '<xs:choice maxOccurs="2">' + a + w + '</xs:choice>', 'nested': a + '<xs:sequence minOccurs="0" maxOccurs="2">' + w + b + '</xs:sequence>'}[params['pos']]
    return ('<xs:schema xmlns:xs="http://www.w3.org/2001/XMLSchema" targetNamespace="urn:t" xmlns:t="urn:t" xmlns:x="urn:x" '
            'elementFormDefault="qualified"><xs:element name="g" type="xs:int"/><xs:attribute name="ga" type="xs:int"/>'
            '<xs:element name="r"><xs:complexType><xs:sequence>%s</xs:sequence>'
            '<xs:attribute name="k" type="xs:int"/><xs:anyAttribute %s processContents="%s"/></xs:complexType></xs:element></xs:schema>'
            % (body, wild_attrs(aform), params['apc']))


WILD_CHILDREN = {'a': '<a>1</a>', 'b': '<b>2</b>', 'bx': '<b>x</b>', 'g': '<g>3</g>', 'gx': '<g>x</g>', 'x': '<x:e xmlns:x="urn:x">v</x:e>',
                 'y': '<y:e xmlns:y="urn:y"/>', 'l': '<l xmlns="">loc</l>', 'u': '<u/>'}
WILD_DOCS = [[], ['a'], ['a', 'a'], ['a', 'x'], ['x', 'a'], ['a', 'x', 'b'], ['a', 'b'], ['a', 'x', 'x', 'x', 'x'], ['a', 'l'], ['a', 'g'],
             ['a', 'gx'], ['a', 'y', 'b'], ['b'], ['x'], ['a', 'u'], ['a', 'l', 'bx'], ['g', 'a'], ['a', 'y', 'y']]
WILD_ATTRS = ['', ' x:p="1" xmlns:x="urn:x"', ' p="1"', ' t:ga="7" xmlns:t="urn:t"', ' t:ga="x" xmlns:t="urn:t"', ' k="x" y:q="" xmlns:y="urn:y"']


def wild_schema(params: dict) -> Any:
    import xmlschema
    return (xmlschema.XMLSchema11 if params['v'] == '1.1' else xmlschema.XMLSchema10)(wild_xsd(params))


def wildcards_part(ctx: Ctx) -> None:
    import xmlschema
    rng = ctx.rng
    seen: dict = {}
    eps_names = ('is_valid', 'iter_errors', 'validate', 'decode:strict', 'decode:lax', 'decode:skip', 'lazy.iter_errors', 'lazy.decode:lax')
    combos: list[dict] = []
    # every constraint form once with processContents strict at the last position, required (the model fails AT the wildcard) …
    for v, forms in (('1.0', WILD_NS_10), ('1.1', WILD_NS_10 + WILD_NS_11)):
        for form in forms:
            combos.append({'v': v, 'form': form, 'pc': 'strict', 'pos': 'last', 'occurs': 'required', 'aform': form if isinstance(form, str) or 'Sibling' not in form[1] else '##any', 'apc': 'strict'})
    # … and random draws over the whole product
    for _ in range(ctx.pick(45, 600)):
        v = rng.choice(['1.0', '1.1'])
        forms = WILD_NS_10 + (WILD_NS_11 if v == '1.1' else [])
        aforms = [f for f in forms if isinstance(f, str) or 'Sibling' not in f[1]]
        combos.append({'v': v, 'form': rng.choice(forms), 'pc': rng.choice(['strict', 'lax', 'skip']),
                       'pos': rng.choice(['last', 'first', 'middle', 'only', 'choice', 'nested']),
                       'occurs': rng.choice(['optional', 'required', 'repeated', 'many0']), 'aform': rng.choice(aforms),
                       'apc': rng.choice(['strict', 'lax', 'skip'])})
    built = 0
    for params in combos:
        o = call(lambda: wild_schema(params))
        ctx.count('wild-schema:%s' % (o.get('exc') or 'built'))
        if o['class'] == 'foreign':
            # (schema construction is not the subject of C11 — counted only)
            continue
        if o['class'] != 'verdict':
            continue               # not a schema (UPA violation …): nothing to validate against
        schema = wild_schema(params)
        built += 1
        sname = 'wild:' + json.dumps(params, sort_keys=True)
        eps = [e for e in fuzz_entry_points(schema) if e[0] in eps_names]
        docs = WILD_DOCS if params['pc'] == 'strict' and params['pos'] == 'last' and params['occurs'] == 'required' else \
            rng.sample(WILD_DOCS, ctx.pick(6, 12))
        for kids in docs:
            xml = '<r xmlns="urn:t"%s>%s</r>' % (rng.choice(WILD_ATTRS), ''.join(WILD_CHILDREN[k] for k in kids))
            fuzz_case(ctx, schema, sname, xml.encode(), 'wildcard', seen, entry_points=eps)
    ctx.extra['wildcards'] = {'schemas_built': built, 'combinations': len(combos)}


# ------------------------------------------------------------------------------------------------
# XSD 1.1 XPath tests that can raise DYNAMIC errors at validation time: assertion facets, xs:assert, type alternatives,
# identity fields — a small grammar of expressions × instance values that trigger / do not trigger the error

# (kind, template over the operand expressions {A} {B}, [(value of A, value of B) that triggers, one that does not])
XDYN_TEMPLATES = [
    ('div0', 'xs:integer({A}) idiv xs:integer({B}) gt 5', [('7', '0'), ('70', '1')]),
    ('div0', 'xs:integer({A}) div xs:integer({B}) gt 5', [('7', '0'), ('7', '1')]),
    ('div0', 'xs:integer({A}) mod xs:integer({B}) eq 0', [('7', '0'), ('8', '2')]),
    ('div0', 'xs:decimal({A}) div xs:decimal({B}) gt 1', [('1.5', '0.0'), ('3', '2')]),
    ('div0', 'xs:double({A}) idiv xs:double({B}) gt 1', [('INF', '1'), ('9', '2')]),
    ('date-range', "xs:date({A}) + xs:yearMonthDuration('P9999Y') lt xs:date('2000-01-01')", [('9999-01-01', ''), ('1999-01-01', '')]),
    ('date-range', "xs:date({A}) - xs:dayTimeDuration('P9999999D') gt xs:date('1000-01-01')", [('0001-01-01', ''), ('9999-01-01', '')]),
    ('date-range', "xs:dateTime({A}) + xs:dayTimeDuration({B}) gt xs:dateTime('2000-01-01T00:00:00')", [('9999-12-31T23:59:59', 'P9999999D'), ('2001-01-01T00:00:00', 'PT1S')]),
    ('date-range', "xs:yearMonthDuration({A}) * xs:integer({B}) gt xs:yearMonthDuration('P1Y')", [('P99999999Y', '99999999999'), ('P1Y', '2')]),
    ('date-range', "xs:dayTimeDuration({A}) div xs:dayTimeDuration({B}) gt 1", [('P1D', 'PT0S'), ('P2D', 'P1D')]),
    ('cast', 'xs:integer({A}) gt 3', [('x', ''), ('7', '')]),
    ('cast', "xs:date({A}) lt xs:date('2000-01-01')", [('2000-02-30', ''), ('1999-01-01', '')]),
    ('cast', "xs:date('bad') lt xs:date({A})", [('1999-01-01', ''), ('1999-01-01', '')]),
    ('cast', 'xs:double({A}) gt xs:float({B})', [('1e', 'abc'), ('1e3', '2')]),
    ('cast', 'xs:boolean({A}) and xs:hexBinary({B}) eq xs:hexBinary("0A")', [('maybe', 'zz'), ('true', '0A')]),
    ('big', 'xs:integer({A}) * xs:integer({A}) * xs:integer({A}) * xs:integer({A}) gt xs:integer({B})', [('99999999999999999999999999', '1'), ('2', '1')]),
    ('big', 'xs:double({A}) * 1e308 * xs:double({B}) gt 0', [('1e308', '1e308'), ('1', '1')]),
    ('big', 'xs:int({A}) + xs:byte({B}) gt 0', [('99999999999', '300'), ('1', '1')]),
    ('big', 'xs:decimal({A}) * xs:decimal({B}) gt 0', [('1e400', '1'), ('1.5', '2')]),
    ('strnum', 'number({A}) gt 1 or sum((xs:integer({A}), xs:integer({B}))) gt 0', [('x', 'y'), ('2', '3')]),
    ('strnum', 'avg((xs:integer({A}), xs:integer({B}))) gt 0 and max(({A}, 1)) gt 0', [('x', '1'), ('2', '3')]),
    ('strnum', "codepoints-to-string(xs:integer({A})) eq 'a' or substring({B}, xs:integer({A})) eq ''", [('0', 'abc'), ('97', 'abc')]),
    ('strnum', 'string-to-codepoints({A})[1] idiv string-length({B}) gt 1', [('a', ''), ('a', 'b')]),
    ('regex', "matches('abc', {A})", [('[', ''), ('b', '')]),
    ('regex', "replace('abc', {A}, {B}) eq 'x'", [('(a', '$9'), ('b', 'x')]),
    ('regex', "tokenize('a b', {A}) = 'a' or matches({B}, '^a', {A})", [('', 'x'), (' ', 'a')]),
    ('emptyseq', '({Z} + 1) gt 0', [('', ''), ('', '')]),
    ('emptyseq', 'xs:integer({Z}) idiv xs:integer({A}) eq 1', [('0', ''), ('1', '')]),
    ('emptyseq', '{Z} idiv 2 eq 1 or xs:date({Z}) lt xs:date({A})', [('x', ''), ('1999-01-01', '')]),
    ('type-error', '{A} + 1 gt 0', [('x', ''), ('1', '')]),
    ('type-error', "({A}, {B}) eq 'a'", [('a', 'b'), ('a', 'a')]),
    ('type-error', "xs:date({A}) lt {B}", [('1999-01-01', 'x'), ('1999-01-01', '2000-01-01')]),
]
XDYN_VALUES = ['7', '0', '8', 'x', '', '9999-01-01', '1999-01-01', '-1', '99999999999999999999', '1e400', '[', '(a', 'P1Y', 'PT0S', '0.0',
               'NaN', 'INF', ' 7 ', '2000-02-30', '0001-01-01', 'P99999999Y', '-0', '١٢', 'a' * 3000]
XDYN_FIELD_TYPES = ['xs:date', 'xs:integer', 'xs:duration', 'xs:double', 'xs:gYear', 'xs:dateTime', 'xs:decimal', 'xs:QName', 'xs:gYearMonth']
XDYN_SITES = ['facet', 'facet-attr', 'assert', 'assert-child', 'alternative', 'identity']


def xdyn_xsd(params: dict) -> str:
    site, test = params['site'], params.get('test', '')
    test = test.replace('&', '&amp;').replace('<', '&lt;').replace('"', '&quot;')
    head = '<xs:schema xmlns:xs="http://www.w3.org/2001/XMLSchema">'
    if site in ('facet', 'facet-attr'):
        t = '<xs:simpleType name="T"><xs:restriction base="xs:string"><xs:assertion test="%s"/></xs:restriction></xs:simpleType>' % test
        if site == 'facet':
            return head + t + '<xs:element name="r" type="T"/></xs:schema>'
        return head + t + '<xs:element name="r"><xs:complexType><xs:attribute name="n" type="T"/><xs:attribute name="m"/></xs:complexType></xs:element></xs:schema>'
    if site == 'assert':
        return head + ('<xs:element name="r"><xs:complexType><xs:attribute name="n"/><xs:attribute name="m"/>'
                       '<xs:assert test="%s"/></xs:complexType></xs:element></xs:schema>' % test)
    if site == 'assert-child':
        return head + ('<xs:element name="r"><xs:complexType><xs:sequence><xs:element name="n" type="xs:string" minOccurs="0"/>'
                       '<xs:element name="m" type="xs:string" minOccurs="0"/></xs:sequence><xs:assert test="%s"/></xs:complexType></xs:element></xs:schema>' % test)
    if site == 'alternative':
        return head + ('<xs:complexType name="B"><xs:simpleContent><xs:extension base="xs:string"><xs:attribute name="n"/><xs:attribute name="m"/>'
                       '</xs:extension></xs:simpleContent></xs:complexType>'
                       '<xs:complexType name="B2"><xs:simpleContent><xs:restriction base="B"><xs:maxLength value="1"/></xs:restriction></xs:simpleContent></xs:complexType>'
                       '<xs:element name="r" type="B"><xs:alternative test="%s" type="B2"/></xs:element></xs:schema>' % test)
    # identity: the field values are extracted by the XPath machinery with the declared type applied
    ft = params['ftype']
    return head + ('<xs:element name="r"><xs:complexType><xs:sequence><xs:element name="i" maxOccurs="unbounded"><xs:complexType>'
                   '<xs:simpleContent><xs:extension base="%s"><xs:attribute name="n" type="%s"/></xs:extension></xs:simpleContent></xs:complexType></xs:element>'
                   '</xs:sequence></xs:complexType><xs:%s name="k"><xs:selector xpath="%s"/><xs:field xpath="%s"/>%s</xs:%s></xs:element></xs:schema>'
                   % (ft, ft, params['ic'], params['sel'], params['fld'], '<xs:field xpath="."/>' if params.get('two') else '', params['ic']))


def xdyn_operands(site: str) -> dict:
    if site in ('facet', 'facet-attr'):
        # one operand only: B is derived from the value itself (… - 7: the value 7 divides by zero)
        return {'A': '$value', 'B': 'string(xs:integer($value) - 7)', 'Z': '()'}
    if site == 'assert-child':
        return {'A': 'n', 'B': 'm', 'Z': 'zz'}
    return {'A': '@n', 'B': '@m', 'Z': '@zz'}


def xdyn_doc(site: str, a: Optional[str], b: Optional[str]) -> str:
    ea = lambda v: esc_attr(v).replace('>', '&gt;')   # noqa
    if site == 'facet':
        return '<r>%s</r>' % ea(a or '')
    if site == 'assert-child':
        return '<r>%s%s</r>' % ('' if a is None else '<n>%s</n>' % ea(a), '' if b is None else '<m>%s</m>' % ea(b))
    if site == 'identity':
        return '<r><i n="%s">%s</i><i n="%s">%s</i><i>%s</i></r>' % (ea(a or ''), ea(b or ''), ea(b or ''), ea(a or ''), ea(a or ''))
    text = 'xx' if site == 'alternative' else ''
    return '<r%s%s>%s</r>' % ('' if a is None else ' n="%s"' % ea(a), '' if b is None else ' m="%s"' % ea(b), text)


def xdyn_schema(params: dict) -> Any:
    import xmlschema
    return xmlschema.XMLSchema11(xdyn_xsd(params))


def xpath_dyn_part(ctx: Ctx) -> None:
    rng = ctx.rng
    seen: dict = {}
    eps_names = ('is_valid', 'iter_errors', 'validate', 'decode:strict', 'decode:lax', 'decode:skip', 'lazy.iter_errors', 'lazy.decode:lax', 'lazy.is_valid')
    stats = {'schemas_built': 0, 'schemas_refused': 0, 'documents': 0}
    jobs: list[tuple[dict, str, list[tuple[Optional[str], Optional[str]]]]] = []
    for site in XDYN_SITES[:-1]:
        ops = xdyn_operands(site)
        for kind, tmpl, pairs in XDYN_TEMPLATES:
            if site.startswith('facet') and kind == 'emptyseq' and '{A}' not in tmpl:
                continue
            test = tmpl.replace('{A}', ops['A']).replace('{B}', ops['B']).replace('{Z}', ops['Z'])
            vals: list[tuple[Optional[str], Optional[str]]] = list(pairs)
            for _ in range(ctx.pick(3, 14)):
                vals.append((rng.choice(XDYN_VALUES + [None]), rng.choice(XDYN_VALUES + [None])))
            if site.startswith('facet'):
                vals.append(('7', None))              # … - 7: division by zero / zero-length operand
            jobs.append(({'site': site, 'kind': kind, 'test': test}, kind, vals))
    for ft in XDYN_FIELD_TYPES:
        for ic, sel, fld, two in (('unique', 'i', '@n', False), ('key', 'i', '@n', True), ('unique', './/i', '.', False), ('unique', '*', '@n', True)):
            vals = [(rng.choice(XDYN_VALUES), rng.choice(XDYN_VALUES)) for _ in range(ctx.pick(2, 8))]
            vals += [('99999999999999999999-01-01', '4294967296-01-01'), ('1e400', 'P99999999999999999999Y')]
            jobs.append(({'site': 'identity', 'kind': 'field:' + ft, 'ftype': ft, 'ic': ic, 'sel': sel, 'fld': fld, 'two': two}, 'field:' + ft, vals))
    for params, kind, vals in jobs:
        site = params['site']
        o = call(lambda: xdyn_schema(params))
        ctx.count('xpath-dyn-schema:%s' % (o.get('exc') or 'built'))
        if o['class'] != 'verdict':
            stats['schemas_refused'] += 1       # (a static error of the expression: schema construction is not C11's subject)
            continue
        schema = xdyn_schema(params)
        stats['schemas_built'] += 1
        sname = 'xdyn:' + json.dumps(params, sort_keys=True)
        eps = [e for e in fuzz_entry_points(schema) if e[0] in eps_names]
        for a, b in vals:
            xml = xdyn_doc(site, a, b)
            stats['documents'] += 1
            ctx.count('xpath-dyn:%s:%s' % (site, kind))
            fuzz_case(ctx, schema, sname, xml.encode('utf-8'), 'xpath-dyn:%s:%s' % (site, kind), seen, entry_points=eps)
    ctx.extra['xpath_dyn'] = dict(stats, templates=len(XDYN_TEMPLATES), sites=XDYN_SITES, exception_classes_seen=dict(sorted(seen.items())))


def policy_part(ctx: Ctx, drv: Optional[Driver], obs: Optional[PolicyObs]) -> None:
    """Tie of the raise-site policy (Model/RaisePolicy.lean) with what the raise statements of xmlschema/validators did
    during the fuzz run: (a) every executed statement is one the model says is executed in that (local) mode;
    (b) for every distinct script — the sequence of raise statements one entry-point call executed — the model's `run`
    predicts which statement, if any, ends the call; compared with the statement the escaping exception came from."""
    if obs is None:
        ctx.notes.append('raise-site policy: sys.monitoring not available, dynamic tie skipped')
        return
    ctx.extra['raise_policy'] = {'calls_observed': obs.calls, 'distinct_sites_fired': len({k[:2] for k in obs.sites}),
                                 'distinct_scripts': len(obs.scripts),
                                 'sites_escaped_lax_skip': sorted({k[0] for k, v in obs.sites.items() if v['escaped'] and k[2] != 'strict'})}
    for (key, idx, mode), rec in obs.sites.items():
        ctx.case({'raise_site': key, 'idx': idx, 'mode': mode}, True, tag='policy/site')
        ctx.count('raise-site-fired:%s' % mode)
    for sk in obs.scripts:
        ctx.case({'script': [list(x) for x in sk[1]], 'mode': sk[0], 'escaped': sk[2], 'exc': sk[3]}, bool(sk[1]), tag='policy/script')
    if not drv:
        return
    keys = sorted(obs.sites)
    for (key, idx, mode), ans in zip(keys, drv.query([{'op': 'site', 'key': k, 'idx': i, 'mode': m} for k, i, m in keys])):
        ctx.traces += 1
        rec = obs.sites[key, idx, mode]
        if not ans.get('known') or ans.get('kind') is None:
            ctx.mismatch('an executed raise statement is not in the regenerated table / not classified', {'site': key, 'idx': idx}, rec, ans)
        elif rec['fired'] and ans.get('fire') == 'silent':
            ctx.mismatch('a raise statement that the policy model says is not executed in this mode (for a built schema and a '
                         'document) was executed', {'site': key, 'idx': idx, 'mode': mode, 'example': rec['example']},
                         {'fired': rec['fired'], 'escaped': rec['escaped']}, ans)
        elif rec['escaped'] and mode != 'strict' and not ans.get('resourceOrStop'):
            ctx.mismatch('the exception of a raise statement left a lax / skip entry point although the policy model says it is '
                         'collected', {'site': key, 'idx': idx, 'mode': mode, 'example': rec['example']},
                         {'fired': rec['fired'], 'escaped': rec['escaped']}, ans)
    ekeys = sorted(obs.encode_sites)
    for (key, idx), ans in zip(ekeys, drv.query([{'op': 'site', 'key': k, 'idx': i, 'mode': 'lax'} for k, i in ekeys])):
        ctx.traces += 1
        if not ans.get('known') or ans.get('kind') is None:
            ctx.mismatch('a raise statement executed while encoding is not in the regenerated table / not classified',
                         {'site': key, 'idx': idx}, obs.encode_sites[key, idx], ans)
        elif ans.get('kind') in ('buildTime', 'notBuilt', 'abstractStub', 'invariant'):
            ctx.mismatch('a raise statement that the policy model says is never executed for a built schema was executed while '
                         'encoding', {'site': key, 'idx': idx}, obs.encode_sites[key, idx], ans)
    sks = sorted(obs.scripts, key=repr)
    reqs = [{'op': 'run', 'mode': sk[0], 'script': [[k, i, n] for k, i, n in sk[1]]} for sk in sks]
    for sk, ans in zip(sks, drv.query(reqs)):
        ctx.traces += 1
        mode, script, esc, exc = sk
        want_key = None
        if esc is not None:
            want_key = esc[0]
        got = ans.get('raised')
        # the model names the class of the site that ends the descent; the implementation: the site the exception came from
        got_site = None
        if got is not None:
            # first site of the script whose class is the predicted one and that the model lets escape
            got_site = ans.get('raisedKind')
        impl = {'escaped_from': want_key, 'exc': exc}
        if ans.get('unknown_site'):
            ctx.mismatch('script with a raise statement unknown to the model', {'script': list(script), 'example': obs.scripts[sk]}, impl, ans)
        elif (got is None) != (want_key is None):
            if want_key is None and exc is not None and mode == 'strict':
                # the call was ended by an exception that did not originate in a raise statement of the validators
                # (resource errors, generator wrappers `raise error` of validate/decode): the last executed statement
                # must then be the strict raise of raise_or_collect re-raised by the wrapper — accepted when the model
                # ends the script with a strict site
                if ans.get('raisedKind') in ('strictGuard', 'strictWrapper'):
                    continue
            ctx.mismatch('raise-site script: the model and the implementation disagree on whether a raise statement ends the call',
                         {'mode': mode, 'script': [list(x) for x in script], 'example': obs.scripts[sk]}, impl, ans)
        elif got is not None and mode != 'strict' and got_site not in ('limit', 'stop'):
            ctx.mismatch('raise-site script: a lax / skip call ended by a statement that is no resource / stop site',
                         {'mode': mode, 'script': [list(x) for x in script], 'example': obs.scripts[sk]}, impl, ans)


def run(ctx: Ctx, driver_ok: bool) -> None:
    ctx.known.extend(e for e in local_findings() if e.get('property') == 'C11'
                     and not any(k['id'] == e['id'] for k in ctx.known))
    drv = Driver('drv_c11') if driver_ok else None
    limits_part(ctx, drv)
    setters_part(ctx, drv)
    handlers_part(ctx, drv)
    with RaiseMonitor() as mon:
        obs = PolicyObs() if mon.ok else None
        STATE_MON['mon'], STATE_MON['obs'] = (mon, obs) if mon.ok else (None, None)
        try:
            typed_values_part(ctx)
            fuzz_part(ctx, drv)
            encode_part(ctx)
            options_part(ctx)
            lists_part(ctx)
            wildcards_part(ctx)
            xpath_dyn_part(ctx)
        finally:
            STATE_MON['mon'] = STATE_MON['obs'] = None
    policy_part(ctx, drv, obs)
    descent_part(ctx, drv)
    table = error_property_table()
    rendered = sorted({'%s.%s' % k for k in RENDERED})
    ctx.extra['error_objects'] = {'classes_with_computed_members': {k: v for k, v in table.items() if v},
                                  'rendered_members': rendered, 'errors_rendered': sum(v for k, v in RENDERED.items() if k[1] == '__str__'),
                                  'never_rendered_on_this_run': sorted('%s.%s' % (c, m) for c, ms in table.items() for m in ms
                                                                       if not m.startswith('__') and '%s.%s' % (c, m) not in rendered)}


def search(ctx: Ctx) -> None:
    """A proof obligation or the tie broke and nothing failed: widen every exploration to the thorough sizes."""
    saved = ctx.tier
    ctx.tier = 'thorough'
    try:
        limits_part(ctx, None)
        if not ctx.failures:
            setters_part(ctx, None)
        if not ctx.failures:
            handlers_part(ctx, None)
        if not ctx.failures:
            fuzz_part(ctx, None)
    finally:
        ctx.tier = saved


def replay(ctx: Ctx, obj: dict) -> int:
    import xmlschema
    print(json.dumps(obj, indent=1, default=str)[:5000])
    case = obj.get('input')
    if not isinstance(case, dict):
        return 0
    ctx.known.extend(e for e in local_findings() if not any(k['id'] == e['id'] for k in ctx.known))
    drv = Driver('drv_c11') if Driver('drv_c11').path.exists() else None
    if 'limits' in case:
        L, E = case['limits']['MAX_XML_DEPTH'], case['limits']['MAX_XML_ELEMENTS']
        if case.get('forest') is not None:
            f = json.loads(json.dumps(case['forest']))
            f = to_forest(f)
        elif case.get('gen'):
            f = comb(case['gen']['chain'], case['gen']['elements'])
        else:
            f = None
        with LimitSetting(L, E):
            if f is not None:
                reqs: list = []
                pend: list = []
                limit_case(ctx, L, E, f, case.get('kind', 'replay').split('/')[0], reqs if drv else None, pend if drv else None,
                           xmlschema.XMLSchema10(RECURSIVE_XSD) if 'validate' in case.get('kind', '') else None)
                if drv and reqs:
                    for (w, c, out, lazy), ans in zip(pend, drv.query(reqs)):
                        print('IMPLEMENTATION (%s):' % ('lazy' if lazy else 'eager'), out, ' MODEL:', ans)
            elif case.get('xml'):
                data = case['xml'].encode()
                for lazy in (False, True):
                    out = resource_outcome(data, lazy)
                    evs = events_of(data)
                    ans = drv.query([{'op': 'parse', 'L': L, 'E': E, 'events': evs}])[0] if drv and evs else None
                    print('IMPLEMENTATION (%s):' % ('lazy' if lazy else 'eager'), out, ' MODEL:', ans)
                    d, s = doc_depth(data) or 0, (evs or '').count('s')
                    over = d > L or (s > E and not lazy)
                    if (out['res'] == 'ok') == over or out['res'] == 'exc':
                        ctx.failure('limit clause', case, out)
    elif 'assignments' in case:
        setters_part(ctx, drv)
    elif 'type' in case and 'value' in case:
        handlers_part(ctx, drv)
    elif case.get('schema') == 'lists':
        schema = xmlschema.XMLSchema10(LV_XSD)
        opts = {k: (str if v == 'str' else v) for k, v in (case.get('options') or {}).items()}
        for cname in ([case['converter']] if case.get('converter') else ENC_CONVERTERS):
            for mode in ([case['mode']] if case.get('mode') else ['lax', 'skip', 'strict']):
                o = call(lambda: schema.decode(case['xml'].encode(), converter=getattr(xmlschema, cname), validation=mode, **opts))
                print('IMPLEMENTATION decode:%s:%s %s' % (cname, mode, o))
                if o['class'] == 'foreign':
                    report(ctx, 'decoding with a converter: an exception outside the library hierarchy escaped', case,
                           {'exc': o['exc'], 'msg': o['msg'], 'entry': 'decode:' + cname, 'mode': mode, 'where': o.get('where')})
                elif o['class'] == 'library' and mode in ('lax', 'skip'):
                    report(ctx, '%s mode raised for a well-formed document' % mode, case,
                           {'exc': o['exc'], 'msg': o['msg'], 'entry': 'decode:' + cname, 'mode': mode, 'where': o.get('where')})
    elif 'schema' in case:
        sname = case['schema']
        if sname.startswith('corpus:'):
            d = dict((n, x) for n, x, _ in corpus_docs())
            schema = xmlschema.XMLSchema10(str(d[sname.split(':', 1)[1]]))
        elif sname.startswith('wild:'):
            schema = wild_schema(json.loads(sname[5:]))
        elif sname.startswith('xdyn:'):
            schema = xdyn_schema(json.loads(sname[5:]))
        elif sname.startswith('recursive'):
            schema = xmlschema.XMLSchema10(RECURSIVE_XSD)
            State.d0 = measure_d0(schema)
        else:
            fam, v = sname.split('/')
            schema = (xmlschema.XMLSchema11 if v == '1.1' else xmlschema.XMLSchema10)(G.xsd_text(fam, v == '1.1'))
        data = bytes.fromhex(case['hex']) if case.get('hex') else case['xml'].encode('utf-8', 'surrogatepass')
        seen: dict = {}
        for name, mode, fn in fuzz_entry_points(schema):
            print('IMPLEMENTATION %-18s' % name, call(lambda: fn(data)))
        fuzz_case(ctx, schema, sname, data, case.get('mutation', 'replay'), seen)
        if drv and seen:
            for n, ans in zip(sorted(seen), drv.query([{'op': 'classify', 'name': n} for n in sorted(seen)])):
                print('MODEL classify', n, ans)
    for f in ctx.failures[:6]:
        print('FAILS ON THE REAL CODE:', f['what'], json.dumps(f['detail'], default=str)[:600])
    print('JUDGEMENT:', 'property violated' if ctx.failures else 'property holds on this input')
    return 1 if ctx.failures else 0


def to_forest(j: Any) -> list:
    return [(int(a), to_forest(b)) for a, b in j]
