"""
C18 — one schema object can be built and used from many threads with unchanged results.

On the real code:
  * a seeded CONTROLLED SCHEDULER serialises 2-4 worker threads that share one schema object and switches
    between them at function-call granularity inside xmlschema/ (sys.settrace per worker + per-thread
    semaphores; the library's locks are replaced, from outside, by scheduler-aware proxies so that a paused
    lock holder can never dead-lock the run; every wait has a time-out, a stuck schedule is abandoned to
    free running, never hangs);
  * every worker first races through `schema.build()` on a not yet built schema (or finds it built) and then
    performs is_valid / iter_errors / decode calls from a document pool (xsi:type under identity
    constraints, unique/key/keyref, wildcards, fixed values, decode errors, generated schemas);
  * every per-thread result is compared with the single-threaded baseline on a fresh schema; the global
    components after the race are compared with a sequential build; the build body must run exactly once;
  * free-running stress with sys.setswitchinterval(1e-6);
  * targeted forced schedules: the C18-F1 window (pause between widening and publication, call
    granularity) and the C18-F2 window (statement granularity, between `elements[e] = …` and
    `selected_by.add`), the latter is a known finding (notes/findings/C18.json, notes/fixes/C18-*.patch).

LINE granularity (harness/lib_c18.py): inside the modelled functions (XsdGlobals.build / clear / __setattr__,
XMLSchemaBase.clear, XsdIdentity.update_elements, XsdElement.raw_decode / collect_key_fields, SchemaCache.__call__ /
clear, schema_cached_property.__get__, functools.cached_property.__get__, text_decode / text_is_valid and the scratch
context users) the scheduler may switch after EVERY line (p_line in {0.05, 0.2, 0.5, 1.0}), 2-3 threads, small
schemas.  The shared containers of the widening (xsi_types, selected_by, identity.elements) are replaced by logging
subclasses; the per-operation event log, the line labels of build() and the look/compute/store events of the cache
front ends are replayed on the statement-level Lean models (drv_c18 ops replayL, xwreplay, creplay): every observed
trace must be a trace of the model, every read must return the model's value, the final shared state must be the
model's and must equal the state after the same calls made sequentially on another schema object.
The table of ALL memoised functions of /repo/xmlschema is regenerated from the source on every run and compared
with MODELLED_CACHES (a new cache breaks the correspondence until classified); the hypotheses of the benign-race
theorems (value = function of the key; entries present at the publication of `_built` = post-build values; nothing
evicts component entries) are checked on the real objects; the scratch-context theorem is tied by a
non-interference differential (adversarial states injected between clear() and use).
XPath through elementpath (XP_XSD, XSD 1.1: assertion facets, xs:assert, type alternatives, identity constraints, open
content): (a) EXHAUSTIVE single-preemption family — thread A suspended at every function call it makes inside
xmlschema OR elementpath, thread B runs a whole call in the window; (b) random schedules that also switch at
elementpath calls and lines; (c) tables regenerated from the source: every class-level / module-level mutable object
(shared by all threads and all schemas) must be classified (MODELLED_GLOBALS) and the ones classified constant must
have the same content fingerprint after the whole run; every XPath evaluation site must build its context in the call
(MODELLED_XPATH_SITES); (d) Lean: percall_context_no_interference / shared_context_race_counterexample, mode read from
the source and compared with the outcome of the pre-emption family.
Known finding C18-F3 (notes/findings/C18.json, notes/fixes/C18-selected-by-snapshot.patch): forced window + random
line-level schedules on F3_XSD.

Tie to the Lean model (Model/Threads.lean): the observed events of the build lock (reads/writes of
`_built`, acquire/release of `_build_lock`, with thread ids, in real order) are replayed on the model by
drv_c18: each event must be an enabled model step and each observed read must return the model's value;
the final model state (runs, maps, pcs) is compared with the real one.  The forced F1/F2 schedules are run
on the model (`wexec`) and on the code and must agree on "thread B collected the key fields or not".
"""
from __future__ import annotations

import json
import os
import random
import sys
import threading
import time
from typing import Any, Callable, Optional

from harness.core import Ctx, Driver, REPO, VERIF
import harness.lib_c18 as L

PROPS = 'XsVerif.Props.C18'
AUDIT = 'XsVerif.Audit.C18'
LEAN_TARGETS = ['XsVerif.Props.C18', 'drv_c18']
LEANCHECK = ['XsVerif.Model.Threads', 'XsVerif.Model.ThreadsWiden', 'XsVerif.Model.ThreadsCache', 'XsVerif.Lemmas.Threads',
             'XsVerif.Lemmas.ThreadsWiden', 'XsVerif.Lemmas.ThreadsCache', 'XsVerif.Props.C18']
RULE = ('a case = (schema, number of threads, per-thread call lists, schedule seed / stress round / forced '
        'schedule / line-level schedule); non-trivial = at least one thread switch happened strictly inside a library '
        'call of another thread (controlled), or the build lock was contended (a thread found it held or found '
        '`_built` already set under the lock), or a forced window was actually reached, or (line-level) at least one '
        'switch happened between two lines of a modelled function and at least one shared-state event was logged; '
        'distinct by canonical JSON')
TRUSTED = ['CPython GIL: a Python statement that performs ONE operation on a shared dict/set/list/attribute (in, add, '
           '__setitem__, get, pop, clear, truth value, iterator creation, one next(), tuple(set)) and the C part of an '
           'lru_cache call are atomic; inside the modelled functions the controlled scheduler switches at every line, '
           'elsewhere at library calls, the stress run samples the rest',
           'threading.Lock semantics (mutual exclusion, no spurious release)',
           'the logging subclasses of set/dict that replace xsi_types / selected_by / identity.elements behave as the '
           'built-in containers (they only add a log entry per operation)']
ASSUMPTIONS = ['documents do not trigger loading of additional schemas during validation (stated in the property)',
               'every thread passes its own document / resource object (the lazy iteration try-lock of a resource is '
               'per resource, not per schema, and is not exercised)',
               'threads reach the schema through build() or a built schema (a thread that reads cached properties of an '
               'unbuilt schema without calling build() is outside the property)']

FINDINGS_FILE = VERIF / 'notes' / 'findings' / 'C18.json'
PREFIX = str(REPO / 'xmlschema') + os.sep
JOIN_TIMEOUT = 60.0
STEP_TIMEOUT = 5.0

XSI = 'http://www.w3.org/2001/XMLSchema-instance'

POOL_XSD = '''<xs:schema xmlns:xs="http://www.w3.org/2001/XMLSchema" targetNamespace="urn:t" xmlns:t="urn:t"
    elementFormDefault="qualified">
 <xs:element name="root">
  <xs:complexType>
   <xs:sequence>
    <xs:element name="item" type="t:Base" maxOccurs="unbounded">
     <xs:unique name="iu"><xs:selector xpath="t:k"/><xs:field xpath="."/></xs:unique>
    </xs:element>
    <xs:element name="ref" type="xs:int" minOccurs="0" maxOccurs="unbounded"/>
    <xs:element ref="t:other" minOccurs="0" maxOccurs="2"/>
    <xs:any namespace="##other" processContents="lax" minOccurs="0" maxOccurs="2"/>
   </xs:sequence>
   <xs:attribute name="v" type="xs:string" fixed="1"/>
  </xs:complexType>
  <xs:unique name="u"><xs:selector xpath="t:item/t:k"/><xs:field xpath="."/></xs:unique>
  <xs:key name="key"><xs:selector xpath="t:item"/><xs:field xpath="@id"/></xs:key>
  <xs:keyref name="kr" refer="t:key"><xs:selector xpath="t:ref"/><xs:field xpath="."/></xs:keyref>
 </xs:element>
 <xs:complexType name="Base">
  <xs:sequence><xs:element name="a" type="t:Small" minOccurs="0"/></xs:sequence>
  <xs:attribute name="id" type="xs:int" use="required"/>
 </xs:complexType>
 <xs:complexType name="Ext"><xs:complexContent><xs:extension base="t:Base">
   <xs:sequence><xs:element name="k" type="xs:string" maxOccurs="unbounded"/></xs:sequence>
 </xs:extension></xs:complexContent></xs:complexType>
 <xs:complexType name="Ext2"><xs:complexContent><xs:extension base="t:Base">
   <xs:sequence><xs:element name="k" type="xs:string" minOccurs="0" maxOccurs="unbounded"/>
     <xs:element name="m" type="xs:boolean" minOccurs="0"/></xs:sequence>
 </xs:extension></xs:complexContent></xs:complexType>
 <xs:simpleType name="Small"><xs:restriction base="xs:int"><xs:maxInclusive value="9"/></xs:restriction></xs:simpleType>
 <xs:element name="other" type="t:Small"/>
 <xs:element name="sub" type="t:Small" substitutionGroup="t:other"/>
 <xs:element name="sub2" type="t:Small" substitutionGroup="t:sub"/>
</xs:schema>'''


def doc(items: str, refs: str = '', extra: str = '', v: str = '1') -> str:
    return (f'<t:root xmlns:t="urn:t" xmlns:xsi="{XSI}" xmlns:o="urn:o" v="{v}">{items}{refs}{extra}</t:root>')


POOL_DOCS = [
    doc('<t:item id="1"><t:a>3</t:a></t:item><t:item id="2"/>', '<t:ref>1</t:ref>'),
    doc('<t:item id="1" xsi:type="t:Ext"><t:k>x</t:k><t:k>x</t:k></t:item>'),                       # duplicate unique under xsi:type
    doc('<t:item id="1" xsi:type="t:Ext"><t:k>x</t:k><t:k>y</t:k></t:item><t:item id="2" xsi:type="t:Ext2"><t:k>y</t:k></t:item>'),
    doc('<t:item id="1" xsi:type="t:Ext2"><t:k>p</t:k><t:k>p</t:k><t:m>true</t:m></t:item>'),
    doc('<t:item id="1"/><t:item id="1"/>'),                                                          # duplicate key
    doc('<t:item id="1"/>', '<t:ref>7</t:ref>'),                                                      # dangling keyref
    doc('<t:item id="1"><t:a>12</t:a></t:item>'),                                                     # facet error
    doc('<t:item id="x"/>'),                                                                           # decode error
    doc('<t:item id="1"/>', '', '<o:any>1</o:any><o:b/>'),                                            # wildcard, lax
    doc('<t:item id="1"/>', '', '', v='2'),                                                           # fixed value
    doc('<t:item id="1" xsi:type="t:Nope"/>'),                                                        # unknown xsi:type
    doc('<t:item id="3" xsi:type="t:Ext"><t:a>4</t:a><t:k>q</t:k></t:item>', '<t:ref>3</t:ref>', '<t:other>5</t:other>'),
    doc('<t:item id="1"/>', '', '<t:sub>4</t:sub><t:sub2>5</t:sub2>'),                                # substitution-group members
    doc('<t:item id="1"/>', '', '<t:sub>40</t:sub>'),                                                 # member with a facet error
]
OPS = ['iter_errors', 'decode', 'is_valid']


# =============================================================================================
#  calls on the real code, canonical results
# =============================================================================================
def call(schema: Any, op: str, xml: str) -> Any:
    import re
    try:
        if op == 'is_valid':
            return ['is_valid', bool(schema.is_valid(xml))]
        if op == 'iter_errors':
            return ['errors', [[type(e).__name__, e.path, re.sub(r' at 0x[0-9a-f]+', '', str(e.reason))]
                               for e in schema.iter_errors(xml)]]
        data, errs = schema.decode(xml, validation='lax')
        return ['decoded', json.dumps(data, default=str, sort_keys=True), len(errs)]
    except Exception as e:   # noqa  (an exception is a result too; it must be the same single-threaded)
        return ['raised', type(e).__name__, re.sub(r' at 0x[0-9a-f]+', '', str(e))[:200]]


def globals_of(schema: Any) -> list:
    return sorted([type(c).__name__, c.name] for c in schema.maps.iter_globals()
                  if not c.name.startswith('{http://www.w3.org/'))


def build_state(schema: Any) -> list:
    """what a thread can see of the built state right after `build()` returned to it: the global
    components, the substitution groups attached to the global elements, the build flags"""
    out = []
    for name, e in sorted(schema.maps.elements.items()):
        if not name.startswith('{http://www.w3.org/'):
            out.append([name, sorted(getattr(e, 'substitutes', ()) or ()), type(e.type).__name__])
    return [out, bool(schema.built), len(list(schema.maps.iter_globals()))]


XSD11_SCHEMAS: set = set()


def fresh(xsd: str, build: bool) -> Any:
    import xmlschema
    if xsd in XSD11_SCHEMAS:
        return xmlschema.XMLSchema11(xsd, build=build)
    return xmlschema.XMLSchema(xsd, build=build)


# =============================================================================================
#  instrumentation of the shared state (from outside)
# =============================================================================================
class Events:
    """ordered log of (thread, event, value) of the build lock of one XsdGlobals"""
    target: Any = None
    log: list = []
    tids: dict = {}
    installed = False
    orig: Any = None
    mutex = threading.Lock()
    on_built: Any = None     # callback(thread) invoked right after a logged write of `_built = True`

    @classmethod
    def tid(cls) -> int:
        return cls.tids.get(threading.get_ident(), -1)

    @classmethod
    def install(cls) -> None:
        if cls.installed:
            return
        from xmlschema.validators.xsd_globals import XsdGlobals
        d = XsdGlobals.__dict__['_built']
        cls.orig = d

        # the access and its log entry are made atomic with respect to the other logged accesses, so that
        # the log order is a real linearisation order also in free-running mode
        def get(self):
            if self is cls.target:
                t = cls.tid()
                if t >= 0:
                    with cls.mutex:
                        v = d.__get__(self, XsdGlobals)
                        cls.log.append([t, 'read', bool(v)])
                    return v
            return d.__get__(self, XsdGlobals)

        def set_(self, v):
            if self is cls.target:
                t = cls.tid()
                if t >= 0:
                    with cls.mutex:
                        cls.log.append([t, 'write', bool(v)])
                        d.__set__(self, v)
                    cb = cls.on_built
                    if v and cb is not None:
                        cb(t)
                    return
            d.__set__(self, v)
        XsdGlobals._built = property(get, set_)
        cls.installed = True


class LockProxy:
    """Replaces a threading.Lock of the library: logs acquire/release and never blocks the controlled
    scheduler (a thread that finds the lock held hands the baton over instead of blocking)."""

    def __init__(self, real: Any, sched: Optional['Sched'], log: bool):
        self.real, self.sched, self.log = real, sched, log
        self.contended = 0

    def acquire(self, blocking: bool = True, timeout: float = -1) -> bool:
        t = Events.tid()
        s = self.sched
        if not blocking:
            # a non-blocking attempt stays non-blocking (the code decides what a refused thread does)
            ok = self.real.acquire(False)
            if not ok:
                self.contended += 1
                if self.log and t >= 0:
                    Events.log.append([t, 'tryfail', True])
                return False
            if self.log and t >= 0:
                Events.log.append([t, 'acquire', True])
            return True
        if s is not None and t >= 0:
            spins = 0
            while not self.real.acquire(False):
                self.contended += 1
                if s.free or spins > 10_000:
                    if not self.real.acquire(True, 30):
                        raise RuntimeError('lock not obtained within 30 s')
                    break
                spins += 1
                s.switch(t, forced=True)
        else:
            if not self.real.acquire(False):
                self.contended += 1
                if not self.real.acquire(True, 30):
                    raise RuntimeError('lock not obtained within 30 s')
        if self.log and t >= 0:
            Events.log.append([t, 'acquire', True])
        return True

    def release(self) -> None:
        t = Events.tid()
        if self.log and t >= 0:
            Events.log.append([t, 'release', True])
        self.real.release()

    def __enter__(self) -> 'LockProxy':
        self.acquire()
        return self

    def __exit__(self, *a: Any) -> None:
        self.release()

    def locked(self) -> bool:
        return self.real.locked()


def instrument(schema: Any, sched: Optional['Sched']) -> tuple[LockProxy, LockProxy]:
    Events.install()
    maps = schema.maps
    bl = LockProxy(maps._build_lock, sched, True)
    object.__setattr__(maps, '_build_lock', bl)
    cl = LockProxy(maps.cache._lock, sched, False)
    maps.cache._lock = cl
    Events.target = maps
    Events.log = []
    return bl, cl


# =============================================================================================
#  controlled scheduler
# =============================================================================================
class Sched:
    """Serialises the workers: exactly one holds the baton; at yield points (library function calls) the
    baton is passed according to a seeded plan."""

    def __init__(self, n: int, rng: random.Random, plan: dict):
        self.n = n
        self.rng = rng
        self.sem = [threading.Semaphore(0) for _ in range(n)]
        self.alive = [True] * n
        self.free = False
        self.calls = 0
        self.switches = 0
        self.inner_switches = 0
        self.depth = [0] * n
        self.plan = plan
        self.at = set(plan.get('at', ()))
        self.p = plan.get('p', 0.0)
        self.abandoned = False

    def others(self, t: int) -> list[int]:
        return [i for i in range(self.n) if i != t and self.alive[i]]

    def switch(self, t: int, forced: bool = False, to: Optional[int] = None) -> None:
        if self.free:
            return
        o = self.others(t)
        if not o:
            return
        nxt = to if to is not None and to in o else self.rng.choice(o)
        self.switches += 1
        self.sem[nxt].release()
        if not self.sem[t].acquire(timeout=STEP_TIMEOUT * 4):
            self.abandon()

    def abandon(self) -> None:
        self.free = True
        self.abandoned = True
        for s in self.sem:
            for _ in range(4):
                s.release()

    def yield_point(self, t: int) -> None:
        if self.free:
            return
        self.calls += 1
        if self.calls in self.at or (self.p and self.rng.random() < self.p):
            self.inner_switches += 1
            self.switch(t)

    def start(self, t: int) -> None:
        """worker t waits for the baton"""
        if not self.sem[t].acquire(timeout=JOIN_TIMEOUT):
            self.abandon()

    def finish(self, t: int) -> None:
        self.alive[t] = False
        if self.free:
            return
        o = self.others(t)
        if o:
            self.sem[self.rng.choice(o)].release()


def make_tracer(sched: Sched, t: int) -> Callable:
    def tracer(frame, event, arg):
        if event == 'call' and frame.f_code.co_filename.startswith(PREFIX):
            sched.yield_point(t)
        return None
    return tracer


def run_threads(schema: Any, jobs: list[list[tuple[str, str]]], sched: Optional[Sched], build_first: bool,
                tracer_factory: Optional[Callable] = None) -> tuple[list, bool]:
    """Runs the jobs in worker threads sharing `schema`; returns (per-thread results, hung?)."""
    n = len(jobs)
    results: list = [None] * n
    Events.tids = {}

    def worker(t: int) -> None:
        Events.tids[threading.get_ident()] = t
        out = []
        try:
            if sched is not None:
                sched.start(t)
                sys.settrace(tracer_factory(sched, t) if tracer_factory else make_tracer(sched, t))
            if build_first:
                try:
                    schema.build()
                    out.append(['build', 'ok', build_state(schema)])
                except Exception as e:   # noqa
                    out.append(['build', 'raised', type(e).__name__, str(e)[:200]])
            for op, xml in jobs[t]:
                out.append(call(schema, op, xml))
        finally:
            sys.settrace(None)
            results[t] = out
            if sched is not None:
                sched.finish(t)

    ths = [threading.Thread(target=worker, args=(i,), daemon=True) for i in range(n)]
    for th in ths:
        th.start()
    if sched is not None:
        sched.sem[sched.rng.randrange(n) if sched.plan.get('first') is None else sched.plan['first']].release()
    deadline = time.time() + JOIN_TIMEOUT
    hung = False
    for th in ths:
        th.join(max(0.1, deadline - time.time()))
        if th.is_alive():
            hung = True
    if hung and sched is not None:
        sched.abandon()
        for th in ths:
            th.join(10)
        hung = any(th.is_alive() for th in ths)
    return results, hung


# =============================================================================================
#  one shared-schema experiment
# =============================================================================================
class Baseline:
    def __init__(self, xsd: str):
        self.xsd = xsd
        self.schema = fresh(xsd, True)
        self.globals = globals_of(self.schema)
        self.state = build_state(self.schema)
        self.memo: dict = {}

    def result(self, op: str, xml: str) -> Any:
        k = (op, xml)
        if k not in self.memo:
            self.memo[k] = call(self.schema, op, xml)
        return self.memo[k]


def judge(ctx: Ctx, case: dict, base: Baseline, schema: Any, jobs: list, results: list, hung: bool,
          build_first: bool, known: Optional[Callable] = None) -> None:
    def fail(what: str, detail: Any) -> None:
        fid = known_match(case, detail) if known is None else known(case, detail)
        if fid:
            ctx.known_hit(fid)
        else:
            ctx.failure(what, case, detail)
    if hung:
        fail('a worker thread did not finish (hang) while sharing one schema object', {'results': results})
        return
    for t, (job, res) in enumerate(zip(jobs, results)):
        if res is None:
            fail('worker produced no result', {'thread': t})
            continue
        r = list(res)
        if build_first:
            b = r.pop(0)
            if b[:2] != ['build', 'ok']:
                fail('schema.build() fails in a thread', {'thread': t, 'result': b})
            elif b[2] != base.state:
                fail('build() returned to a thread before the schema reached the state of a sequential build',
                     {'thread': t, 'seen': b[2], 'sequential': base.state})
        for (op, xml), got in zip(job, r):
            want = base.result(op, xml)
            if got != want:
                fail('a call on the shared schema returns a result different from the single-threaded one',
                     {'thread': t, 'op': op, 'xml': xml, 'threaded': got, 'single': want})
    g = globals_of(schema)
    if g != base.globals:
        fail('global components after the threaded build differ from a sequential build',
             {'missing': [x for x in base.globals if x not in g], 'extra': [x for x in g if x not in base.globals]})


def replay_request(n: int) -> dict:
    return {'op': 'replay', 'threads': n, 'body': 3, 'post': 1, 'events': list(Events.log)}


def build_facts(n: int) -> dict:
    ev = Events.log
    return {'runs': sum(1 for e in ev if e[1] == 'write' and e[2]),
            'acquires': sum(1 for e in ev if e[1] == 'acquire'),
            'fast': sum(1 for i in range(n) if next((e for e in ev if e[0] == i and e[1] == 'read'), [0, 0, False])[2])}


def experiment(ctx: Ctx, batch: list, base: Baseline, case: dict, jobs: list, sched: Optional[Sched],
               build_first: bool, tracer_factory: Optional[Callable] = None,
               known: Optional[Callable] = None) -> tuple[Any, list]:
    n = len(jobs)
    schema = fresh(base.xsd, not build_first)
    bl, cl = instrument(schema, sched)
    try:
        results, hung = run_threads(schema, jobs, sched, build_first, tracer_factory)
    finally:
        Events.target = None
    judge(ctx, case, base, schema, jobs, results, hung, build_first, known)
    facts = build_facts(n)
    if build_first and not hung:
        if facts['runs'] != 1:
            ctx.failure('the build body ran %d times (must be exactly once)' % facts['runs'], case, facts)
        batch.append((replay_request(n), case, facts, n))
    contended = bl.contended > 0 or (build_first and facts['acquires'] > 1)
    inner = sched.inner_switches if sched is not None else 0
    nontrivial = contended or inner > 0
    ctx.count('build:contended' if contended else 'build:uncontended')
    if sched is not None:
        ctx.count('schedule:abandoned' if sched.abandoned else 'schedule:completed')
        ctx.count('switches', sched.switches)
        ctx.count('yield-points', sched.calls)
    return schema, results, nontrivial


def flush(ctx: Ctx, batch: list, drv: Optional[Driver]) -> None:
    if drv is None or not batch:
        batch.clear()
        return
    answers = drv.query([b[0] for b in batch])
    for (req, case, facts, n), m in zip(batch, answers):
        ctx.traces += 1
        if 'err' in m:
            ctx.mismatch('driver error', case, None, m)
        elif not m['ok']:
            ctx.mismatch('build-lock events of the real run are not a run of the model', case, req['events'][:40], m['why'])
        else:
            if m['runs'] != facts['runs'] or not m['built'] or m['maps'] != 'complete' \
                    or any(p != 'done:complete' for p in m['pcs']):
                ctx.mismatch('final state of the build lock', case, facts, m)
    batch.clear()


def random_jobs(rng: random.Random, n: int, docs: list[str], k: int) -> list:
    return [[(rng.choice(OPS), rng.choice(docs)) for _ in range(k)] for _ in range(n)]


# =============================================================================================
#  forced windows (C18-F1 at call granularity, C18-F2 at statement granularity)
# =============================================================================================
DUP = POOL_DOCS[1]


def forced_built_window(ctx: Ctx, base: Baseline) -> None:
    """Thread 0 builds alone up to the moment it publishes `_built = True`; exactly there thread 1 runs
    `build()` (fast path), looks at the built state and validates documents (substitution-group members
    included) to the end; then thread 0 resumes.  Whatever the build body does after publishing the flag
    is invisible to thread 1 -- which is precisely what `build_once` forbids (`_built` => complete maps)."""
    docs = [POOL_DOCS[-2], POOL_DOCS[-1], POOL_DOCS[1], POOL_DOCS[0]]
    fired = {'n': 0}
    sched = Sched(2, random.Random(7), {'first': 0})

    def on_built(t: int) -> None:
        if t == 0 and fired['n'] == 0:
            fired['n'] += 1
            sched.switch(0, forced=True, to=1)
    case = {'forced': 'B', 'variant': 'after-built-flag', 'docs': docs, 'threads': 2}
    jobs = [[('iter_errors', d) for d in docs], [('iter_errors', d) for d in docs] + [('decode', docs[0])]]
    Events.on_built = on_built
    try:
        batch: list = []
        experiment(ctx, batch, base, case, jobs, sched, True, lambda sc, t: (lambda frame, event, arg: None))
    finally:
        Events.on_built = None
    ctx.case(case, fired['n'] > 0, tag='forced:B/after-built-flag' + ('' if fired['n'] else ' (window not reached)'))


def forced_build_body_windows(ctx: Ctx, base: Baseline, docs: list, max_windows: int) -> None:
    """Thread 0 calls build() on an unbuilt schema and is suspended at a statement boundary of build() (EVERY line
    event of the build() frame of this schema's maps, from the first `if self._built` to the last statement; every
    `stride`-th when there are more than `max_windows`); thread 1 then calls build(), takes the fingerprint of the
    built state the moment build() returns to it and validates documents, as far as it can run (it is switched out
    when it has to wait for the lock); thread 0 resumes.  Whatever the shape of the locking code: build() must return
    to a thread only when the schema is in the state of a sequential build, and every call = its single-threaded
    result."""
    from xmlschema.validators.xsd_globals import XsdGlobals
    code = XsdGlobals.build.__code__
    # number of line events of the build() frame in a build that nobody disturbs
    probe = fresh(base.xsd, False)
    n_lines = [0]

    def count_tracer(frame, event, arg):
        if event == 'call' and frame.f_code is code and frame.f_locals.get('self') is probe.maps:
            def local(frame, event, arg):
                if event == 'line':
                    n_lines[0] += 1
                return local
            return local
        return None
    sys.settrace(count_tracer)
    try:
        probe.build()
    finally:
        sys.settrace(None)
    total = n_lines[0]
    stride = 1 if total <= max_windows else (total + max_windows - 1) // max_windows
    ctx.count('forced:build-body:statement boundaries', total)
    for j in range(1, total + 1, stride):
        state = {'n': 0, 'fired': False, 'maps': None}

        def factory(sched: Sched, t: int, state=state, j=j) -> Callable:
            def local(frame, event, arg):
                if event == 'line' and t == 0 and not state['fired']:
                    state['n'] += 1
                    if state['n'] == j:
                        state['fired'] = True
                        sched.switch(0, forced=True, to=1)
                return local

            def tracer(frame, event, arg):
                if event == 'call' and t == 0 and not state['fired'] and frame.f_code is code \
                        and frame.f_locals.get('self') is state['maps']:
                    return local
                return None
            return tracer
        sched = Sched(2, random.Random(j), {'first': 0})
        case = {'forced': 'build-body', 'line_event': j, 'of': total, 'threads': 2,
                'schema': 'pool' if base.xsd == POOL_XSD else 'other', 'docs': docs}
        full = dict(case, xsd=base.xsd)
        jobs = [[('iter_errors', d) for d in docs[:2]], [('iter_errors', d) for d in docs] + [('decode', docs[0])]]
        # `experiment` creates the schema: the tracer learns its maps through Events.target

        def factory2(sched: Sched, t: int, factory=factory, state=state) -> Callable:
            state['maps'] = Events.target
            return factory(sched, t)
        batch: list = []
        experiment(ctx, batch, base, full, jobs, sched, True, factory2)
        ctx.case(case, state['fired'], tag='forced:build-body' + ('' if state['fired'] else ' (window not reached)'))
        if len(ctx.failures) > 20:
            break


def forced_window(ctx: Ctx, base: Baseline, drv: Optional[Driver], window: str) -> None:
    """Thread 0 is paused inside the xsi:type widening; thread 1 validates the same document to the end;
    then thread 0 resumes.  window = 'F1' (after update_elements returned, i.e. before xsi_types.add;
    and at the call of update_elements) or 'F2' (between `self.elements[e] = …` and `e.selected_by.add`)."""
    from xmlschema.validators import identities as I
    code = I.XsdIdentity.update_elements.__code__
    import inspect
    src, first = inspect.getsourcelines(I.XsdIdentity.update_elements)
    add_lines = [first + i for i, l in enumerate(src) if 'selected_by.add(self)' in l]
    # which variant of the code is this?  (`selected_by.add` inside the `if e not in self.elements:` branch =
    # current tree = model mode `cur`; dedented = the C18-F2 patch = model mode `patched`)
    ind = lambda l: len(l) - len(l.lstrip())
    patched = all(ind(src[i]) < ind(src[i - 1]) for i, l in enumerate(src) if 'selected_by.add(self)' in l)
    ctx.extra['update_elements_variant'] = 'patched' if patched else 'cur'
    variants = ['call', 'return'] if window == 'F1' else ['line']
    for variant in variants:
        reached = {'n': 0}

        def factory(sched: Sched, t: int) -> Callable:
            def local(frame, event, arg):
                if reached['n'] == 0 and t == 0:
                    if (variant == 'line' and event == 'line' and frame.f_lineno in add_lines) or \
                            (variant == 'return' and event == 'return'):
                        reached['n'] += 1
                        sched.switch(0, to=1)
                return local

            def tracer(frame, event, arg):
                if event == 'call' and frame.f_code is code and t == 0 and reached['n'] == 0:
                    if variant == 'call':
                        reached['n'] += 1
                        sched.switch(0, to=1)
                        return None
                    return local
                return None
            return tracer
        sched = Sched(2, random.Random(1), {'first': 0})
        case = {'forced': window, 'variant': variant, 'doc': DUP, 'threads': 2}
        jobs = [[('iter_errors', DUP)], [('iter_errors', DUP)]]
        batch: list = []
        schema, results, _ = experiment(ctx, batch, base, case, jobs, sched, False, factory)
        ctx.case(case, reached['n'] > 0, tag=f'forced:{window}/{variant}' + ('' if reached['n'] else ' (window not reached)'))
        if window == 'F2' and drv is not None:
            # the model (statement granularity, current order) predicts: thread 1 does not collect
            m = drv.query([{'op': 'wexec', 'mode': 'patched' if patched else 'cur', 'threads': 2,
                            'sched': [0, 0, 0, 1, 1, 1, 1, 1]}])[0]
            ctx.traces += 1
            impl_missed = results[1] is not None and results[1][0] != base.result('iter_errors', DUP)
            if (m['pcs'][1] == 'fin:false') != impl_missed and reached['n']:
                ctx.mismatch('forced F2 schedule: model and code disagree on whether thread 1 collects the keys',
                             case, {'thread1_missed_error': impl_missed}, m)
        if window == 'F1' and drv is not None and variant == 'return':
            m = drv.query([{'op': 'wexec', 'mode': 'curCall', 'threads': 2, 'sched': [0, 0, 0, 1, 1, 1, 1, 1, 0, 0]}])[0]
            ctx.traces += 1
            if m['pcs'][1] != 'fin:true':
                ctx.mismatch('forced F1 schedule on the model', case, None, m)


# =============================================================================================
#  LINE granularity inside the modelled functions
# =============================================================================================
F3_XSD = """<xs:schema xmlns:xs="http://www.w3.org/2001/XMLSchema" targetNamespace="urn:t" xmlns:t="urn:t"
    elementFormDefault="qualified">
 <xs:element name="root"><xs:complexType><xs:sequence>
   <xs:element name="item" type="t:Base" minOccurs="0" maxOccurs="unbounded">
     <xs:unique name="iu"><xs:selector xpath="t:k"/><xs:field xpath="."/></xs:unique>
   </xs:element>
   <xs:element name="item2" type="t:Base" minOccurs="0" maxOccurs="unbounded">
     <xs:unique name="iu2"><xs:selector xpath="t:k|t:j"/><xs:field xpath="."/></xs:unique>
     <xs:key name="ik2"><xs:selector xpath="t:j"/><xs:field xpath="."/></xs:key>
   </xs:element>
   <xs:element name="item3" type="t:Base" minOccurs="0" maxOccurs="unbounded">
     <xs:unique name="iu3"><xs:selector xpath="t:k"/><xs:field xpath="."/></xs:unique>
   </xs:element>
 </xs:sequence></xs:complexType></xs:element>
 <xs:complexType name="Base"><xs:sequence/></xs:complexType>
 <xs:complexType name="Ext"><xs:complexContent><xs:extension base="t:Base">
   <xs:sequence><xs:element name="k" type="xs:string" maxOccurs="unbounded"/></xs:sequence>
 </xs:extension></xs:complexContent></xs:complexType>
 <xs:complexType name="Ext2"><xs:complexContent><xs:extension base="t:Base">
   <xs:sequence><xs:element name="k" type="xs:string" minOccurs="0" maxOccurs="unbounded"/>
     <xs:element name="j" type="xs:string" minOccurs="0" maxOccurs="unbounded"/></xs:sequence>
 </xs:extension></xs:complexContent></xs:complexType>
</xs:schema>"""


def f3doc(body: str) -> str:
    return f'<t:root xmlns:t="urn:t" xmlns:xsi="{XSI}">{body}</t:root>'


F3_DOCS = [
    f3doc('<t:item xsi:type="t:Ext"><t:k>x</t:k><t:k>x</t:k></t:item>'),
    f3doc('<t:item2 xsi:type="t:Ext"><t:k>y</t:k><t:k>y</t:k></t:item2>'),
    f3doc('<t:item3 xsi:type="t:Ext"><t:k>z</t:k><t:k>w</t:k></t:item3>'),
    f3doc('<t:item2 xsi:type="t:Ext2"><t:k>y</t:k><t:j>y</t:j><t:j>q</t:j></t:item2>'),
    f3doc('<t:item xsi:type="t:Ext2"><t:k>a</t:k><t:k>a</t:k><t:j>a</t:j></t:item><t:item3 xsi:type="t:Ext2"><t:k>b</t:k></t:item3>'),
    f3doc('<t:item xsi:type="t:Ext"><t:k>1</t:k></t:item><t:item2 xsi:type="t:Ext"><t:k>1</t:k><t:k>1</t:k></t:item2>'),
    f3doc('<t:item/><t:item2/>'),
]
F3_ERR = ['raised', 'RuntimeError', 'Set changed size during iteration']


class LineHooks:
    """what the line tracer does besides switching: labels of build() lines, cache events"""

    def __init__(self, schema: Any, with_caches: bool):
        self.codes = L.modelled_codes()
        self.build = L.BuildLines()
        self.maps = schema.maps
        self.acquired: set = set()
        self.cl: Optional[L.CacheLog] = L.CacheLog(Events.tid) if with_caches else None
        self.func_codes: set = set()
        if with_caches:
            from xmlschema.caching import _cached_functions
            self.func_codes = {f.__code__ for f in _cached_functions if hasattr(f, '__code__')}
        self.lines = 0

    def line(self, frame: Any, t: int) -> None:
        self.lines += 1
        code = frame.f_code
        if code is self.build.code:
            if frame.f_locals.get('self') is self.maps and Events.target is self.maps:
                lab = self.build.label.get(frame.f_lineno)
                if lab == 'L:with' and t in self.acquired:
                    lab = 'L:exit'
                if lab is not None:
                    Events.log.append([t, lab, True])
        elif self.cl is not None and code is self.cl.cp_code:
            self.cl.cp_line(frame)

    def enter(self, frame: Any, t: int) -> None:
        if self.cl is not None and frame.f_code is self.cl.call_code:
            self.cl.call_enter(frame)

    def ret(self, frame: Any, arg: Any, t: int) -> None:
        if self.cl is not None:
            code = frame.f_code
            if code is self.cl.cp_code:
                self.cl.cp_return(frame, arg)
            elif code is self.cl.call_code:
                self.cl.call_return(frame, arg)


def make_line_tracer_factory(hooks: LineHooks, p_line: float) -> Callable:
    def factory(sched: Sched, t: int) -> Callable:
        codes = hooks.codes
        fcodes = hooks.func_codes
        cl = hooks.cl

        def local(frame, event, arg):
            if event == 'line':
                hooks.line(frame, t)
                if not sched.free and sched.rng.random() < p_line:
                    sched.inner_switches += 1
                    sched.switch(t)
            elif event == 'return':
                hooks.ret(frame, arg, t)
            return local

        def flocal(frame, event, arg):
            if event == 'return' and cl is not None:
                cl.func_return(frame, arg)
            return flocal

        def tracer(frame, event, arg):
            if event != 'call':
                return None
            code = frame.f_code
            if code in codes:
                hooks.enter(frame, t)
                sched.yield_point(t)
                return local
            if code in fcodes:
                if cl is not None:
                    cl.func_enter(frame)
                sched.yield_point(t)
                return flocal
            if code.co_filename.startswith(PREFIX):
                sched.yield_point(t)
            return None
        return tracer
    return factory


_BUILD_LEN: dict = {}


def build_lengths(xsd: str) -> tuple[int, int]:
    """number of statements of build() executed before / after `self._built = True` by a sequential build of
    this schema (line events of the build() frame of the target maps)"""
    if xsd not in _BUILD_LEN:
        schema = fresh(xsd, False)
        hooks = LineHooks(schema, False)
        Events.install()
        Events.target = schema.maps
        Events.log = []
        Events.tids = {threading.get_ident(): 0}
        sched = Sched(1, random.Random(0), {})
        sched.free = True
        sys.settrace(make_line_tracer_factory(hooks, 0.0)(sched, 0))
        try:
            schema.build()
        finally:
            sys.settrace(None)
            Events.target = None
        labs = [e[1] for e in Events.log]
        _BUILD_LEN[xsd] = (labs.count('L:body') - 1, labs.count('L:post'))
        Events.log = []
    return _BUILD_LEN[xsd]


def line_build_experiment(ctx: Ctx, lbatch: list, base: Baseline, docs: list, n: int, seed: int, p_line: float, idx: int) -> None:
    """n threads race through build() of one unbuilt schema with a possible switch at EVERY line of build() (and
    of the functions it shares state through); the line + shared-state event log is replayed on the model"""
    rng = random.Random(seed)
    jobs = random_jobs(rng, n, docs, 1)
    body, post = build_lengths(base.xsd)
    schema = fresh(base.xsd, False)
    sched = Sched(n, random.Random(seed + 1), {'p': 0.002})
    bl, cl = instrument(schema, sched)
    hooks = LineHooks(schema, False)
    orig_acquire = bl.acquire

    def acquire(*a: Any, **k: Any) -> bool:
        r = orig_acquire(*a, **k)
        hooks.acquired.add(Events.tid())
        return r
    bl.acquire = acquire      # type: ignore
    case = {'line-build': idx, 'seed': seed, 'threads': n, 'p_line': p_line, 'schema': 'pool' if base.xsd == POOL_XSD else 'other',
            'jobs': [[(o, docs.index(x)) for o, x in j] for j in jobs]}
    full = dict(case, xsd=base.xsd, docs=docs, line=True)
    try:
        results, hung = run_threads(schema, jobs, sched, True, make_line_tracer_factory(hooks, p_line))
    finally:
        Events.target = None
    judge(ctx, full, base, schema, jobs, results, hung, True)
    facts = build_facts(n)
    if not hung and not sched.abandoned and facts['runs'] != 1:
        ctx.failure('the build body ran %d times (must be exactly once)' % facts['runs'], full, facts)
    if not hung and not sched.abandoned and hooks.build.ok and body >= 0:
        # (when build() does not have the modelled shape the replay is meaningless — that is reported once as a
        #  mismatch by run(); the RESULTS above are judged regardless)
        # a thread may call build() again (validation entry points do): every call is its own model thread
        cur = {t: t for t in range(n)}
        count = {t: 0 for t in range(n)}
        evs = []
        for t, k, v in Events.log:
            if k == 'L:rd0':
                cur[t] = t + n * count[t]
                count[t] += 1
            evs.append([cur[t], k, v])
        nv = n * max(1, max(count.values()))
        used = sorted({e[0] for e in evs})
        lbatch.append(({'op': 'replayL', 'threads': nv, 'body': body, 'post': post, 'events': evs}, case,
                       dict(facts, used=used), n))
    ctx.count('line-build:line-events', hooks.lines)
    ctx.count('line-build:switches', sched.switches)
    ctx.case(case, sched.inner_switches > 0, tag=f'line/build/{n} threads')


def flush_lines(ctx: Ctx, lbatch: list, drv: Optional[Driver]) -> None:
    if drv is None or not lbatch:
        lbatch.clear()
        return
    answers = drv.query([b[0] for b in lbatch])
    for (req, case, facts, n), m in zip(lbatch, answers):
        ctx.traces += 1
        ctx.count('replay:' + req['op'])
        if 'err' in m:
            ctx.mismatch('driver error', case, None, m)
        elif not m['ok']:
            ctx.mismatch(f"{req['op']}: the observed line-level event log is not a trace of the model", case,
                         req['events'][:60], m['why'])
        elif req['op'] == 'replayL':
            if m['runs'] != facts['runs'] or not m['built'] or m['maps'] != 'complete' \
                    or any(m['pcs'][t] != 'done:complete' for t in facts['used']):
                ctx.mismatch('final state of the build lock (line-level replay)', case, facts, m)
        elif req['op'] == 'xwreplay':
            if m['errs'] != facts['raised'] or any(p not in ('idle', 'err') for p in m['pcs']):
                ctx.mismatch('xwreplay: calls that ended with RuntimeError / final pcs', case, facts['raised'], [m['errs'], m['pcs']])
            if m['facts'] != facts['facts']:
                ctx.mismatch('xwreplay: final shared state of the widening differs from the model', case, facts['facts'], m['facts'])
            # the proved invariants, evaluated on the replayed run
            for t, obs in enumerate(m['obs']):
                for e, ids, seen in obs:
                    for p in seen:
                        if e in dict(map(tuple, req['sel'])).get(p, []) and dict(map(tuple, req['idOf']))[p] not in ids:
                            ctx.mismatch('xwreplay: xsi_widening_own_pairs_collected violated on a replayed trace', case, None, [t, e, ids, seen])
        elif req['op'] == 'creplay':
            if not m['sound'] or any(p != 'idle' for p in m['pcs']):
                ctx.mismatch('creplay: final state of the caches', case, None, m)
    lbatch.clear()


def fact_strings(facts: list) -> list:
    return sorted({'xsi:%d' % a if k == 'xsi' else '%s:%d:%d' % (k, a, b) for k, a, b in facts})


def canon_facts(wl: 'L.WidenLog') -> list:
    """facts with pairs named by (declaration, type name, identity) so that two schema objects can be compared"""
    out = []
    names = {v: (k[0], getattr(wl.pair_objs[v][1], 'name', None), k[2]) for k, v in wl.pairs.items()}
    for k, a, b in wl.facts():
        out.append([k, list(names[a]), 0] if k == 'xsi' else [k, a, b])
    return sorted(out, key=json.dumps)


def line_widen_experiment(ctx: Ctx, lbatch: list, base: Baseline, docs: list, n: int, seed: int, p_line: float,
                          idx: int, variant: dict, kind: str) -> None:
    """n threads validate documents with one BUILT schema; possible switch at every line of raw_decode /
    update_elements / collect_key_fields / the cache front ends; the shared-state event log of the widening and
    of the caches is replayed on the models; the final shared state is compared with the model's and with a
    sequential run of the same documents on another schema object."""
    rng = random.Random(seed)
    jobs = [[('iter_errors', rng.choice(docs)) for _ in range(rng.choice([1, 1, 2]))] for _ in range(n)]
    schema = fresh(base.xsd, True)
    sched = Sched(n, random.Random(seed + 1), {'p': 0.002})
    instrument(schema, sched)
    wl = L.instrument_widening(schema, Events.tid)
    s0 = wl.facts()
    hooks = LineHooks(schema, True)
    # cached properties of temporary objects (selectors, contexts) are private to a call: watch the schema's own objects
    alive = list(schema.maps.iter_components()) + list(schema.maps._schemas) + [schema.maps]
    hooks.cl.watch_instances = {id(x) for x in alive}
    case = {'line-widen': idx, 'seed': seed, 'threads': n, 'p_line': p_line, 'schema': kind,
            'jobs': [[(o, docs.index(x)) for o, x in j] for j in jobs]}
    full = dict(case, xsd=base.xsd, docs=docs, line=True)
    try:
        results, hung = run_threads(schema, jobs, sched, False, make_line_tracer_factory(hooks, p_line))
    finally:
        Events.target = None
    wl.on = False
    judge(ctx, full, base, schema, jobs, results, hung, False)
    if hung or sched.abandoned:
        ctx.count('line-widen:abandoned')
        ctx.case(case, False, tag=f'line/widen/{kind} (abandoned)')
        return
    raised = [sum(1 for r in (res or []) if r[:3] == F3_ERR) for res in results]
    final = wl.facts()
    events = [e for e in wl.log if e[0] < n and -1 not in e[2:4]]
    sel, ido = L.sel_table(wl)
    if wl.facts() != final and not any(raised):
        ctx.mismatch('update_elements is not idempotent on the final state', case, final, wl.facts())
    req = {'op': 'xwreplay', 'threads': n, 'sel': sel, 'idOf': ido, 's0': s0, 'events': events, **variant}
    lbatch.append((req, case, {'facts': fact_strings(final), 'raised': raised}, n))
    # the same documents, sequentially, on another schema object: same final state (as canonical facts)
    if not any(raised):
        seq = fresh(base.xsd, True)
        Events.tids = {threading.get_ident(): 0}
        wl2 = L.instrument_widening(seq, Events.tid)
        for job in jobs:
            for op, xml in job:
                call(seq, op, xml)
        wl2.on = False
        ctx.traces += 1
        if canon_facts(wl2) != canon_facts(wl):
            ctx.failure('after the threaded validations the shared widening state of the schema differs from the state '
                        'after the same calls made sequentially', full,
                        {'threaded': canon_facts(wl), 'sequential': canon_facts(wl2)})
    # the caches
    cl = hooks.cl
    if cl is not None and cl.log:
        fvals: dict = {}
        bad = None
        for t, k, key, v, _ in cl.log:
            if k in ('store', 'direct'):
                if key in fvals and fvals[key] != v:
                    bad = (cl.key_names[key], v, fvals[key])
                fvals.setdefault(key, v)
        if bad:
            ctx.mismatch('a memoised function computed two different values for one key (not deterministic)', case, bad, None)
        for t, k, key, v, _ in cl.log:
            if k == 'look' and v and key not in fvals:
                fvals[key] = v - 1          # entry that was in the cache before the threads started
        pre = [[0, 'look', key, 0, 0] for key in []]
        evs = []
        warm: set = set()
        for e in cl.log:
            t, k, key, v, _ = e
            if k == 'look' and v and key not in warm and not any(x[1] == 'store' and x[2] == key for x in evs):
                # warm entry (cached by the build or by the baseline): load it into the model first
                evs += [[t, 'look', key, 0, 0], [t, 'compute', key, 0, 0], [t, 'store', key, v - 1, 0], [t, 'ret', key, v - 1, 0]]
            warm.add(key)
            evs.append(e)
        lbatch.append(({'op': 'creplay', 'threads': n * L.CacheLog.NEST, 'f': [[k, v] for k, v in sorted(fvals.items())], 'evictable': False,
                        'events': evs}, dict(case, part='caches'), {}, n))
        ctx.count('cache-events', len(cl.log))
        ctx.count('cache-keys', len(cl.key_names))
    ctx.count('line-widen:line-events', hooks.lines)
    ctx.count('line-widen:widen-events', len(events))
    ctx.count('line-widen:pairs', len(sel))
    ctx.count('line-widen:switches', sched.switches)
    nontrivial = sched.inner_switches > 0 and len(events) > 0
    ctx.case(case, nontrivial, tag=f'line/widen/{kind}/{n} threads')


def forced_f3(ctx: Ctx, drv: Optional[Driver], variant: dict) -> None:
    """C18-F3: thread 0 validates F3_DOCS[0] and is paused inside the first iteration of
    `for identity in self.selected_by` (collect_key_fields) of child k; thread 1 validates F3_DOCS[1], which binds
    the same child to a second identity; thread 0 resumes: `next()` raises RuntimeError on the current tree."""
    from xmlschema.validators.elements import XsdElement
    import inspect
    code = XsdElement.collect_key_fields.__code__
    src, first = inspect.getsourcelines(XsdElement.collect_key_fields)
    target = [first + i for i, l in enumerate(src) if 'counter = context.identities[identity]' in l]
    base = Baseline(F3_XSD)
    reached = {'n': 0}

    def factory(sched: Sched, t: int) -> Callable:
        def local(frame, event, arg):
            if event == 'line' and t == 0 and reached['n'] == 0 and frame.f_lineno in target:
                reached['n'] += 1
                sched.switch(0, to=1)
            return local

        def tracer(frame, event, arg):
            if event == 'call' and frame.f_code is code and t == 0 and reached['n'] == 0:
                return local
            return None
        return tracer
    sched = Sched(2, random.Random(3), {'first': 0})
    case = {'forced': 'F3', 'variant': 'line', 'docs': F3_DOCS[:2], 'threads': 2, 'schema': 'f3'}
    jobs = [[('iter_errors', F3_DOCS[0])], [('iter_errors', F3_DOCS[1])]]
    batch: list = []
    schema, results, _ = experiment(ctx, batch, base, dict(case, xsd=F3_XSD), jobs, sched, False, factory)
    ctx.case(case, reached['n'] > 0, tag='forced:F3/line' + ('' if reached['n'] else ' (window not reached)'))
    if drv is not None and reached['n']:
        # the same schedule on the model: pairs 0/1 = (item, Ext, iu) / (item2, Ext, iu2), child 7 = Ext.k
        m = drv.query([{'op': 'xwexec', 'threads': 2, 'sel': [[0, [7]], [1, [7]]], 'idOf': [[0, 0], [1, 1]], 's0': [],
                        'progs': [[['widen', 0, [7]], ['child', 7], ['child', 7]], [['widen', 1, [7]], ['child', 7], ['child', 7]]],
                        'sched': [0] * 10 + [1] * 40 + [0] * 30, **variant}])[0]
        ctx.traces += 1
        impl_raised = results[0] is not None and results[0][0][:3] == F3_ERR
        if (m['pcs'][0] == 'err') != impl_raised:
            ctx.mismatch('forced F3 schedule: model and code disagree on RuntimeError in thread 0', case,
                         {'thread0': results[0]}, m)


# =============================================================================================
#  the table of memoised functions, and the hypotheses of the benign-race theorems on the real code
# =============================================================================================
# kind of sharing -> which machine of Model/ThreadsCache.lean, which theorem
SHAPES = {
    'cached_property': 'Cache.stepTh look/compute/store (functools.cached_property.__get__)',
    'schema_cache': 'Cache.stepTh look/compute/store + evict (lru_cache behind SchemaCache.__call__)',
    'schema_lru_cache': 'Cache.stepTh look/compute/store + evict (lru_cache behind SchemaCache.__call__)',
    'schema_cached_property': 'Cache.stepTh direct while not built, else the lru shape',
    'cache': 'Cache.stepTh look/compute/store (functools.cache, process-wide, pure function of strings)',
}
# scope: 'schema'  = shared by the threads that share one schema object -> cache_benign_all_schedules applies,
#                    hypothesis (value is a function of the key once the schema is built) checked below
#        'process' = module-level cache of a pure string function
#        'local'   = lives on an object that is private to one call / one resource (not shared through the schema)
MODELLED_CACHES = {
    ('utils/qnames.py', '', 'get_qname', 'cache'): 'process',
    ('utils/qnames.py', '', 'local_name', 'cache'): 'process',
    ('validators/attributes.py', 'XsdAttributeGroup', 'annotation', 'cached_property'): 'schema',
    ('validators/complex_types.py', 'XsdComplexType', 'is_derived', 'schema_cache'): 'schema',
    ('validators/complex_types.py', 'XsdComplexType', 'root_type', 'cached_property'): 'schema',
    ('validators/complex_types.py', 'XsdComplexType', 'sequence_type', 'cached_property'): 'schema',
    ('validators/elements.py', 'XsdElement', 'is_overlap', 'schema_cache'): 'schema',
    ('validators/elements.py', 'XsdElement', 'is_restriction', 'schema_cache'): 'schema',
    ('validators/elements.py', 'XsdElement', 'match_child', 'schema_cache'): 'schema',
    ('validators/groups.py', 'XsdGroup', 'elements', 'schema_cached_property'): 'schema',
    ('validators/groups.py', 'XsdGroup', 'is_all_restriction', 'schema_cache'): 'schema',
    ('validators/groups.py', 'XsdGroup', 'is_element_restriction', 'schema_cache'): 'schema',
    ('validators/groups.py', 'XsdGroup', 'is_restriction', 'schema_cache'): 'schema',
    ('validators/groups.py', 'XsdGroup', 'is_sequence_restriction', 'schema_cache'): 'schema',
    ('validators/groups.py', 'XsdGroup', 'match_element', 'schema_cache'): 'schema',
    **{('validators/schemas.py', 'XMLSchemaBase', n, 'cached_property'): 'schema' for n in (
        'annotations', 'attribute_groups', 'attributes', 'complex_types', 'components', 'elements', 'groups', 'id',
        'identities', 'no_namespace_schema_location', 'notations', 'root_elements', 'schema_location', 'simple_types',
        'substitution_groups', 'tag', 'target_prefix', 'types', 'validation_attempted', 'validation_context', 'version',
        'xpath_node')},
    ('validators/simple_types.py', 'XsdList', 'is_derived', 'schema_cache'): 'schema',
    ('validators/simple_types.py', 'XsdSimpleType', 'enumeration', 'cached_property'): 'schema',
    ('validators/simple_types.py', 'XsdSimpleType', 'is_derived', 'schema_cache'): 'schema',
    ('validators/simple_types.py', 'XsdSimpleType', 'max_value', 'cached_property'): 'schema',
    ('validators/simple_types.py', 'XsdSimpleType', 'min_value', 'cached_property'): 'schema',
    ('validators/wildcards.py', 'XsdAnyElement', 'is_overlap', 'schema_cache'): 'schema',
    ('validators/wildcards.py', 'XsdOpenContent', 'is_restriction', 'schema_cache'): 'schema',
    ('validators/wildcards.py', 'XsdWildcard', 'is_restriction', 'schema_cache'): 'schema',
    **{('validators/xsd_globals.py', 'XsdGlobals', n, 'cached_property'): 'schema' for n in (
        'any_atomic_type', 'any_simple_type', 'any_type', 'validation_attempted', 'validity', 'xpath_constructors')},
    **{('validators/xsdbase.py', 'XsdComponent', n, 'cached_property'): 'schema' for n in (
        'annotation', 'annotations', 'display_name', 'local_name', 'prefixed_name', 'qualified_name')},
    ('validators/xsdbase.py', 'XsdComponent', 'get_global', 'schema_cache'): 'schema',
    ('validators/xsdbase.py', 'XsdComponent', 'get_parent_type', 'schema_cache'): 'schema',
    ('validators/xsdbase.py', 'XsdComponent', 'is_override', 'schema_cache'): 'schema',
    ('validators/xsdbase.py', 'XsdType', 'is_blocked', 'schema_cache'): 'schema',
    ('validators/xsdbase.py', 'XsdType', 'overall_max_occurs', 'schema_cache'): 'schema',
    ('validators/xsdbase.py', 'XsdType', 'overall_min_occurs', 'schema_cache'): 'schema',
    ('xpath/selectors.py', 'ElementSelector', 'depth', 'cached_property'): 'local',
    ('xpath/selectors.py', 'ElementSelector', 'relative_path', 'cached_property'): 'local',
    ('xpath/selectors.py', 'ElementSelector', 'select_all', 'cached_property'): 'local',
    # hand-written lazy fields
    ('exports.py', 'XsdSource', 'get_location_path', 'lazyfield:substitutions'): 'local',
    ('resources/xml_loader.py', 'XMLResourceLoader', 'parent_map', 'lazyfield:_parent_map'): 'local',
    ('xpath/mixin.py', 'XPathElement', 'xpath_node', 'lazyfield:_xpath_node'): 'local',
    # `_built` of a component, set in the `finally` of its build(): written under the build lock only
    ('validators/assertions.py', 'XsdAssert', 'build', 'lazyfield:_built'): 'build-lock',
    ('validators/elements.py', 'XsdElement', 'build', 'lazyfield:_built'): 'build-lock',
    ('validators/groups.py', 'XsdGroup', 'build', 'lazyfield:_built'): 'build-lock',
    ('validators/identities.py', 'XsdIdentity', 'build', 'lazyfield:_built'): 'build-lock',
    # state of a model visitor created per call
    ('validators/models.py', 'InterleavedModelVisitor', '__init__', 'lazyfield:element'): 'local',
    ('validators/models.py', 'InterleavedModelVisitor', 'advance', 'lazyfield:element'): 'local',
    ('validators/models.py', 'InterleavedModelVisitor', 'clear', 'lazyfield:element'): 'local',
    ('validators/models.py', 'SuffixedModelVisitor', '__init__', 'lazyfield:element'): 'local',
    ('validators/models.py', 'SuffixedModelVisitor', 'advance', 'lazyfield:element'): 'local',
    ('validators/models.py', 'SuffixedModelVisitor', 'clear', 'lazyfield:element'): 'local',
}


# who evicts: (file, function) -> modelled as `evict`/`clear` ops issued by the building thread (after `_built = True`:
# schemas.py clear; before it: maps __setattr__ and SchemaCache.clear through XsdGlobals.clear) — component __dict__s
# are never evicted
EVICTION_SITES = [['caching.py', 'SchemaCache.clear'], ['validators/schemas.py', 'XMLSchemaBase.clear'],
                  ['validators/xsd_globals.py', 'XsdGlobals.__setattr__'],
                  # parse time only (called from the build, i.e. under the build lock, before `_built = True`)
                  ['validators/groups.py', 'XsdGroup._any_content_group_fallback'], ['validators/groups.py', 'XsdGroup._parse'],
                  ['validators/xsdbase.py', 'XsdComponent.parse']]


def cache_table(ctx: Ctx) -> list:
    """Regenerates the table from the source and compares it with the modelled one: a cache that was added,
    removed or re-decorated breaks the correspondence until it is classified (and, if shared, tied)."""
    found = L.scan_caches()
    keys = {tuple(x) for x in found}
    ctx.traces += 1
    new = sorted(keys - set(MODELLED_CACHES))
    gone = sorted(set(MODELLED_CACHES) - keys)
    if new or gone:
        ctx.mismatch('the table of memoised functions of /repo differs from the modelled table', {'cache-table': True},
                     {'not modelled': new, 'not in the source any more': gone}, None)
    for x in found:
        kind = x[3].split(':')[0]
        ctx.count('cache-table:' + kind + '/' + MODELLED_CACHES.get(tuple(x), 'unclassified'))
        if kind != 'lazyfield' and kind not in SHAPES:
            ctx.mismatch('memoising decorator without a model shape', {'cache-table': True}, x, None)
    ctx.extra['cache_table'] = [x + [MODELLED_CACHES.get(tuple(x), 'unclassified')] for x in found]
    sites = L.eviction_sites()
    ctx.traces += 1
    ctx.extra['eviction_sites'] = sites
    if sorted(s[:2] for s in sites) != sorted(EVICTION_SITES):
        ctx.mismatch('the places that evict cached properties (`__dict__.pop/clear`, cache_clear) differ from the modelled ones',
                     {'cache-table': True}, sites, EVICTION_SITES)
    return found


def cache_hypotheses(ctx: Ctx, pools: list) -> None:
    """The hypotheses of cache_benign_all_schedules, checked on the real objects of built schemas for every
    schema-shared memoised function of the table:
      (h-det)  two uncached computations with one key give the same (canonical) value, and the value obtained
               through the cache is that value;
      (h₀)     what is already in a cache when `_built` is published (entries computed DURING the build, which
               `s.clear()` removes only after the publication) equals what is computed after the build.
    Keys: every component of the schema for the properties; for the methods with arguments, the argument tuples
    that the validation of the pool documents really uses (recorded at SchemaCache.__call__)."""
    import functools as ft
    from xmlschema.caching import SchemaCache, schema_cached_property, _cached_functions
    from xmlschema.validators.xsd_globals import XsdGlobals
    orig_call = SchemaCache.__call__
    for base, docs in pools:
        recorded: dict = {}

        def rec_call(self, func, *args, **kwargs):      # noqa
            if not kwargs and len(recorded) < 4000:
                try:
                    recorded.setdefault((func, args), None)
                except TypeError:
                    pass
            return orig_call(self, func, *args, **kwargs)
        # (h₀) snapshot of the caches at the publication of `_built`
        d = Events.orig if Events.installed else XsdGlobals.__dict__['_built']
        schema = fresh(base.xsd, False)
        stale: dict = {}
        saved = XsdGlobals._built

        def set_(self, v, d=d, schema=schema, stale=stale):      # noqa
            d.__set__(self, v)
            if v and self is schema.maps:
                for s in self._schemas:
                    if s.maps is self:
                        for k in list(s._cached_properties()):
                            if k in s.__dict__:
                                stale[(s, k)] = L.canon(s.__dict__[k])
        XsdGlobals._built = property(lambda self, d=d: d.__get__(self, XsdGlobals), set_)
        try:
            schema.build()
        finally:
            XsdGlobals._built = saved
        for (s, k), v in stale.items():
            ctx.traces += 1
            ctx.count('cache-hyp:entry present at publication')
            after = L.canon(getattr(s, k))
            if after != v:
                ctx.mismatch('a cached property computed during the build and still cached when `_built` is published '
                             'differs from its value after the build (h₀ of cache_benign_all_schedules)',
                             {'cache-hyp': k, 'schema': s.name}, v, after)
        # (h-det)
        SchemaCache.__call__ = rec_call      # type: ignore
        try:
            for x in docs[:8]:
                call(schema, 'iter_errors', x)
        finally:
            SchemaCache.__call__ = orig_call      # type: ignore
        comps = list(schema.maps.iter_components())[:400] + [schema, schema.maps]
        props: dict = {}
        for c in comps:
            for klass in type(c).__mro__:
                for name, attr in vars(klass).items():
                    if isinstance(attr, (ft.cached_property, schema_cached_property)):
                        props.setdefault((id(c), name), (c, name, attr))
        for c, name, attr in props.values():
            present = name in getattr(c, '__dict__', {})
            try:
                a, b = L.canon(attr.func(c)), L.canon(attr.func(c))
                cached = L.canon(getattr(c, name))
            except Exception as e:      # noqa  (a property may be undefined for a component; then consistently so)
                ctx.count('cache-hyp:property raises ' + type(e).__name__)
                continue
            ctx.traces += 1
            ctx.count('cache-hyp:property checked')
            pinned = present and a == b and cached != a and c is not schema and c is not schema.maps \
                and not isinstance(c, type(schema))
            if pinned:
                # an entry of a COMPONENT's __dict__ written during the build (the function read state that the
                # build changed afterwards): nothing evicts component entries (checked: eviction_sites), so after
                # the build every thread only reads it — an attribute, not a cache
                ctx.count('cache-hyp:component entry pinned by the build (read-only afterwards)')
            elif not (a == b == cached):
                ctx.mismatch('memoised property is not a function of its key', {'cache-hyp': f'{type(c).__name__}.{name}'},
                             [a, b], cached)
        for (func, args) in list(recorded):
            try:
                a, b = L.canon(func(*args)), L.canon(func(*args))
                cached = L.canon(schema.maps.cache(func, *args))
            except Exception as e:      # noqa
                ctx.count('cache-hyp:method raises ' + type(e).__name__)
                continue
            ctx.traces += 1
            ctx.count('cache-hyp:method call checked')
            ctx.count('cache-hyp:method ' + getattr(func, '__qualname__', '?'))
            if not (a == b == cached):
                ctx.mismatch('memoised method is not a function of its key', {'cache-hyp': getattr(func, '__qualname__', '?')},
                             [a, b], cached)
        # every function that reaches the schema cache is in the table
        for func in _cached_functions:
            q = getattr(func, '__qualname__', '')
            if not any(q == f'{k[1]}.{k[2]}' for k in MODELLED_CACHES):
                ctx.mismatch('a function registered in the schema cache is not in the modelled table', {'cache-table': True}, q, None)


# =============================================================================================
#  the scratch validation context
# =============================================================================================
SCRATCH_XSD = """<xs:schema xmlns:xs="http://www.w3.org/2001/XMLSchema" targetNamespace="urn:s" xmlns:s="urn:s">
 <xs:simpleType name="U"><xs:union memberTypes="xs:int xs:NCName"/></xs:simpleType>
 <xs:simpleType name="UP"><xs:restriction base="s:U"><xs:pattern value="[0-9a]+"/></xs:restriction></xs:simpleType>
 <xs:simpleType name="UQ"><xs:restriction base="s:U"><xs:pattern value="[b-z]+"/></xs:restriction></xs:simpleType>
 <xs:simpleType name="I"><xs:restriction base="xs:int"><xs:maxInclusive value="9"/></xs:restriction></xs:simpleType>
 <xs:simpleType name="L"><xs:list itemType="s:UP"/></xs:simpleType>
 <xs:simpleType name="D"><xs:restriction base="xs:ID"/></xs:simpleType>
 <xs:element name="r" type="s:UP" fixed="12"/>
</xs:schema>"""
SCRATCH_TEXTS = ['12', 'a1', 'abc', 'zz', '7', '70', '', ' 5 ', 'a b', '1 a', 'x']


def scratch_noninterference(ctx: Ctx) -> None:
    """Tie of `scratch_skip_safe`: the value `text_decode(text)` returns on the shared scratch context does not
    depend on ANY state another thread can leave in it between two statements (the fields `clear()` resets, set
    to adversarial values after the clear by a hook on raw_decode), for every simple type of the scratch schema
    and of the pool schema."""
    from xmlschema.validators.simple_types import XsdSimpleType
    for xsd in (SCRATCH_XSD, POOL_XSD):
        schema = fresh(xsd, True)
        types = [t for t in schema.maps.iter_components(XsdSimpleType)
                 if t.schema is schema or t.name in ('{http://www.w3.org/2001/XMLSchema}int', '{http://www.w3.org/2001/XMLSchema}ID')]
        pats = [t.patterns for t in types if getattr(t, 'patterns', None)]
        for ty in types[:40]:
            for text in SCRATCH_TEXTS:
                want = L.canon(ty.text_decode(text))
                for pol in range(4):
                    sc = schema.validation_context
                    orig = type(ty).raw_decode

                    # one-shot pollution right after the clear(): patch on the instance's class for this call only
                    flag = {'done': False}

                    def once(self, obj, validation, context, orig=orig, pol=pol, sc=sc, flag=flag):      # noqa
                        if context is sc and not flag['done']:
                            flag['done'] = True
                            if pol == 0 and pats:
                                context.patterns = pats[0]
                            elif pol == 1:
                                context.errors.append(ValueError('left by another thread'))
                                context.level = 3
                            elif pol == 2:
                                context.id_map['12'] = 5
                                context.id_map['abc'] = 1
                                context.id_list = ['x']
                            elif pol == 3 and len(pats) > 1:
                                context.patterns = pats[-1]
                                context.attribute = 'other'
                        return orig(self, obj, validation, context)
                    klass = type(ty)
                    klass.raw_decode = once      # type: ignore
                    try:
                        got = L.canon(ty.text_decode(text))
                    except Exception as e:      # noqa
                        got = 'raised ' + type(e).__name__
                    finally:
                        klass.raw_decode = orig      # type: ignore
                    ctx.traces += 1
                    ctx.count('scratch:skip-mode decode under polluted scratch context')
                    if got != want:
                        ctx.failure('text_decode on the shared scratch context returns a value that depends on what another '
                                    'thread left in the context', {'scratch': True, 'type': str(ty.name), 'text': text, 'pollution': pol},
                                    {'clean': want, 'polluted': got})


def forced_scratch_lax(ctx: Ctx, drv: Optional[Driver]) -> None:
    """Replay of `scratch_lax_race_counterexample` on the real code (component-level API `text_is_valid`, which
    validation of documents does not use — see ASSUMPTIONS): thread 0 is paused before
    `return not self.schema.validation_context.errors`, thread 1 calls text_is_valid (clears the shared list)."""
    from xmlschema.validators.simple_types import XsdSimpleType
    import inspect
    schema = fresh(SCRATCH_XSD, True)
    ty = schema.types['UP']
    code = XsdSimpleType.text_is_valid.__code__
    src, first = inspect.getsourcelines(XsdSimpleType.text_is_valid)
    target = [first + i for i, l in enumerate(src) if 'return not self.schema.validation_context.errors' in l]
    alone = ty.text_is_valid('zz')
    go, done = threading.Event(), threading.Event()
    res: dict = {}

    def tracer(frame, event, arg):
        if event == 'call' and frame.f_code is code:
            def local(frame, event, arg):
                if event == 'line' and frame.f_lineno in target and not go.is_set():
                    go.set()
                    done.wait(10)
                return local
            return local
        return None

    def w0() -> None:
        sys.settrace(tracer)
        try:
            res[0] = ty.text_is_valid('zz')
        finally:
            sys.settrace(None)
    th = threading.Thread(target=w0, daemon=True)
    th.start()
    reached = go.wait(10)
    res[1] = ty.text_is_valid('12')
    done.set()
    th.join(10)
    case = {'forced': 'scratch-lax', 'type': 'UP', 'texts': ['zz', '12']}
    ctx.case(case, bool(reached), tag='forced:scratch-lax')
    if drv is not None:
        m = drv.query([{'op': 'sexec', 'threads': 2, 'users': [
            {'lax': True, 'pat': 5, 'val': 1, 'rej': [5]}, {'lax': True, 'pat': 5, 'val': 2, 'rej': []}],
            'sched': [0, 0, 0, 0, 0, 0, 0] + [1] * 9 + [0]}])[0]
        ctx.traces += 1
        model_wrong = m['pcs'][0] == 'fin:1:true'
        impl_wrong = res.get(0) is True and alone is False
        ctx.extra['scratch_lax_race'] = {'alone': alone, 'thread0_in_race': res.get(0), 'model_thread0': m['pcs'][0]}
        if reached and model_wrong != impl_wrong:
            ctx.mismatch('forced scratch-lax schedule: model and code disagree on the verdict of thread 0', case,
                         {'alone': alone, 'in_race': res.get(0)}, m)



# =============================================================================================
#  XPath evaluated through elementpath with a per-call context; class-level / module-level shared objects
# =============================================================================================
XP_XSD = """<xs:schema xmlns:xs="http://www.w3.org/2001/XMLSchema" targetNamespace="urn:x" xmlns:x="urn:x"
    elementFormDefault="qualified">
 <xs:simpleType name="percent"><xs:restriction base="xs:integer">
   <xs:assertion test="$value ge 0 and $value le 100"/></xs:restriction></xs:simpleType>
 <xs:simpleType name="even"><xs:restriction base="xs:integer">
   <xs:assertion test="$value mod 2 = 0"/></xs:restriction></xs:simpleType>
 <xs:simpleType name="code"><xs:restriction base="xs:string">
   <xs:assertion test="string-length($value) = 3"/></xs:restriction></xs:simpleType>
 <xs:complexType name="Range">
   <xs:sequence><xs:element name="lo" type="x:percent"/><xs:element name="hi" type="x:percent"/></xs:sequence>
   <xs:attribute name="step" type="x:even"/>
   <xs:assert test="x:lo le x:hi"/>
 </xs:complexType>
 <xs:complexType name="MsgBase"><xs:simpleContent><xs:extension base="xs:string">
   <xs:attribute name="kind" type="xs:string"/><xs:attribute name="id" type="xs:int" use="required"/>
 </xs:extension></xs:simpleContent></xs:complexType>
 <xs:complexType name="MsgNum"><xs:simpleContent><xs:restriction base="x:MsgBase">
   <xs:simpleType><xs:restriction base="xs:string"><xs:pattern value="[0-9]+"/></xs:restriction></xs:simpleType>
 </xs:restriction></xs:simpleContent></xs:complexType>
 <xs:complexType name="MsgCode"><xs:simpleContent><xs:restriction base="x:MsgBase">
   <xs:simpleType><xs:restriction base="x:code"/></xs:simpleType>
 </xs:restriction></xs:simpleContent></xs:complexType>
 <xs:complexType name="Open">
   <xs:openContent mode="interleave"><xs:any namespace="##other" processContents="lax"/></xs:openContent>
   <xs:sequence><xs:element name="a" type="x:even" minOccurs="0" maxOccurs="unbounded"/></xs:sequence>
 </xs:complexType>
 <xs:element name="root">
  <xs:complexType><xs:sequence>
    <xs:element name="level" type="x:percent" minOccurs="0" maxOccurs="unbounded"/>
    <xs:element name="range" type="x:Range" minOccurs="0" maxOccurs="unbounded"/>
    <xs:element name="msg" type="x:MsgBase" minOccurs="0" maxOccurs="unbounded">
      <xs:alternative test="@kind = 'num'" type="x:MsgNum"/>
      <xs:alternative test="@kind = 'code'" type="x:MsgCode"/>
    </xs:element>
    <xs:element name="ref" type="xs:int" minOccurs="0" maxOccurs="unbounded"/>
    <xs:element name="open" type="x:Open" minOccurs="0"/>
  </xs:sequence></xs:complexType>
  <xs:unique name="ul"><xs:selector xpath="x:level"/><xs:field xpath="."/></xs:unique>
  <xs:key name="km"><xs:selector xpath="x:msg"/><xs:field xpath="@id"/></xs:key>
  <xs:keyref name="kr" refer="x:km"><xs:selector xpath="x:ref"/><xs:field xpath="."/></xs:keyref>
 </xs:element>
</xs:schema>"""
XSD11_SCHEMAS.add(XP_XSD)


def xd(body: str) -> str:
    return f'<x:root xmlns:x="urn:x" xmlns:o="urn:o">{body}</x:root>'


XP_DOCS = [
    xd('<x:level>7</x:level><x:level>99</x:level>'),                                                   # 0 assertion facet true
    xd('<x:level>700</x:level><x:level>-1</x:level>'),                                                 # 1 assertion facet false
    xd('<x:level>5</x:level><x:level>5</x:level>'),                                                    # 2 unique
    xd('<x:range step="2"><x:lo>1</x:lo><x:hi>9</x:hi></x:range>'),                                    # 3 xs:assert true
    xd('<x:range step="3"><x:lo>50</x:lo><x:hi>9</x:hi></x:range>'),                                   # 4 xs:assert false
    xd('<x:range><x:lo>500</x:lo><x:hi>900</x:hi></x:range>'),                                         # 5
    xd('<x:msg kind="num" id="1">123</x:msg><x:msg kind="code" id="2">abc</x:msg><x:ref>1</x:ref>'),   # 6 type alternatives
    xd('<x:msg kind="num" id="1">abc</x:msg><x:msg kind="code" id="1">abcd</x:msg><x:ref>7</x:ref>'),  # 7
    xd('<x:msg kind="other" id="3">anything</x:msg><x:msg id="4">12</x:msg>'),                         # 8
    xd('<x:open><o:p/><x:a>2</x:a><o:q>1</o:q><x:a>4</x:a></x:open>'),                                 # 9 open content
    xd('<x:open><x:a>3</x:a><o:p/><x:a>8</x:a></x:open>'),                                             # 10
    xd('<x:level>100</x:level><x:range step="4"><x:lo>0</x:lo><x:hi>0</x:hi></x:range>'
       '<x:msg kind="code" id="9">xyz</x:msg><x:open><x:a>0</x:a></x:open>'),                          # 11
]
XP_PAIRS = [(0, 1), (1, 0), (3, 4), (4, 3), (6, 7), (7, 6), (9, 10), (10, 9), (11, 1), (5, 11)]


# XSD 1.1: the type of <item> is selected by xs:alternative tests over an attribute that is declared
# inheritable="true" on an ANCESTOR (root or group): get_alternative_type() evaluates the tests on a scratch
# element filled with the inherited values, which must be private to the call
INH_XSD = """<xs:schema xmlns:xs="http://www.w3.org/2001/XMLSchema" elementFormDefault="qualified">
 <xs:element name="root"><xs:complexType><xs:sequence>
   <xs:element name="item" type="itemBase" minOccurs="0" maxOccurs="unbounded">
     <xs:alternative test="@kind='num'" type="numItem"/>
     <xs:alternative test="@kind='word'" type="wordItem"/>
   </xs:element>
   <xs:element name="group" minOccurs="0" maxOccurs="unbounded"><xs:complexType><xs:sequence>
     <xs:element name="item" type="itemBase" minOccurs="0" maxOccurs="unbounded">
       <xs:alternative test="@kind='num' and @unit='u'" type="numItem"/>
       <xs:alternative test="@kind='word'" type="wordItem"/>
     </xs:element></xs:sequence>
     <xs:attribute name="unit" type="xs:string" inheritable="true"/>
   </xs:complexType></xs:element>
  </xs:sequence>
  <xs:attribute name="kind" type="xs:string" inheritable="true"/>
 </xs:complexType></xs:element>
 <xs:complexType name="itemBase"><xs:simpleContent><xs:extension base="xs:string">
   <xs:attribute name="n" type="xs:string"/></xs:extension></xs:simpleContent></xs:complexType>
 <xs:complexType name="numItem"><xs:simpleContent><xs:restriction base="itemBase">
   <xs:enumeration value="1"/><xs:enumeration value="2"/></xs:restriction></xs:simpleContent></xs:complexType>
 <xs:complexType name="wordItem"><xs:simpleContent><xs:restriction base="itemBase">
   <xs:enumeration value="one"/><xs:enumeration value="two"/></xs:restriction></xs:simpleContent></xs:complexType>
</xs:schema>"""
XSD11_SCHEMAS.add(INH_XSD)
INH_DOCS = [
    '<root kind="num"><item>1</item><item n="a">2</item></root>',                                   # 0 valid, numItem
    '<root kind="word"><item>one</item><item n="b">two</item></root>',                              # 1 valid, wordItem
    '<root kind="other"><item>anything</item><item>1</item></root>',                                # 2 valid, itemBase
    '<root kind="num"><item>1</item><item>two</item></root>',                                       # 3 INVALID (2nd item)
    '<root kind="num"><group unit="u"><item>2</item></group><group unit="v"><item>x</item></group></root>',   # 4 valid
    '<root kind="word"><group unit="u"><item>two</item><item>1</item></group></root>',              # 5 INVALID
]
INH_PAIRS = [(0, 1), (1, 0), (3, 1), (2, 3), (4, 5), (5, 4), (1, 4), (2, 0)]


def library_prefixes() -> tuple:
    import elementpath
    return (PREFIX, os.path.dirname(os.path.abspath(elementpath.__file__)) + os.sep)


def preempt_once(schema: Any, op: str, doc_a: str, doc_b: str, k: int, scope: Optional[str] = None) -> tuple[Any, Any, int]:
    """Thread A runs `op(doc_a)` and is suspended at its k-th function call inside xmlschema OR elementpath; thread B
    (the caller) runs `op(doc_b)` to the end; A resumes.  Returns (result A, result B, number of calls of A).
    With `scope` (a function name) the switch points are instead the LINE boundaries (and calls) of every library
    frame in the dynamic extent of a call of that function: A is suspended at the k-th of them."""
    prefixes = library_prefixes()
    reached, resume = threading.Event(), threading.Event()
    out: dict = {}
    count = [0]
    depth = [0]

    def point() -> None:
        count[0] += 1
        if count[0] == k:
            reached.set()
            resume.wait(JOIN_TIMEOUT)

    def local(frame, event, arg):
        if event == 'line':
            point()
        elif event == 'return':
            depth[0] -= 1
        return local

    def tracer(frame, event, arg):
        if event == 'call' and frame.f_code.co_filename.startswith(prefixes):
            if scope is None:
                point()
            elif depth[0] > 0 or frame.f_code.co_name == scope:
                depth[0] += 1
                point()
                return local
        return None

    def thread_a() -> None:
        sys.settrace(tracer)
        try:
            out['A'] = call(schema, op, doc_a)
        finally:
            sys.settrace(None)
            reached.set()
    ta = threading.Thread(target=thread_a, daemon=True)
    ta.start()
    reached.wait(JOIN_TIMEOUT)
    out['B'] = call(schema, op, doc_b) if k > 0 else None
    resume.set()
    ta.join(JOIN_TIMEOUT)
    return out.get('A'), out.get('B'), count[0]


def preemption_family(ctx: Ctx, base: Baseline, docs: list, pairs: list, stride_above: int, tagname: str,
                      scope: Optional[str] = None) -> bool:
    """EXHAUSTIVE single-preemption family: for a pair of calls (A, B) on one shared built schema, A is suspended at
    EVERY function call it makes inside xmlschema or elementpath (every k; every `stride`-th when A makes more than
    `stride_above` calls), B runs completely in the window, A resumes.  Any two-thread atomicity violation that one
    pre-emption at a call boundary exposes — in particular a store into a shared object in one function and its
    read in a later elementpath call — is hit deterministically.  Returns whether some call differed."""
    wrong = False
    for ia, ib in pairs:
        op = 'iter_errors' if (ia + ib) % 2 else 'decode'
        schema = fresh(base.xsd, True)
        want_a, want_b = base.result(op, docs[ia]), base.result(op, docs[ib])
        preempt_once(schema, op, docs[ia], docs[ib], -1, scope)      # warm the caches: the cold first call is much longer
        total = preempt_once(schema, op, docs[ia], docs[ib], -1, scope)[2]
        stride = 1 if total <= stride_above else (total + stride_above - 1) // stride_above
        ctx.count(f'preempt:{tagname}:calls of A', total)
        for k in range(1, total + 1, stride):
            got_a, got_b, _ = preempt_once(schema, op, docs[ia], docs[ib], k, scope)
            case = {'preempt': tagname, 'a': ia, 'b': ib, 'op': op, 'k': k}
            if scope:
                case['scope'] = scope
            full = dict(case, xsd=base.xsd, docs=[docs[ia], docs[ib]])
            ctx.case(case, True, tag=f'preempt/{tagname}')
            for name, doc, got, want in (('A', docs[ia], got_a, want_a), ('B', docs[ib], got_b, want_b)):
                if got != want:
                    wrong = True
                    detail = {'thread': name, 'op': op, 'xml': doc, 'threaded': got, 'single': want,
                              'schedule': (f'thread A suspended at line/call boundary #{k} of the library frames inside {scope}() '
                                           'and its callees' if scope else
                                           f'thread A suspended at its library call #{k} (xmlschema + elementpath)') +
                                          ', thread B runs its whole call, A resumes'}
                    fid = known_match(full, detail)
                    if fid:
                        ctx.known_hit(fid)
                    else:
                        ctx.failure('a call on the shared schema returns a result different from the single-threaded one', full, detail)
            if len(ctx.failures) > 20:
                return wrong
    return wrong


def make_xpath_tracer(sched: Sched, t: int) -> Callable:
    """call-granularity switching that ALSO switches inside elementpath frames (they are reached only from the
    library's validation functions: the worker runs nothing else)"""
    prefixes = library_prefixes()
    ep = prefixes[1]

    def local(frame, event, arg):
        if event == 'line' and not sched.free and sched.rng.random() < sched.plan.get('p_line', 0.0):
            sched.inner_switches += 1
            sched.switch(t)
        return local

    def tracer(frame, event, arg):
        if event == 'call':
            fn = frame.f_code.co_filename
            if fn.startswith(prefixes):
                sched.yield_point(t)
                if fn.startswith(ep) and sched.plan.get('p_line'):
                    return local
        return None
    return tracer


def xpath_family(ctx: Ctx, batch: list, base: Baseline, n_runs: int) -> None:
    for i in range(n_runs):
        n = ctx.rng.choice([2, 2, 3])
        seed = ctx.rng.getrandbits(48)
        rng = random.Random(seed)
        jobs = random_jobs(rng, n, XP_DOCS, ctx.rng.choice([1, 2]))
        plan = {'p': rng.choice([0.01, 0.03, 0.1]), 'p_line': rng.choice([0.0, 0.0, 0.02, 0.1])}
        sched = Sched(n, random.Random(seed + 1), plan)
        case = {'xpath': i, 'seed': seed, 'threads': n, 'plan': plan, 'schema': 'xp',
                'jobs': [[(o, XP_DOCS.index(x)) for o, x in j] for j in jobs]}
        full = dict(case, xsd=base.xsd, docs=XP_DOCS, build_first=False, tracer='xpath')
        _, _, nontrivial = experiment(ctx, batch, base, full, jobs, sched, False, make_xpath_tracer)
        ctx.case(case, nontrivial, tag=f'xpath/{n} threads')
        if ctx.time_left() < 300:
            break


# kinds of class-level descriptors (one object per class, state kept on the instance): classified by TYPE
DESCRIPTOR_TYPES = {
    'AllowOption', 'BaseUrlOption', 'BlockOption', 'BooleanOption', 'ConverterArgument', 'ConverterOption',
    'DecimalTypeOption', 'DefuseOption', 'DepthFillerOption', 'DictClassOption', 'ElementHookOption',
    'ElementTypeOption', 'EncodeSourceArgument', 'ErrorsArgument', 'ExtraValidatorOption', 'FillerOption',
    'IterParseOption', 'LazyOption', 'ListClassOption', 'LoaderClassOption', 'LocationsOption',
    'LogLevelOption', 'MaxDepthOption', 'NamespaceMapperArgument', 'NamespacesOption', 'NillableStringOption',
    'NonNegIntOption', 'OpenerOption', 'PositiveIntOption', 'SchemaArgument', 'SelectorOption',
    'SourceArgument', 'SourceOption', 'UriMapperOption', 'ValidationHookOption', 'ValidationOption',
    'ValidationSourceArgument', 'ValueHookOption', 'XmlNsProcessingOption'}
MODELLED_GLOBALS = {
    ('caching.py', '', '_cached_functions', 'dict'): 'registry:import-time',
    ('cli.py', '', 'CONVERTERS_MAP', 'dict'): 'outside-validation',
    ('converters/base.py', '', '_indent', 'call:None'): 'constant',
    ('extras/codegen.py', 'AbstractGenerator', 'builtin_types', 'dict'): 'outside-validation',
    ('extras/codegen.py', 'PythonGenerator', 'builtin_types', 'dict'): 'outside-validation',
    ('extras/codegen.py', 'PythonGenerator', 'searchpaths', 'list'): 'outside-validation',
    ('locations.py', '', 'FALLBACK_LOCATIONS', 'dict'): 'constant',
    ('locations.py', '', 'LOCATIONS', 'dict'): 'constant',
    ('resources/xml_resource.py', 'XMLResource', '_context_lock', 'call:Lock'): 'constant',
    ('settings.py', '', '_DEFAULT_RESOURCE_SETTINGS', 'call:ResourceSettings'): 'constant',
    ('settings.py', '', '_DEFAULT_SCHEMA_SETTINGS', 'call:SchemaSettings'): 'constant',
    ('testing/_observers.py', 'ObservedXMLSchema10', 'builders', 'call:ObservedBuilders'): 'outside-validation',
    ('testing/_observers.py', 'ObservedXMLSchema11', 'xsd_builders', 'call:ObservedBuilders'): 'outside-validation',
    ('testing/_observers.py', 'SchemaObserver', 'components', 'list'): 'outside-validation',
    ('testing/_observers.py', 'SchemaObserver', 'dummy_components', 'list'): 'outside-validation',
    ('utils/decoding.py', '', 'Empty', 'call:EmptyType'): 'constant',
    ('utils/logger.py', '', 'LOG_LEVELS', 'set'): 'constant',
    ('validators/builders.py', '', 'ANY_ATTRIB', 'dict'): 'constant',
    ('validators/builders.py', '', 'ANY_ATTRIBUTE_ATTRIB', 'dict'): 'constant',
    ('validators/builtins.py', '', 'BOOLEAN_FACETS', 'set'): 'constant',
    ('validators/builtins.py', '', 'BUILTIN_TYPES', 'dict'): 'constant',
    ('validators/builtins.py', '', 'COLLAPSE_WHITE_SPACE_ELEMENT', 'call:Element'): 'constant',
    ('validators/builtins.py', '', 'DATETIME_FACETS', 'set'): 'constant',
    ('validators/builtins.py', '', 'DECIMAL_FACETS', 'set'): 'constant',
    ('validators/builtins.py', '', 'FLOAT_FACETS', 'set'): 'constant',
    ('validators/builtins.py', '', 'PRESERVE_WHITE_SPACE_ELEMENT', 'call:Element'): 'constant',
    ('validators/builtins.py', '', 'REPLACE_WHITE_SPACE_ELEMENT', 'call:Element'): 'constant',
    ('validators/builtins.py', '', 'STRING_FACETS', 'set'): 'constant',
    ('validators/builtins.py', '', 'XSD10_FLOAT_PATTERN_ELEMENT', 'call:Element'): 'constant',
    ('validators/builtins.py', '', 'XSD11_FLOAT_PATTERN_ELEMENT', 'call:Element'): 'constant',
    ('validators/facets.py', '', 'FACETS_CLASSES', 'dict'): 'constant',
    ('validators/facets.py', '', 'XSD_10_FACETS_CLASSES', 'dict'): 'constant',
    ('validators/facets.py', '', 'XSD_11_FACETS_CLASSES', 'call:copy'): 'constant',
    ('validators/facets.py', 'XsdAssertionFacet', '_root', 'call:ElementNode'): 'constant',
    ('validators/groups.py', '', 'ANY_ELEMENT', 'call:Element'): 'constant',
    ('validators/helpers.py', '', 'XSD_BOOLEAN_MAP', 'dict'): 'constant',
    ('validators/helpers.py', '', 'XSD_FINAL_ATTRIBUTE_VALUES', 'set'): 'constant',
    ('validators/schemas.py', '', '_meta_registry', 'call:set'): 'registry:schema-creation',
    ('validators/schemas.py', 'XMLSchema10', 'BASE_SCHEMAS', 'dict'): 'constant',
    ('validators/schemas.py', 'XMLSchema10', 'builders', 'call:XsdBuilders'): 'constant',
    ('validators/schemas.py', 'XMLSchema11', 'BASE_SCHEMAS', 'dict'): 'constant',
    ('validators/schemas.py', 'XMLSchema11', 'builders', 'call:XsdBuilders'): 'constant',
    ('validators/schemas.py', 'XMLSchemaBase', 'BASE_SCHEMAS', 'dict'): 'constant',
    ('validators/simple_types.py', 'XsdAtomic', '_special_types', 'set'): 'constant',
    ('validators/simple_types.py', 'XsdList', '_white_space_elem', 'call:Element'): 'constant',
    ('validators/simple_types.py', 'XsdSimpleType', '_special_types', 'set'): 'constant',
    ('validators/xsd_globals.py', '', '_strict', 'call:None'): 'constant',
    ('xpath/identity_parser.py', 'IdentityXPathParser', 'symbol_table', 'dict'): 'constant',
    ('xpath/mixin.py', 'ElementPathMixin', 'attributes', 'dict'): 'constant',
    ('xpath/mixin.py', 'ElementPathMixin', 'namespaces', 'dict'): 'constant',
    ('xpath/selectors.py', '', '_dummy_element', 'call:Element'): 'constant',
    ('xpath/selectors.py', '', '_selectors_cache', 'dict'): 'process-cache',
}
# how every XPath evaluation site obtains its context: a per-call context is `percall_context_no_interference`,
# anything else is the `shared_context_race_counterexample` shape until shown otherwise
MODELLED_XPATH_SITES = [
    ['validators/assertions.py', 'XsdAssert.__call__', 'evaluate', 'fresh'],
    ['validators/elements.py', 'XsdAlternative.test', 'select', 'fresh'],
    ['validators/elements.py', 'XsdElement.collect_key_fields', 'select_results', 'fresh'],
    ['validators/facets.py', 'XsdAssertionFacet.__call__', 'evaluate', 'fresh'],
    ['validators/identities.py', 'FieldValueSelector.__init__', 'select', 'fresh'],
    ['validators/identities.py', 'FieldValueSelector.get_value', 'select', 'fresh'],
    ['validators/identities.py', 'XsdIdentity.update_elements', 'select_results', 'fresh'],
    ['xpath/find_parser.py', 'select__predicate', 'select', 'copy-of-param'],
    ['xpath/mixin.py', 'ElementPathMixin.find', 'select_results', 'fresh'],
    ['xpath/mixin.py', 'ElementPathMixin.iterfind', 'select_results', 'fresh'],
    ['xpath/selectors.py', 'ElementSelector.iter_select', 'select', 'fresh'],
]


def classified_globals() -> list:
    import re
    out = []
    for rel, cname, name, kind in L.scan_mutable_globals():
        m = re.match(r'call:(\w+)$', kind)
        if m and m.group(1) in DESCRIPTOR_TYPES:
            out.append([rel, cname, name, kind, 'descriptor'])
        else:
            out.append([rel, cname, name, kind, MODELLED_GLOBALS.get((rel, cname, name, kind), 'unclassified')])
    return out


def shared_objects_table(ctx: Ctx) -> dict:
    """Regenerates (a) the table of class-level / module-level mutable objects and (b) the table of XPath evaluation
    sites from the source and compares them with the classified ones; returns the fingerprints of the objects that
    validation must not mutate (compared again at the end of the run: `shared_objects_unchanged`)."""
    rows = classified_globals()
    ctx.traces += 1
    unclassified = [r[:4] for r in rows if r[4] == 'unclassified']
    gone = [list(k) for k in MODELLED_GLOBALS if list(k) not in [r[:4] for r in rows]]
    if unclassified or gone:
        ctx.mismatch('the table of class-level / module-level mutable objects of /repo differs from the classified table '
                     '(such an object is shared by all threads and all schemas)', {'shared-objects': True},
                     {'not classified': unclassified, 'not in the source any more': gone}, None)
    for r in rows:
        ctx.count('shared-objects:' + r[4])
    sites = L.xpath_sites()
    ctx.traces += 1
    ctx.extra['xpath_sites'] = sites
    if sites != MODELLED_XPATH_SITES:
        ctx.mismatch('the XPath evaluation sites (how each obtains its context) differ from the modelled table: a context '
                     'that is not built by the call is shared state', {'xpath-sites': True},
                     [x for x in sites if x not in MODELLED_XPATH_SITES], [x for x in MODELLED_XPATH_SITES if x not in sites])
    snap = {}
    for rel, cname, name, kind, cl in rows:
        if cl in ('constant', 'registry:import-time', 'unclassified'):
            try:
                snap[(rel, cname, name)] = L.fingerprint(L.resolve_global(rel, cname, name))
            except Exception as e:      # noqa
                ctx.count('shared-objects:not resolvable ' + type(e).__name__)
    ctx.extra['shared_objects'] = [r for r in rows if r[4] != 'descriptor']
    return snap


def shared_objects_unchanged(ctx: Ctx, snap: dict) -> None:
    """no validation / decoding / build of this whole run has changed a class-level or module-level object that is
    classified as constant (a write to such an object from a call is a write to state shared by every thread)"""
    for (rel, cname, name), before in snap.items():
        ctx.traces += 1
        try:
            after = L.fingerprint(L.resolve_global(rel, cname, name))
        except Exception:      # noqa
            continue
        if after != before:
            ctx.mismatch('a class-level / module-level object was mutated while schemas were built and documents validated',
                         {'shared-objects': f'{rel}:{cname}.{name}'}, before[:600], after[:600])


def context_model_tie(ctx: Ctx, drv: Optional[Driver], impl_wrong: bool) -> None:
    """`percall_context_no_interference` / `shared_context_race_counterexample` against the code: the mode is read
    from the source (the assertion-facet site builds its context in the call or not); the model's answer for the
    witness schedule (store 7 / store 700, evaluate / evaluate) must agree with what the exhaustive pre-emption of
    XP_DOCS[0] by XP_DOCS[1] showed on the real code."""
    if drv is None:
        return
    site = [x for x in L.xpath_sites() if x[1] == 'XsdAssertionFacet.__call__']
    shared = not (site and all(x[3] == 'fresh' for x in site))
    m = drv.query([{'op': 'xcexec', 'threads': 2, 'shared': shared, 'gap': 1, 'vals': [[7], [700]],
                    'sched': [0, 0, 1, 1, 1, 1, 1, 0, 0, 0]}])[0]
    ctx.traces += 1
    model_wrong = m.get('res', [[7]])[0] != [7]
    ctx.extra['assertion_context'] = {'shared (from the source)': shared, 'model thread 0 evaluates on': m.get('res'),
                                      'code: some pre-emption changed a result': impl_wrong}
    if model_wrong != impl_wrong:
        ctx.mismatch('evaluation context of the assertion facet: model and code disagree on interference',
                     {'context-tie': True}, {'impl_wrong': impl_wrong, 'shared': shared}, m)



def load_findings() -> list:
    if FINDINGS_FILE.exists():
        return json.loads(FINDINGS_FILE.read_text()).get('findings', [])
    return []


def known_match_f3(case: Any, detail: Any) -> Optional[str]:
    """C18-F3: ONLY on the schema F3_XSD (two identity constraints of different element declarations select the
    same child of a shared xsi:type), ONLY a call that single-threaded returns a verdict and in a thread escapes
    with exactly `RuntimeError: Set changed size during iteration` (the set iterator of
    `for identity in self.selected_by` in XsdElement.collect_key_fields)."""
    if not isinstance(case, dict) or case.get('xsd') != F3_XSD:
        return None
    if not any(f.get('id') == 'C18-F3' and f.get('status') == 'known' for f in load_findings()):
        return None
    if not isinstance(detail, dict) or detail.get('op') not in OPS:
        return None
    if detail.get('threaded') != F3_ERR or not isinstance(detail.get('single'), list) or detail['single'][0] == 'raised':
        return None
    if not L.code_variant()['live']:
        return None
    return 'C18-F3'


def known_match(case: Any, detail: Any) -> Optional[str]:
    """C18-F2: ONLY the forced statement-level window inside XsdIdentity.update_elements (thread 0 paused
    between `self.elements[e] = …` and `e.selected_by.add(self)`), ONLY thread 1 missing the duplicate
    `unique` value of the widened child.  Everything else is reported."""
    f3 = known_match_f3(case, detail)
    if f3:
        return f3
    if not isinstance(case, dict) or case.get('forced') != 'F2' or case.get('variant') != 'line':
        return None
    if not any(f.get('id') == 'C18-F2' and f.get('status') == 'known' for f in load_findings()):
        return None
    if not isinstance(detail, dict) or detail.get('thread') != 1 or detail.get('op') != 'iter_errors':
        return None
    single, threaded = detail.get('single'), detail.get('threaded')
    try:
        missing = [e for e in single[1] if e not in threaded[1]]
        extra = [e for e in threaded[1] if e not in single[1]]
    except Exception:   # noqa
        return None
    if extra or len(missing) != 1 or 'duplicated value' not in missing[0][2]:
        return None
    return 'C18-F2'


# =============================================================================================
def generated_pool(ctx: Ctx, k: int) -> list[tuple[str, list[str]]]:
    """schemas + documents from the shared generator (files are not needed: no imports)"""
    from harness.lib_schemagen import Schema
    out = []
    for _ in range(k):
        rng = random.Random(ctx.rng.getrandbits(64))
        sc = Schema(rng, rng.choice([10, 16, 24]), with_imports=False)
        docs = []
        for r in rng.sample(sc.roots(), min(3, len(sc.roots()))):
            for m in (None, 'value', 'drop', 'extra'):
                docs.append(sc.instance(r, m))
        out.append((sc.document(), docs))
    return out


def run(ctx: Ctx, driver_ok: bool) -> None:
    import warnings
    warnings.simplefilter('ignore')
    drv = Driver('drv_c18') if driver_ok else None
    ctx.known.extend(f for f in load_findings() if f.get('property') == 'C18')
    old_interval = sys.getswitchinterval()
    batch: list = []
    try:
        base = Baseline(POOL_XSD)
        pools: list[tuple[Baseline, list[str]]] = [(base, POOL_DOCS)]
        for xsd, docs in generated_pool(ctx, ctx.pick(2, 8)):
            try:
                pools.append((Baseline(xsd), docs))
            except Exception:   # noqa
                ctx.count('generated schema rejected')
        # 0. forced windows
        forced_window(ctx, base, drv, 'F1')
        forced_window(ctx, base, drv, 'F2')
        forced_built_window(ctx, base)
        forced_build_body_windows(ctx, base, [POOL_DOCS[-2], POOL_DOCS[1], POOL_DOCS[0]], ctx.pick(80, 400))
        variant = L.code_variant()
        ctx.extra['code_variant'] = variant
        forced_f3(ctx, drv, variant)
        forced_scratch_lax(ctx, drv)
        # 0b. the table of memoised functions and the hypotheses of the benign-race theorems
        cache_table(ctx)
        cache_hypotheses(ctx, pools[:ctx.pick(2, 4)])
        scratch_noninterference(ctx)
        # 0b'. shared objects outside the schema (class attributes, module globals), XPath evaluation contexts
        snap = shared_objects_table(ctx)
        xpbase = Baseline(XP_XSD)
        w01 = preemption_family(ctx, xpbase, XP_DOCS, XP_PAIRS[:2], 10 ** 9, 'xp-assertion')
        context_model_tie(ctx, drv, w01)
        preemption_family(ctx, xpbase, XP_DOCS, XP_PAIRS[2:ctx.pick(8, 10)], ctx.pick(250, 2500), 'xp')
        if ctx.tier != 'quick':
            allp = [(a, b) for a in range(len(XP_DOCS)) for b in range(len(XP_DOCS)) if a != b and (a, b) not in XP_PAIRS]
            preemption_family(ctx, xpbase, XP_DOCS, allp, 60, 'xp-all')
        preemption_family(ctx, base, POOL_DOCS, [(1, 2), (2, 1), (3, 11)], ctx.pick(150, 1500), 'pool')
        # alternatives tested over INHERITED attributes: every line/call boundary inside get_alternative_type
        # and the frames it calls (XsdAlternative.test, the elementpath evaluation), then every library call
        inhbase = Baseline(INH_XSD)
        preemption_family(ctx, inhbase, INH_DOCS, INH_PAIRS[:ctx.pick(5, 8)], ctx.pick(150, 3000), 'inherited-alt-lines',
                          'get_alternative_type')
        preemption_family(ctx, inhbase, INH_DOCS, INH_PAIRS[:ctx.pick(3, 8)], ctx.pick(150, 1500), 'inherited-alt')
        xpath_family(ctx, batch, xpbase, ctx.pick(60, 600))
        flush(ctx, batch, drv)
        # 0c. LINE granularity inside the modelled functions, 2-3 threads, small schemas
        lbatch: list = []
        if not L.BuildLines().ok:
            ctx.mismatch('XsdGlobals.build does not have the shape of the modelled double-checked lock', {'build-shape': True}, None, None)
        f3base = Baseline(F3_XSD)
        n_line = ctx.pick(150, 1500)
        for i in range(n_line):
            seed = ctx.rng.getrandbits(48)
            n = ctx.rng.choice([2, 2, 3])
            p_line = ctx.rng.choice([0.05, 0.2, 0.5, 1.0])
            kind = i % 3
            if kind == 0:
                line_build_experiment(ctx, lbatch, base if i % 2 == 0 else f3base, POOL_DOCS if i % 2 == 0 else F3_DOCS, n, seed, p_line, i)
            elif kind == 1:
                line_widen_experiment(ctx, lbatch, f3base, F3_DOCS, n, seed, p_line, i, variant, 'f3')
            elif i % 12 == 5:
                line_widen_experiment(ctx, lbatch, xpbase, XP_DOCS, n, seed, p_line, i, variant, 'xp')
            else:
                line_widen_experiment(ctx, lbatch, base, [POOL_DOCS[j] for j in (1, 2, 3, 11, 0)], n, seed, p_line, i, variant, 'pool')
            if len(lbatch) > 40:
                flush_lines(ctx, lbatch, drv)
            if ctx.time_left() < 300:
                ctx.notes.append(f'line-level schedules stopped at {i + 1} (time budget)')
                break
        flush_lines(ctx, lbatch, drv)
        # 1. controlled schedules
        n_sched = ctx.pick(500, 5000)
        for i in range(n_sched):
            b, docs = pools[0] if i % 3 != 2 else ctx.rng.choice(pools)
            n = ctx.rng.choice([2, 2, 3, 4])
            seed = ctx.rng.getrandbits(48)
            rng = random.Random(seed)
            build_first = ctx.rng.random() < 0.7
            jobs = random_jobs(rng, n, docs, ctx.rng.choice([1, 2, 3]))
            style = ctx.rng.choice(['pct', 'pct', 'coin', 'dense-build'])
            if style == 'pct':
                plan = {'at': sorted(rng.sample(range(1, 1500 * n), rng.randint(1, 6)))}
            elif style == 'coin':
                plan = {'p': rng.choice([0.002, 0.01, 0.05])}
            else:
                plan = {'at': sorted(rng.sample(range(1, 60), rng.randint(2, 8))), 'p': 0.001}
            sched = Sched(n, random.Random(seed + 1), plan)
            case = {'controlled': i, 'seed': seed, 'threads': n, 'build_first': build_first, 'style': style, 'plan': plan,
                    'schema': 'pool' if b is base else 'generated', 'jobs': [[(o, docs.index(x)) for o, x in j] for j in jobs]}
            full = dict(case, xsd=b.xsd, docs=docs)
            _, _, nontrivial = experiment(ctx, batch, b, full, jobs, sched, build_first)
            ctx.case(case, nontrivial, tag=f'controlled/{style}/{n} threads')
            if len(batch) > 200:
                flush(ctx, batch, drv)
            if ctx.time_left() < 240:
                ctx.notes.append(f'controlled schedules stopped at {i + 1} (time budget)')
                break
        flush(ctx, batch, drv)
        # 2. free-running stress
        sys.setswitchinterval(1e-6)
        for i in range(ctx.pick(250, 2500)):
            b, docs = pools[0] if i % 2 == 0 else ctx.rng.choice(pools)
            n = ctx.rng.choice([2, 3, 4])
            rng = random.Random(ctx.rng.getrandbits(64))
            jobs = random_jobs(rng, n, docs, ctx.rng.choice([3, 6]))
            case = {'stress': i, 'threads': n, 'schema': 'pool' if b is base else 'generated',
                    'jobs': [[(o, docs.index(x)) for o, x in j] for j in jobs]}
            full = dict(case, xsd=b.xsd, docs=docs)
            _, _, nontrivial = experiment(ctx, batch, b, full, jobs, None, True)
            ctx.case(case, nontrivial, tag=f'stress/{n} threads')
            if ctx.time_left() < 120:
                break
        flush(ctx, batch, drv)
        shared_objects_unchanged(ctx, snap)
    finally:
        sys.setswitchinterval(old_interval)
        Events.target = None
    ctx.extra['explanation'] = ('controlled schedules at library-call granularity (PCT-style switch points, coin '
                                'flips, dense switching during the build race), forced F1/F2/F3 windows, free-running '
                                'stress with switch interval 1e-6 s; build-lock event logs replayed on the Lean model; '
                                'LINE-granularity schedules inside build / update_elements / raw_decode / '
                                'collect_key_fields / the cache front ends with replay of the line + shared-state event '
                                'logs on the statement-level models (replayL, xwreplay, creplay); table of memoised '
                                'functions regenerated from the source; hypotheses of the benign-race theorems checked '
                                'on the real objects; exhaustive single-preemption at every xmlschema/elementpath call '
                                'boundary on an XSD 1.1 pool (assertion facets, xs:assert, alternatives, identities, open '
                                'content) and random schedules switching inside elementpath; tables of class-level / '
                                'module-level mutable objects and of XPath evaluation sites regenerated from the source, '
                                'content fingerprints of the constant ones compared before/after the run')


def search(ctx: Ctx) -> None:
    """widen: more controlled schedules without the driver"""
    saved = ctx.tier
    ctx.tier = 'thorough'
    try:
        base = Baseline(POOL_XSD)
        batch: list = []
        for i in range(300):
            n = ctx.rng.choice([2, 3, 4])
            rng = random.Random(ctx.rng.getrandbits(64))
            jobs = random_jobs(rng, n, POOL_DOCS, 2)
            plan = {'at': sorted(rng.sample(range(1, 1500 * n), rng.randint(1, 8)))}
            case = {'controlled-search': i, 'threads': n, 'plan': plan, 'xsd': POOL_XSD, 'docs': POOL_DOCS,
                    'jobs': [[(o, POOL_DOCS.index(x)) for o, x in j] for j in jobs], 'build_first': True}
            experiment(ctx, batch, base, case, jobs, Sched(n, rng, plan), True)
            batch.clear()
            if ctx.failures or ctx.time_left() < 60:
                break
    finally:
        ctx.tier = saved


def replay(ctx: Ctx, obj: dict) -> int:
    print(json.dumps({k: v for k, v in obj.items() if k != 'input'}, indent=1)[:3000])
    case = obj.get('input') or {}
    if not isinstance(case, dict):
        return 0
    drv = None
    try:
        drv = Driver('drv_c18')
    except Exception:   # noqa
        pass
    ctx.known.extend(f for f in load_findings() if f.get('property') == 'C18')
    if case.get('line') and ('line-widen' in case or 'line-build' in case):
        # a line-level schedule: same seed, same plan (the scheduler is deterministic given the seed)
        base = Baseline(case['xsd'])
        lbatch: list = []
        if 'line-widen' in case:
            line_widen_experiment(ctx, lbatch, base, case['docs'], case['threads'], case['seed'], case['p_line'],
                                  case['line-widen'], L.code_variant(), case.get('schema', 'replay'))
        else:
            line_build_experiment(ctx, lbatch, base, case['docs'], case['threads'], case['seed'], case['p_line'], case['line-build'])
        flush_lines(ctx, lbatch, drv)
        for m in ctx.mismatches[:3]:
            print('MODEL != CODE:', m['correspondence'], json.dumps(m['model'])[:600])
    elif case.get('preempt'):
        base = Baseline(case['xsd'])
        schema = fresh(case['xsd'], True)
        a, b = case['docs']
        for _ in range(2):      # as in the family: the switch point is counted on a schema whose caches are warm
            preempt_once(schema, case['op'], a, b, -1, case.get('scope'))
        got_a, got_b, _ = preempt_once(schema, case['op'], a, b, case['k'], case.get('scope'))
        for name, doc, got in (('A', a, got_a), ('B', b, got_b)):
            want = base.result(case['op'], doc)
            print(f'thread {name}: threaded {json.dumps(got)[:400]}\n          single   {json.dumps(want)[:400]}')
            if got != want:
                ctx.failure('a call on the shared schema returns a result different from the single-threaded one', case,
                            {'thread': name, 'threaded': got, 'single': want})
    elif case.get('scratch'):
        scratch_noninterference(ctx)
    elif case.get('forced') == 'F3':
        forced_f3(ctx, drv, L.code_variant())
    elif case.get('forced') == 'scratch-lax':
        forced_scratch_lax(ctx, drv)
        print(ctx.extra.get('scratch_lax_race'))
    elif case.get('forced') == 'build-body':
        base = Baseline(case['xsd'])
        forced_build_body_windows(ctx, base, case['docs'], 10 ** 9)
    elif case.get('forced'):
        base = Baseline(POOL_XSD)
        if case['forced'] == 'B':
            forced_built_window(ctx, base)
        else:
            forced_window(ctx, base, None, case['forced'])
    elif 'xsd' in case and 'jobs' in case:
        base = Baseline(case['xsd'])
        docs = case['docs']
        jobs = [[(o, docs[i]) for o, i in j] for j in case['jobs']]
        n = len(jobs)
        batch: list = []
        for rep in range(1 if 'plan' in case else 20):
            sched = Sched(n, random.Random(case.get('seed', rep) + 1), case['plan']) if 'plan' in case else None
            if sched is None:
                sys.setswitchinterval(1e-6)
            experiment(ctx, batch, base, case, jobs, sched, case.get('build_first', True),
                       make_xpath_tracer if case.get('tracer') == 'xpath' else None)
            if ctx.failures:
                break
        print('note: a schedule found by the seeded scheduler is re-explored with fresh seeds; the race is '
              'timing dependent in stress mode')
    for f in ctx.failures[:3]:
        print('FAILS ON THE REAL CODE:', f['what'], json.dumps(f['detail'])[:1500])
    print('known findings hit:', ctx.known_hits)
    return 1 if ctx.failures else 0
