"""
C18 — one schema object can be built and used from many threads with unchanged results.

On the real code:
  * a seeded CONTROLLED SCHEDULER serialises 2-4 worker threads that share one schema object and switches
    between them at function-call granularity inside xmlschema/ (sys.settrace per worker + per-thread
    semaphores; the library's locks are replaced, from outside, by scheduler-aware proxies so that a paused
    lock holder can never dead-lock the run; every wait has a time-out, a stuck schedule is abandoned to
    free running, never hangs);
  * every worker first races through `schema.build()` on a not yet built schema (or finds it built) and then
    performs is_valid / iter_errors / decode calls from a document pool (xsi:type under identity
    constraints, unique/key/keyref, wildcards, fixed values, decode errors, generated schemas);
  * every per-thread result is compared with the single-threaded baseline on a fresh schema; the global
    components after the race are compared with a sequential build; the build body must run exactly once;
  * free-running stress with sys.setswitchinterval(1e-6);
  * targeted forced schedules: the C18-F1 window (pause between widening and publication, call
    granularity) and the C18-F2 window (statement granularity, between `elements[e] = …` and
    `selected_by.add`), the latter is a known finding (notes/findings/C18.json, notes/fixes/C18-*.patch).

Tie to the Lean model (Model/Threads.lean): the observed events of the build lock (reads/writes of
`_built`, acquire/release of `_build_lock`, with thread ids, in real order) are replayed on the model by
drv_c18: each event must be an enabled model step and each observed read must return the model's value;
the final model state (runs, maps, pcs) is compared with the real one.  The forced F1/F2 schedules are run
on the model (`wexec`) and on the code and must agree on "thread B collected the key fields or not".
"""
from __future__ import annotations

import json
import os
import random
import sys
import threading
import time
from typing import Any, Callable, Optional

from harness.core import Ctx, Driver, REPO, VERIF

PROPS = 'XsVerif.Props.C18'
AUDIT = 'XsVerif.Audit.C18'
LEAN_TARGETS = ['XsVerif.Props.C18', 'drv_c18']
LEANCHECK = ['XsVerif.Model.Threads', 'XsVerif.Lemmas.Threads', 'XsVerif.Props.C18']
RULE = ('a case = (schema, number of threads, per-thread call lists, schedule seed / stress round / forced '
        'schedule); non-trivial = at least one thread switch happened strictly inside a library call of another '
        'thread (controlled), or the build lock was contended (a thread found it held or found `_built` already '
        'set under the lock), or a forced window was actually reached; distinct by canonical JSON')
TRUSTED = ['CPython GIL: the real switch points are finer than function calls; C-level atomicity of dict/set '
           'operations is trusted; the controlled scheduler explores call-granularity interleavings, the stress '
           'run samples the rest',
           'threading.Lock semantics (mutual exclusion, no spurious release)']
ASSUMPTIONS = ['documents do not trigger loading of additional schemas during validation (stated in the property)',
               'non-lazy resources (the lazy iteration lock is not exercised)']

FINDINGS_FILE = VERIF / 'notes' / 'findings' / 'C18.json'
PREFIX = str(REPO / 'xmlschema') + os.sep
JOIN_TIMEOUT = 60.0
STEP_TIMEOUT = 5.0

XSI = 'http://www.w3.org/2001/XMLSchema-instance'

POOL_XSD = '''<xs:schema xmlns:xs="http://www.w3.org/2001/XMLSchema" targetNamespace="urn:t" xmlns:t="urn:t"
    elementFormDefault="qualified">
 <xs:element name="root">
  <xs:complexType>
   <xs:sequence>
    <xs:element name="item" type="t:Base" maxOccurs="unbounded">
     <xs:unique name="iu"><xs:selector xpath="t:k"/><xs:field xpath="."/></xs:unique>
    </xs:element>
    <xs:element name="ref" type="xs:int" minOccurs="0" maxOccurs="unbounded"/>
    <xs:element ref="t:other" minOccurs="0" maxOccurs="2"/>
    <xs:any namespace="##other" processContents="lax" minOccurs="0" maxOccurs="2"/>
   </xs:sequence>
   <xs:attribute name="v" type="xs:string" fixed="1"/>
  </xs:complexType>
  <xs:unique name="u"><xs:selector xpath="t:item/t:k"/><xs:field xpath="."/></xs:unique>
  <xs:key name="key"><xs:selector xpath="t:item"/><xs:field xpath="@id"/></xs:key>
  <xs:keyref name="kr" refer="t:key"><xs:selector xpath="t:ref"/><xs:field xpath="."/></xs:keyref>
 </xs:element>
 <xs:complexType name="Base">
  <xs:sequence><xs:element name="a" type="t:Small" minOccurs="0"/></xs:sequence>
  <xs:attribute name="id" type="xs:int" use="required"/>
 </xs:complexType>
 <xs:complexType name="Ext"><xs:complexContent><xs:extension base="t:Base">
   <xs:sequence><xs:element name="k" type="xs:string" maxOccurs="unbounded"/></xs:sequence>
 </xs:extension></xs:complexContent></xs:complexType>
 <xs:complexType name="Ext2"><xs:complexContent><xs:extension base="t:Base">
   <xs:sequence><xs:element name="k" type="xs:string" minOccurs="0" maxOccurs="unbounded"/>
     <xs:element name="m" type="xs:boolean" minOccurs="0"/></xs:sequence>
 </xs:extension></xs:complexContent></xs:complexType>
 <xs:simpleType name="Small"><xs:restriction base="xs:int"><xs:maxInclusive value="9"/></xs:restriction></xs:simpleType>
 <xs:element name="other" type="t:Small"/>
 <xs:element name="sub" type="t:Small" substitutionGroup="t:other"/>
 <xs:element name="sub2" type="t:Small" substitutionGroup="t:sub"/>
</xs:schema>'''


def doc(items: str, refs: str = '', extra: str = '', v: str = '1') -> str:
    return (f'<t:root xmlns:t="urn:t" xmlns:xsi="{XSI}" xmlns:o="urn:o" v="{v}">{items}{refs}{extra}</t:root>')


POOL_DOCS = [
    doc('<t:item id="1"><t:a>3</t:a></t:item><t:item id="2"/>', '<t:ref>1</t:ref>'),
    doc('<t:item id="1" xsi:type="t:Ext"><t:k>x</t:k><t:k>x</t:k></t:item>'),                       # duplicate unique under xsi:type
    doc('<t:item id="1" xsi:type="t:Ext"><t:k>x</t:k><t:k>y</t:k></t:item><t:item id="2" xsi:type="t:Ext2"><t:k>y</t:k></t:item>'),
    doc('<t:item id="1" xsi:type="t:Ext2"><t:k>p</t:k><t:k>p</t:k><t:m>true</t:m></t:item>'),
    doc('<t:item id="1"/><t:item id="1"/>'),                                                          # duplicate key
    doc('<t:item id="1"/>', '<t:ref>7</t:ref>'),                                                      # dangling keyref
    doc('<t:item id="1"><t:a>12</t:a></t:item>'),                                                     # facet error
    doc('<t:item id="x"/>'),                                                                           # decode error
    doc('<t:item id="1"/>', '', '<o:any>1</o:any><o:b/>'),                                            # wildcard, lax
    doc('<t:item id="1"/>', '', '', v='2'),                                                           # fixed value
    doc('<t:item id="1" xsi:type="t:Nope"/>'),                                                        # unknown xsi:type
    doc('<t:item id="3" xsi:type="t:Ext"><t:a>4</t:a><t:k>q</t:k></t:item>', '<t:ref>3</t:ref>', '<t:other>5</t:other>'),
    doc('<t:item id="1"/>', '', '<t:sub>4</t:sub><t:sub2>5</t:sub2>'),                                # substitution-group members
    doc('<t:item id="1"/>', '', '<t:sub>40</t:sub>'),                                                 # member with a facet error
]
OPS = ['iter_errors', 'decode', 'is_valid']


# =============================================================================================
#  calls on the real code, canonical results
# =============================================================================================
def call(schema: Any, op: str, xml: str) -> Any:
    import re
    try:
        if op == 'is_valid':
            return ['is_valid', bool(schema.is_valid(xml))]
        if op == 'iter_errors':
            return ['errors', [[type(e).__name__, e.path, re.sub(r' at 0x[0-9a-f]+', '', str(e.reason))]
                               for e in schema.iter_errors(xml)]]
        data, errs = schema.decode(xml, validation='lax')
        return ['decoded', json.dumps(data, default=str, sort_keys=True), len(errs)]
    except Exception as e:   # noqa  (an exception is a result too; it must be the same single-threaded)
        return ['raised', type(e).__name__, re.sub(r' at 0x[0-9a-f]+', '', str(e))[:200]]


def globals_of(schema: Any) -> list:
    return sorted([type(c).__name__, c.name] for c in schema.maps.iter_globals()
                  if not c.name.startswith('{http://www.w3.org/'))


def build_state(schema: Any) -> list:
    """what a thread can see of the built state right after `build()` returned to it: the global
    components, the substitution groups attached to the global elements, the build flags"""
    out = []
    for name, e in sorted(schema.maps.elements.items()):
        if not name.startswith('{http://www.w3.org/'):
            out.append([name, sorted(getattr(e, 'substitutes', ()) or ()), type(e.type).__name__])
    return [out, bool(schema.built), len(list(schema.maps.iter_globals()))]


def fresh(xsd: str, build: bool) -> Any:
    import xmlschema
    return xmlschema.XMLSchema(xsd, build=build)


# =============================================================================================
#  instrumentation of the shared state (from outside)
# =============================================================================================
class Events:
    """ordered log of (thread, event, value) of the build lock of one XsdGlobals"""
    target: Any = None
    log: list = []
    tids: dict = {}
    installed = False
    orig: Any = None
    mutex = threading.Lock()
    on_built: Any = None     # callback(thread) invoked right after a logged write of `_built = True`

    @classmethod
    def tid(cls) -> int:
        return cls.tids.get(threading.get_ident(), -1)

    @classmethod
    def install(cls) -> None:
        if cls.installed:
            return
        from xmlschema.validators.xsd_globals import XsdGlobals
        d = XsdGlobals.__dict__['_built']
        cls.orig = d

        # the access and its log entry are made atomic with respect to the other logged accesses, so that
        # the log order is a real linearisation order also in free-running mode
        def get(self):
            if self is cls.target:
                t = cls.tid()
                if t >= 0:
                    with cls.mutex:
                        v = d.__get__(self, XsdGlobals)
                        cls.log.append([t, 'read', bool(v)])
                    return v
            return d.__get__(self, XsdGlobals)

        def set_(self, v):
            if self is cls.target:
                t = cls.tid()
                if t >= 0:
                    with cls.mutex:
                        cls.log.append([t, 'write', bool(v)])
                        d.__set__(self, v)
                    cb = cls.on_built
                    if v and cb is not None:
                        cb(t)
                    return
            d.__set__(self, v)
        XsdGlobals._built = property(get, set_)
        cls.installed = True


class LockProxy:
    """Replaces a threading.Lock of the library: logs acquire/release and never blocks the controlled
    scheduler (a thread that finds the lock held hands the baton over instead of blocking)."""

    def __init__(self, real: Any, sched: Optional['Sched'], log: bool):
        self.real, self.sched, self.log = real, sched, log
        self.contended = 0

    def acquire(self, blocking: bool = True, timeout: float = -1) -> bool:
        t = Events.tid()
        s = self.sched
        if s is not None and t >= 0:
            spins = 0
            while not self.real.acquire(False):
                self.contended += 1
                if s.free or spins > 10_000:
                    if not self.real.acquire(True, 30):
                        raise RuntimeError('lock not obtained within 30 s')
                    break
                spins += 1
                s.switch(t, forced=True)
        else:
            if not self.real.acquire(False):
                self.contended += 1
                if not self.real.acquire(True, 30):
                    raise RuntimeError('lock not obtained within 30 s')
        if self.log and t >= 0:
            Events.log.append([t, 'acquire', True])
        return True

    def release(self) -> None:
        t = Events.tid()
        if self.log and t >= 0:
            Events.log.append([t, 'release', True])
        self.real.release()

    def __enter__(self) -> 'LockProxy':
        self.acquire()
        return self

    def __exit__(self, *a: Any) -> None:
        self.release()

    def locked(self) -> bool:
        return self.real.locked()


def instrument(schema: Any, sched: Optional['Sched']) -> tuple[LockProxy, LockProxy]:
    Events.install()
    maps = schema.maps
    bl = LockProxy(maps._build_lock, sched, True)
    object.__setattr__(maps, '_build_lock', bl)
    cl = LockProxy(maps.cache._lock, sched, False)
    maps.cache._lock = cl
    Events.target = maps
    Events.log = []
    return bl, cl


# =============================================================================================
#  controlled scheduler
# =============================================================================================
class Sched:
    """Serialises the workers: exactly one holds the baton; at yield points (library function calls) the
    baton is passed according to a seeded plan."""

    def __init__(self, n: int, rng: random.Random, plan: dict):
        self.n = n
        self.rng = rng
        self.sem = [threading.Semaphore(0) for _ in range(n)]
        self.alive = [True] * n
        self.free = False
        self.calls = 0
        self.switches = 0
        self.inner_switches = 0
        self.depth = [0] * n
        self.plan = plan
        self.at = set(plan.get('at', ()))
        self.p = plan.get('p', 0.0)
        self.abandoned = False

    def others(self, t: int) -> list[int]:
        return [i for i in range(self.n) if i != t and self.alive[i]]

    def switch(self, t: int, forced: bool = False, to: Optional[int] = None) -> None:
        if self.free:
            return
        o = self.others(t)
        if not o:
            return
        nxt = to if to is not None and to in o else self.rng.choice(o)
        self.switches += 1
        self.sem[nxt].release()
        if not self.sem[t].acquire(timeout=STEP_TIMEOUT * 4):
            self.abandon()

    def abandon(self) -> None:
        self.free = True
        self.abandoned = True
        for s in self.sem:
            for _ in range(4):
                s.release()

    def yield_point(self, t: int) -> None:
        if self.free:
            return
        self.calls += 1
        if self.calls in self.at or (self.p and self.rng.random() < self.p):
            self.inner_switches += 1
            self.switch(t)

    def start(self, t: int) -> None:
        """worker t waits for the baton"""
        if not self.sem[t].acquire(timeout=JOIN_TIMEOUT):
            self.abandon()

    def finish(self, t: int) -> None:
        self.alive[t] = False
        if self.free:
            return
        o = self.others(t)
        if o:
            self.sem[self.rng.choice(o)].release()


def make_tracer(sched: Sched, t: int) -> Callable:
    def tracer(frame, event, arg):
        if event == 'call' and frame.f_code.co_filename.startswith(PREFIX):
            sched.yield_point(t)
        return None
    return tracer


def run_threads(schema: Any, jobs: list[list[tuple[str, str]]], sched: Optional[Sched], build_first: bool,
                tracer_factory: Optional[Callable] = None) -> tuple[list, bool]:
    """Runs the jobs in worker threads sharing `schema`; returns (per-thread results, hung?)."""
    n = len(jobs)
    results: list = [None] * n
    Events.tids = {}

    def worker(t: int) -> None:
        Events.tids[threading.get_ident()] = t
        out = []
        try:
            if sched is not None:
                sched.start(t)
                sys.settrace(tracer_factory(sched, t) if tracer_factory else make_tracer(sched, t))
            if build_first:
                try:
                    schema.build()
                    out.append(['build', 'ok', build_state(schema)])
                except Exception as e:   # noqa
                    out.append(['build', 'raised', type(e).__name__, str(e)[:200]])
            for op, xml in jobs[t]:
                out.append(call(schema, op, xml))
        finally:
            sys.settrace(None)
            results[t] = out
            if sched is not None:
                sched.finish(t)

    ths = [threading.Thread(target=worker, args=(i,), daemon=True) for i in range(n)]
    for th in ths:
        th.start()
    if sched is not None:
        sched.sem[sched.rng.randrange(n) if sched.plan.get('first') is None else sched.plan['first']].release()
    deadline = time.time() + JOIN_TIMEOUT
    hung = False
    for th in ths:
        th.join(max(0.1, deadline - time.time()))
        if th.is_alive():
            hung = True
    if hung and sched is not None:
        sched.abandon()
        for th in ths:
            th.join(10)
        hung = any(th.is_alive() for th in ths)
    return results, hung


# =============================================================================================
#  one shared-schema experiment
# =============================================================================================
class Baseline:
    def __init__(self, xsd: str):
        self.xsd = xsd
        self.schema = fresh(xsd, True)
        self.globals = globals_of(self.schema)
        self.state = build_state(self.schema)
        self.memo: dict = {}

    def result(self, op: str, xml: str) -> Any:
        k = (op, xml)
        if k not in self.memo:
            self.memo[k] = call(self.schema, op, xml)
        return self.memo[k]


def judge(ctx: Ctx, case: dict, base: Baseline, schema: Any, jobs: list, results: list, hung: bool,
          build_first: bool, known: Optional[Callable] = None) -> None:
    def fail(what: str, detail: Any) -> None:
        fid = known_match(case, detail) if known is None else known(case, detail)
        if fid:
            ctx.known_hit(fid)
        else:
            ctx.failure(what, case, detail)
    if hung:
        fail('a worker thread did not finish (hang) while sharing one schema object', {'results': results})
        return
    for t, (job, res) in enumerate(zip(jobs, results)):
        if res is None:
            fail('worker produced no result', {'thread': t})
            continue
        r = list(res)
        if build_first:
            b = r.pop(0)
            if b[:2] != ['build', 'ok']:
                fail('schema.build() fails in a thread', {'thread': t, 'result': b})
            elif b[2] != base.state:
                fail('build() returned to a thread before the schema reached the state of a sequential build',
                     {'thread': t, 'seen': b[2], 'sequential': base.state})
        for (op, xml), got in zip(job, r):
            want = base.result(op, xml)
            if got != want:
                fail('a call on the shared schema returns a result different from the single-threaded one',
                     {'thread': t, 'op': op, 'xml': xml, 'threaded': got, 'single': want})
    g = globals_of(schema)
    if g != base.globals:
        fail('global components after the threaded build differ from a sequential build',
             {'missing': [x for x in base.globals if x not in g], 'extra': [x for x in g if x not in base.globals]})


def replay_request(n: int) -> dict:
    return {'op': 'replay', 'threads': n, 'body': 3, 'post': 1, 'events': list(Events.log)}


def build_facts(n: int) -> dict:
    ev = Events.log
    return {'runs': sum(1 for e in ev if e[1] == 'write' and e[2]),
            'acquires': sum(1 for e in ev if e[1] == 'acquire'),
            'fast': sum(1 for i in range(n) if next((e for e in ev if e[0] == i and e[1] == 'read'), [0, 0, False])[2])}


def experiment(ctx: Ctx, batch: list, base: Baseline, case: dict, jobs: list, sched: Optional[Sched],
               build_first: bool, tracer_factory: Optional[Callable] = None,
               known: Optional[Callable] = None) -> tuple[Any, list]:
    n = len(jobs)
    schema = fresh(base.xsd, not build_first)
    bl, cl = instrument(schema, sched)
    try:
        results, hung = run_threads(schema, jobs, sched, build_first, tracer_factory)
    finally:
        Events.target = None
    judge(ctx, case, base, schema, jobs, results, hung, build_first, known)
    facts = build_facts(n)
    if build_first and not hung:
        if facts['runs'] != 1:
            ctx.failure('the build body ran %d times (must be exactly once)' % facts['runs'], case, facts)
        batch.append((replay_request(n), case, facts, n))
    contended = bl.contended > 0 or (build_first and facts['acquires'] > 1)
    inner = sched.inner_switches if sched is not None else 0
    nontrivial = contended or inner > 0
    ctx.count('build:contended' if contended else 'build:uncontended')
    if sched is not None:
        ctx.count('schedule:abandoned' if sched.abandoned else 'schedule:completed')
        ctx.count('switches', sched.switches)
        ctx.count('yield-points', sched.calls)
    return schema, results, nontrivial


def flush(ctx: Ctx, batch: list, drv: Optional[Driver]) -> None:
    if drv is None or not batch:
        batch.clear()
        return
    answers = drv.query([b[0] for b in batch])
    for (req, case, facts, n), m in zip(batch, answers):
        ctx.traces += 1
        if 'err' in m:
            ctx.mismatch('driver error', case, None, m)
        elif not m['ok']:
            ctx.mismatch('build-lock events of the real run are not a run of the model', case, req['events'][:40], m['why'])
        else:
            if m['runs'] != facts['runs'] or not m['built'] or m['maps'] != 'complete' \
                    or any(p != 'done:complete' for p in m['pcs']):
                ctx.mismatch('final state of the build lock', case, facts, m)
    batch.clear()


def random_jobs(rng: random.Random, n: int, docs: list[str], k: int) -> list:
    return [[(rng.choice(OPS), rng.choice(docs)) for _ in range(k)] for _ in range(n)]


# =============================================================================================
#  forced windows (C18-F1 at call granularity, C18-F2 at statement granularity)
# =============================================================================================
DUP = POOL_DOCS[1]


def forced_built_window(ctx: Ctx, base: Baseline) -> None:
    """Thread 0 builds alone up to the moment it publishes `_built = True`; exactly there thread 1 runs
    `build()` (fast path), looks at the built state and validates documents (substitution-group members
    included) to the end; then thread 0 resumes.  Whatever the build body does after publishing the flag
    is invisible to thread 1 -- which is precisely what `build_once` forbids (`_built` => complete maps)."""
    docs = [POOL_DOCS[-2], POOL_DOCS[-1], POOL_DOCS[1], POOL_DOCS[0]]
    fired = {'n': 0}
    sched = Sched(2, random.Random(7), {'first': 0})

    def on_built(t: int) -> None:
        if t == 0 and fired['n'] == 0:
            fired['n'] += 1
            sched.switch(0, forced=True, to=1)
    case = {'forced': 'B', 'variant': 'after-built-flag', 'docs': docs, 'threads': 2}
    jobs = [[('iter_errors', d) for d in docs], [('iter_errors', d) for d in docs] + [('decode', docs[0])]]
    Events.on_built = on_built
    try:
        batch: list = []
        experiment(ctx, batch, base, case, jobs, sched, True, lambda sc, t: (lambda frame, event, arg: None))
    finally:
        Events.on_built = None
    ctx.case(case, fired['n'] > 0, tag='forced:B/after-built-flag' + ('' if fired['n'] else ' (window not reached)'))


def forced_window(ctx: Ctx, base: Baseline, drv: Optional[Driver], window: str) -> None:
    """Thread 0 is paused inside the xsi:type widening; thread 1 validates the same document to the end;
    then thread 0 resumes.  window = 'F1' (after update_elements returned, i.e. before xsi_types.add;
    and at the call of update_elements) or 'F2' (between `self.elements[e] = …` and `e.selected_by.add`)."""
    from xmlschema.validators import identities as I
    code = I.XsdIdentity.update_elements.__code__
    import inspect
    src, first = inspect.getsourcelines(I.XsdIdentity.update_elements)
    add_lines = [first + i for i, l in enumerate(src) if 'selected_by.add(self)' in l]
    # which variant of the code is this?  (`selected_by.add` inside the `if e not in self.elements:` branch =
    # current tree = model mode `cur`; dedented = the C18-F2 patch = model mode `patched`)
    ind = lambda l: len(l) - len(l.lstrip())
    patched = all(ind(src[i]) < ind(src[i - 1]) for i, l in enumerate(src) if 'selected_by.add(self)' in l)
    ctx.extra['update_elements_variant'] = 'patched' if patched else 'cur'
    variants = ['call', 'return'] if window == 'F1' else ['line']
    for variant in variants:
        reached = {'n': 0}

        def factory(sched: Sched, t: int) -> Callable:
            def local(frame, event, arg):
                if reached['n'] == 0 and t == 0:
                    if (variant == 'line' and event == 'line' and frame.f_lineno in add_lines) or \
                            (variant == 'return' and event == 'return'):
                        reached['n'] += 1
                        sched.switch(0, to=1)
                return local

            def tracer(frame, event, arg):
                if event == 'call' and frame.f_code is code and t == 0 and reached['n'] == 0:
                    if variant == 'call':
                        reached['n'] += 1
                        sched.switch(0, to=1)
                        return None
                    return local
                return None
            return tracer
        sched = Sched(2, random.Random(1), {'first': 0})
        case = {'forced': window, 'variant': variant, 'doc': DUP, 'threads': 2}
        jobs = [[('iter_errors', DUP)], [('iter_errors', DUP)]]
        batch: list = []
        schema, results, _ = experiment(ctx, batch, base, case, jobs, sched, False, factory)
        ctx.case(case, reached['n'] > 0, tag=f'forced:{window}/{variant}' + ('' if reached['n'] else ' (window not reached)'))
        if window == 'F2' and drv is not None:
            # the model (statement granularity, current order) predicts: thread 1 does not collect
            m = drv.query([{'op': 'wexec', 'mode': 'patched' if patched else 'cur', 'threads': 2,
                            'sched': [0, 0, 0, 1, 1, 1, 1, 1]}])[0]
            ctx.traces += 1
            impl_missed = results[1] is not None and results[1][0] != base.result('iter_errors', DUP)
            if (m['pcs'][1] == 'fin:false') != impl_missed and reached['n']:
                ctx.mismatch('forced F2 schedule: model and code disagree on whether thread 1 collects the keys',
                             case, {'thread1_missed_error': impl_missed}, m)
        if window == 'F1' and drv is not None and variant == 'return':
            m = drv.query([{'op': 'wexec', 'mode': 'curCall', 'threads': 2, 'sched': [0, 0, 0, 1, 1, 1, 1, 1, 0, 0]}])[0]
            ctx.traces += 1
            if m['pcs'][1] != 'fin:true':
                ctx.mismatch('forced F1 schedule on the model', case, None, m)


def load_findings() -> list:
    if FINDINGS_FILE.exists():
        return json.loads(FINDINGS_FILE.read_text()).get('findings', [])
    return []


def known_match(case: Any, detail: Any) -> Optional[str]:
    """C18-F2: ONLY the forced statement-level window inside XsdIdentity.update_elements (thread 0 paused
    between `self.elements[e] = …` and `e.selected_by.add(self)`), ONLY thread 1 missing the duplicate
    `unique` value of the widened child.  Everything else is reported."""
    if not isinstance(case, dict) or case.get('forced') != 'F2' or case.get('variant') != 'line':
        return None
    if not any(f.get('id') == 'C18-F2' and f.get('status') == 'known' for f in load_findings()):
        return None
    if not isinstance(detail, dict) or detail.get('thread') != 1 or detail.get('op') != 'iter_errors':
        return None
    single, threaded = detail.get('single'), detail.get('threaded')
    try:
        missing = [e for e in single[1] if e not in threaded[1]]
        extra = [e for e in threaded[1] if e not in single[1]]
    except Exception:   # noqa
        return None
    if extra or len(missing) != 1 or 'duplicated value' not in missing[0][2]:
        return None
    return 'C18-F2'


# =============================================================================================
def generated_pool(ctx: Ctx, k: int) -> list[tuple[str, list[str]]]:
    """schemas + documents from the shared generator (files are not needed: no imports)"""
    from harness.lib_schemagen import Schema
    out = []
    for _ in range(k):
        rng = random.Random(ctx.rng.getrandbits(64))
        sc = Schema(rng, rng.choice([10, 16, 24]), with_imports=False)
        docs = []
        for r in rng.sample(sc.roots(), min(3, len(sc.roots()))):
            for m in (None, 'value', 'drop', 'extra'):
                docs.append(sc.instance(r, m))
        out.append((sc.document(), docs))
    return out


def run(ctx: Ctx, driver_ok: bool) -> None:
    import warnings
    warnings.simplefilter('ignore')
    drv = Driver('drv_c18') if driver_ok else None
    ctx.known.extend(f for f in load_findings() if f.get('property') == 'C18')
    old_interval = sys.getswitchinterval()
    batch: list = []
    try:
        base = Baseline(POOL_XSD)
        pools: list[tuple[Baseline, list[str]]] = [(base, POOL_DOCS)]
        for xsd, docs in generated_pool(ctx, ctx.pick(2, 8)):
            try:
                pools.append((Baseline(xsd), docs))
            except Exception:   # noqa
                ctx.count('generated schema rejected')
        # 0. forced windows
        forced_window(ctx, base, drv, 'F1')
        forced_window(ctx, base, drv, 'F2')
        forced_built_window(ctx, base)
        # 1. controlled schedules
        n_sched = ctx.pick(500, 5000)
        for i in range(n_sched):
            b, docs = pools[0] if i % 3 != 2 else ctx.rng.choice(pools)
            n = ctx.rng.choice([2, 2, 3, 4])
            seed = ctx.rng.getrandbits(48)
            rng = random.Random(seed)
            build_first = ctx.rng.random() < 0.7
            jobs = random_jobs(rng, n, docs, ctx.rng.choice([1, 2, 3]))
            style = ctx.rng.choice(['pct', 'pct', 'coin', 'dense-build'])
            if style == 'pct':
                plan = {'at': sorted(rng.sample(range(1, 1500 * n), rng.randint(1, 6)))}
            elif style == 'coin':
                plan = {'p': rng.choice([0.002, 0.01, 0.05])}
            else:
                plan = {'at': sorted(rng.sample(range(1, 60), rng.randint(2, 8))), 'p': 0.001}
            sched = Sched(n, random.Random(seed + 1), plan)
            case = {'controlled': i, 'seed': seed, 'threads': n, 'build_first': build_first, 'style': style, 'plan': plan,
                    'schema': 'pool' if b is base else 'generated', 'jobs': [[(o, docs.index(x)) for o, x in j] for j in jobs]}
            full = dict(case, xsd=b.xsd, docs=docs)
            _, _, nontrivial = experiment(ctx, batch, b, full, jobs, sched, build_first)
            ctx.case(case, nontrivial, tag=f'controlled/{style}/{n} threads')
            if len(batch) > 200:
                flush(ctx, batch, drv)
            if ctx.time_left() < 240:
                ctx.notes.append(f'controlled schedules stopped at {i + 1} (time budget)')
                break
        flush(ctx, batch, drv)
        # 2. free-running stress
        sys.setswitchinterval(1e-6)
        for i in range(ctx.pick(250, 2500)):
            b, docs = pools[0] if i % 2 == 0 else ctx.rng.choice(pools)
            n = ctx.rng.choice([2, 3, 4])
            rng = random.Random(ctx.rng.getrandbits(64))
            jobs = random_jobs(rng, n, docs, ctx.rng.choice([3, 6]))
            case = {'stress': i, 'threads': n, 'schema': 'pool' if b is base else 'generated',
                    'jobs': [[(o, docs.index(x)) for o, x in j] for j in jobs]}
            full = dict(case, xsd=b.xsd, docs=docs)
            _, _, nontrivial = experiment(ctx, batch, b, full, jobs, None, True)
            ctx.case(case, nontrivial, tag=f'stress/{n} threads')
            if ctx.time_left() < 120:
                break
        flush(ctx, batch, drv)
    finally:
        sys.setswitchinterval(old_interval)
        Events.target = None
    ctx.extra['explanation'] = ('controlled schedules at library-call granularity (PCT-style switch points, coin '
                                'flips, dense switching during the build race), forced F1/F2 windows, free-running '
                                'stress with switch interval 1e-6 s; build-lock event logs replayed on the Lean model')


def search(ctx: Ctx) -> None:
    """widen: more controlled schedules without the driver"""
    saved = ctx.tier
    ctx.tier = 'thorough'
    try:
        base = Baseline(POOL_XSD)
        batch: list = []
        for i in range(300):
            n = ctx.rng.choice([2, 3, 4])
            rng = random.Random(ctx.rng.getrandbits(64))
            jobs = random_jobs(rng, n, POOL_DOCS, 2)
            plan = {'at': sorted(rng.sample(range(1, 1500 * n), rng.randint(1, 8)))}
            case = {'controlled-search': i, 'threads': n, 'plan': plan, 'xsd': POOL_XSD, 'docs': POOL_DOCS,
                    'jobs': [[(o, POOL_DOCS.index(x)) for o, x in j] for j in jobs], 'build_first': True}
            experiment(ctx, batch, base, case, jobs, Sched(n, rng, plan), True)
            batch.clear()
            if ctx.failures or ctx.time_left() < 60:
                break
    finally:
        ctx.tier = saved


def replay(ctx: Ctx, obj: dict) -> int:
    print(json.dumps({k: v for k, v in obj.items() if k != 'input'}, indent=1)[:3000])
    case = obj.get('input') or {}
    if not isinstance(case, dict):
        return 0
    if case.get('forced'):
        base = Baseline(POOL_XSD)
        if case['forced'] == 'B':
            forced_built_window(ctx, base)
        else:
            forced_window(ctx, base, None, case['forced'])
    elif 'xsd' in case and 'jobs' in case:
        base = Baseline(case['xsd'])
        docs = case['docs']
        jobs = [[(o, docs[i]) for o, i in j] for j in case['jobs']]
        n = len(jobs)
        batch: list = []
        for rep in range(1 if 'plan' in case else 20):
            sched = Sched(n, random.Random(case.get('seed', rep) + 1), case['plan']) if 'plan' in case else None
            if sched is None:
                sys.setswitchinterval(1e-6)
            experiment(ctx, batch, base, case, jobs, sched, case.get('build_first', True))
            if ctx.failures:
                break
        print('note: a schedule found by the seeded scheduler is re-explored with fresh seeds; the race is '
              'timing dependent in stress mode')
    for f in ctx.failures[:3]:
        print('FAILS ON THE REAL CODE:', f['what'], json.dumps(f['detail'])[:1500])
    print('known findings hit:', ctx.known_hits)
    return 1 if ctx.failures else 0
