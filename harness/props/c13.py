"""
C13 — defused parsing refuses every entity declaration before any expansion.

What is run
-----------
(1) defuse mode x locality (base URL absent / local / remote) x input channel (text, bytes, StringIO, BytesIO,
    path, file URL, binary / text file objects, non-seekable raw / buffered / BufferedReader / text streams,
    http URL through a stub opener delivering a seekable or a non-seekable response, with and without an
    explicit `opener`) x payload catalogue x role (instance, main schema, included schema) on the REAL code.
    The catalogue is a list of syntax trees of the prolog grammar of lean/XsVerif/Model/Prolog.lean; the bytes
    of every payload are printed by the Lean `Prolog.render` (driver op `prolog`), its labels (`mustRefuse`,
    handler expected by `firstHandler`, `regular`) are computed by the Lean functions the theorems are about.
(2) the grammar family: exhaustive small scope (standalone x external identifier x every sequence of at most
    2 (quick) / 3 (thorough) items of a 12-item alphabet of declarations) + seeded random prologs; for each the
    first handler reached by the real SafeExpatParser is compared with the model, and the property is evaluated
    through XMLResource on a rotating channel.
(2b) file-like sources in every INITIAL STATE: seekable / non-seekable x binary / text streams (real files,
    io.BufferedReader, raw stream, and recording streams that log every read with its absolute position and the
    phase -- before / during / after the scan) at position 0, at a position k (inside the first markup, the XML
    declaration, the DOCTYPE, after it, inside the root start tag, at the end), or used before by another library
    call that does not defuse them (fetch_namespaces, fetch_schema_locations, XMLResource(defuse='never') eager /
    lazy, iter_errors) x payload x role (XMLResource, XMLSchema, schema.decode) x mode.  For a seekable source the
    initial state must be irrelevant; for every source the parser must start where the scan started.  Model:
    Model/OpenFlow.lean (driver op `open_flow`: where the scan starts, where the parser starts, refusal).
(2c) file-like sources that DECLARE a URL (`url` attribute): addinfourl (seekable / not), io.BufferedIOBase / RawIOBase /
    BufferedReader / TextIOBase objects carrying .url, plain duck-typed objects; with and without a custom opener; the
    content reachable at the declared URL (stub opener, file URL, or nothing) DIFFERS from the content of the stream
    in both directions.  The document is the content of the stream; the declared URL is never fetched by open().
    Model: OpenFlow.Given / scanInput (driver op `given`).
(2d) schema documents fetched through an xsi:schemaLocation HINT OF AN INSTANCE (iter_errors(use_location_hints=True)): hint on
    the root / a child / a grandchild x namespace (new, the schema's own, every namespace of the meta-schema registry) x
    XMLSchema10 / XMLSchema11 x defuse mode x file / http target x payload (internal, external, parameter entity, external
    subset, clean control).  When defusing applies the hinted document is never opened or refused with XMLResourceForbidden;
    never parsed / loaded (build trace of the hinted URL, schemas and global names of the schema's and the meta-schema's
    registries, secret / ext.dtd / resolver / socket traps).  The family stops at its first failing input (a wrongly loaded
    document may sit in the shared meta-schema registry).
(3) schema builds: seeded random trees of schema documents (include / import, local files and stub URLs,
    payloads from the grammar); the real sequence of open / scan / parse / failure events of every resource is
    recorded and compared with the model's `build`.
(4) seeded read/seek/tell scripts on the real DefusableReader (and DefusableTextReader when the tree has it), op for
    op and final state, plus scan / rewind / parse sequences (`Reader.readMany`); on the real class every read is
    also compared with a plain byte string (the exactness of the rewind, independent of Lean).
(5) the named counter-example witnesses of Props/C13.lean are rendered by the driver and replayed.
(6) the event model: for every prolog of the grammar family the complete sequence of entity declarations / external
    subset requests reported by a RECORDING expat parser (handlers that return instead of raising: the external-entity
    resolver trap) == `prologEvents`, and the fate of every entity reference of the content when the library parses
    the document with defuse='never' (expanded / undefined entity / binary entity) == `refEvent`.
The tree under check may carry the repairs of C13-F2 / C13-F3 (notes/fixes): `detect_variant` probes the real classes
and every model request carries the detected variant; nothing is assumed about which tree is checked.
Traps on every run with defusing: the SAX entity-resolution machinery (ExpatParser.external_entity_ref,
EntityResolver.resolveEntity, prepare_input_source of a system id), every urllib.Request other than for the resource
itself, every socket.connect / getaddrinfo -- any of them firing is a failure.

Property evaluation on the real code (independent of Lean): when defusing applies and the payload declares
an entity / external subset -> XMLResourceForbidden, no expanded text, no fetch of the external identifier;
clean documents -> the same tree as with defuse='never'; in a build no resource to which defusing applies is
parsed without having been scanned immediately before, and a refused include aborts the build.

Correspondence with the Lean model (drv_c13):
  doc      observed way of defusing + outcome + (scan end, buffer length) of the recorded seek(0)
           == model plan / outcomeDoc / scanEndOf / bufLenOf
  prolog   first handler of the real scan == firstHandler == classify(render);  Prolog.render == plain printer
  build    recorded event sequence and final status == model build
  reader   scripts on the real DefusableReader == model Reader.run (op for op)
"""
from __future__ import annotations

import io
import json
import os
import re
import shutil
import sys
import tempfile
import urllib.request
import urllib.response
import warnings
from email.message import Message
from typing import Any, Optional
from urllib.error import URLError
from urllib.parse import urlsplit
from xml.etree import ElementTree as ET

from harness.core import Ctx, Driver, LEAN
from harness import lib_prolog as G

PROPS = 'XsVerif.Props.C13'
AUDIT = 'XsVerif.Audit.C13'
LEAN_TARGETS = ['XsVerif.Props.C13', 'drv_c13']
LEANCHECK = ['XsVerif.Model.Defuse', 'XsVerif.Model.Prolog', 'XsVerif.Model.OpenFlow', 'XsVerif.Lemmas.Defuse', 'XsVerif.Lemmas.Prolog',
             'XsVerif.Props.C13']
RULE = ('one case = (defuse mode, base-URL locality, input channel, payload, role) on the real library, the payload '
        'catalogue (syntax trees printed by the Lean grammar) crossed exhaustively with modes, localities, channels and '
        'roles in the thorough tier and with a rotating locality in the quick tier; or one prolog of the grammar family '
        '(exhaustive small scope + seeded random) scanned by the real SafeExpatParser and parsed through XMLResource on a '
        'rotating channel; or one seeded schema build (tree of includes/imports) with its recorded event trace; or one '
        'seeded read/seek/tell script on the real DefusableReader; non-trivial = defusing applied (a branch of open() '
        'other than "not defused" was taken), the prolog has a DOCTYPE, the build loaded at least one sub-resource, the '
        'script crossed the buffer edge or sought, the scan of a scan/rewind/parse sequence went beyond the buffer, the '
        'parsers reported an event or a reference was not "undefined" (event model), the file-like source was not at '
        'position 0 when the library opened it (initial-state family), the hinted schema document was opened (instance-hint '
        'family); distinct by canonical JSON')
TRUSTED = ['expat calls EntityDeclHandler / UnparsedEntityDeclHandler / ExternalEntityRefHandler before it expands or '
           'fetches anything: observed on every payload (no expanded text, no fetch; resolver and opener traps silent), '
           'not proved',
           'the event model (prologEvents / refEvent: which declarations expat processes, first declaration binds, '
           'what a reference does) is compared with a recording expat parser and with the library parse on every '
           'generated prolog, not proved against expat; requests for external PARAMETER entities and declarations '
           'nested in the replacement text of a parameter entity are outside the model (filtered / skipped, counted)',
           'the scanner `classify` is a model of the prolog tokenizer of expat for the grammar of Model/Prolog.lean only; '
           'it is compared with the real parser on every generated prolog (first handler reached), not proved against expat',
           'UTF-16 / ISO-8859-1 payloads are transcoded from the Lean rendering by the harness',
           'xml.dom.pulldom block size (16364) and DefusableReader buffer (65536) are constants of the model; the predicted '
           'scan end is compared with the recorded one on every wrapped stream']
ASSUMPTIONS = ['underlying non-seekable buffered streams deliver exactly the requested number of bytes unless they end '
               '(io.BufferedIOBase.read contract)',
               'expat reports the first start tag as soon as its closing ">" has been fed (no reparse deferral: expat < 2.6)']

XS = 'http://www.w3.org/2001/XMLSchema'
HOST = 'http://stub.test'
MODES = ['never', 'remote', 'nonlocal', 'always']
MARK = 'EXPANDEDPAYLOAD'
KNOWN_FILE = os.path.join(os.path.dirname(os.path.dirname(os.path.dirname(os.path.abspath(__file__)))),
                          'notes', 'findings', 'C13.json')


# ----------------------------------------------------------------------------------------------
# streams and observation
# ----------------------------------------------------------------------------------------------
class NSRaw(io.RawIOBase):
    def __init__(self, data: bytes):
        self._b = io.BytesIO(data)

    def readable(self):
        return True

    def seekable(self):
        return False

    def readinto(self, buf):
        d = self._b.read(len(buf))
        buf[:len(d)] = d
        return len(d)


class NSBuf(io.BufferedIOBase):
    """a non-seekable buffered stream (what http.client.HTTPResponse is)"""

    def __init__(self, data: bytes, url: Optional[str] = None):
        self._b = io.BytesIO(data)
        if url is not None:
            self.url = url
            self.headers = Message()
            self.code = self.status = 200
            self.msg = 'OK'

    def readable(self):
        return True

    def seekable(self):
        return False

    def read(self, n=-1):
        return self._b.read(-1 if n is None else n)

    def read1(self, n=-1):
        return self.read(n)

    def tell(self):
        return self._b.tell()

    def seek(self, *a):
        raise io.UnsupportedOperation('seek')

    def info(self):
        return self.headers

    def geturl(self):
        return self.url


class Obs:
    installed = False
    active = False
    root = ''
    opens: list = []
    served: list = []
    defuse_calls: list = []
    seeks: list = []
    table: dict = {}
    seekable_response = True
    trace: list = []            # build trace: ('opened'|'scanned'|'parsed'|'failed', resource url, ...)
    stack: list = []            # resources whose open() is running
    resolver: list = []         # external-entity resolver trap: calls of the SAX entity-resolution machinery
    requests: list = []         # opener trap: every urllib.Request created (audit event)
    net: list = []              # opener trap: every socket.connect / socket.getaddrinfo (audit event)
    phase: str = 'pre'          # 'pre' (before any scan) / 'scan' (inside defuse_xml) / 'parse' (after it)


def _hook(event: str, args: tuple) -> None:
    if not Obs.active:
        return
    if event == 'open':
        p = args[0]
        if isinstance(p, bytes):
            p = os.fsdecode(p)
        if isinstance(p, str) and Obs.root and os.path.abspath(p).startswith(Obs.root):
            Obs.opens.append(os.path.abspath(p))
    elif event == 'urllib.Request':
        Obs.requests.append(str(args[0]))
    elif event in ('socket.connect', 'socket.getaddrinfo'):
        Obs.net.append((event, str(args[1:2])[:60]))


class StubHandler(urllib.request.BaseHandler):
    handler_order = 100

    def _serve(self, req):      # noqa
        url = req.full_url
        Obs.served.append(url)
        body = Obs.table.get(urlsplit(url).path)
        if body is None:
            raise URLError('stub: no such resource')
        if Obs.seekable_response:
            resp = urllib.response.addinfourl(io.BytesIO(body), Message(), url, 200)
            resp.msg = 'OK'
            return resp
        return NSBuf(body, url)

    http_open = https_open = _serve


STUB_OPENER = None


def io_kind(fp: Any) -> str:
    return ('raw' if isinstance(fp, io.RawIOBase) else 'buffered' if isinstance(fp, io.BufferedIOBase)
            else 'text' if isinstance(fp, io.TextIOBase) else 'other')


class NSText(io.TextIOBase):
    """a non-seekable text stream outside TextIOWrapper (what a decoding pipe reader is)"""

    def __init__(self, text: str):
        self._s = io.StringIO(text)

    def readable(self):
        return True

    def seekable(self):
        return False

    def read(self, n=-1):
        return self._s.read(-1 if n is None else n)

    def seek(self, *a):
        raise io.UnsupportedOperation('seek')


VARIANT: Optional[dict] = None


def text_reader_class() -> Any:
    import xmlschema.utils.streams as st
    return getattr(st, 'DefusableTextReader', None)


def detect_variant() -> dict:
    """Which of the repairs of C13-F2 / C13-F3 the tree under check carries -- by BEHAVIOUR of the real classes:
    grow_buf:  a DefusableReader that read two pulldom blocks beyond an 8 KiB buffer rewinds and re-delivers the
               original bytes;  wrap_text: defuse_xml accepts a non-seekable io.TextIOBase and XMLResource.open()
               takes that branch;  grow_text: the same probe as grow_buf on the reader defuse_xml wrapped it in.
    A rewind that succeeds but delivers other bytes is NOT the repair (seeded change C13-3): reported as 'current',
    so that the model keeps predicting the refusal and the run shows the difference."""
    global VARIANT
    if VARIANT is not None:
        return VARIANT
    from xmlschema.utils.streams import DefusableReader
    from xmlschema.resources.sax import defuse_xml
    from xmlschema import XMLResource
    v = {'grow_buf': False, 'wrap_text': False, 'grow_text': False}
    data = synth(40000)
    try:
        rd = DefusableReader(NSBuf(data), 8192)
        rd.read(16364), rd.read(16364)
        v['grow_buf'] = rd.seek(0) == 0 and rd.read() == data
    except OSError:
        pass
    try:
        w = defuse_xml(NSText('<r/>'))
        XMLResource(NSText('<r/>'), defuse='always')
        v['wrap_text'] = isinstance(w, io.TextIOBase) and w.read() == '<r/>'
    except Exception:       # noqa
        pass
    cls = text_reader_class()
    if v['wrap_text'] and cls is not None:
        text = data.decode('latin-1')
        try:
            rd = cls(NSText(text), 8192)
            rd.read(16364), rd.read(16364)
            v['grow_text'] = rd.seek(0) == 0 and rd.read() == text
        except OSError:
            pass
    VARIANT = v
    return v


def install_observers() -> None:
    global STUB_OPENER
    if Obs.installed:
        return
    Obs.installed = True
    sys.addaudithook(_hook)
    STUB_OPENER = urllib.request.build_opener(StubHandler())
    urllib.request.install_opener(STUB_OPENER)
    import xmlschema.resources.xml_resource as xr
    from xmlschema.utils.streams import DefusableReader
    orig = xr.defuse_xml

    def defuse_xml(fp, rewind=True):        # noqa
        rec = {'rewind': rewind, 'seekable': bool(fp.seekable()), 'io': io_kind(fp), 'result': 'ok'}
        if Obs.active:
            Obs.defuse_calls.append(rec)
            Obs.trace.append(('scanned', Obs.stack[-1] if Obs.stack else '?', rec))
        before = Obs.phase
        Obs.phase = 'scan'
        try:
            res = orig(fp, rewind)
            if res is not fp and hasattr(res, 'tell'):
                rec['wrapper_at'] = res.tell()      # position of the replay reader handed to the parser
            return res
        except BaseException as e:
            rec['result'] = type(e).__name__
            raise
        finally:
            Obs.phase = 'parse' if before in ('pre', 'parse') else before

    xr.defuse_xml = defuse_xml
    orig_seek = DefusableReader.seek

    def seek(self, pos, whence=0):          # noqa
        rec = {'pos_before': self._pos, 'target': pos, 'buf': self._buffer_size, 'ok': True}
        if Obs.active:
            Obs.seeks.append(rec)
        try:
            return orig_seek(self, pos, whence)
        except BaseException:
            rec['ok'] = False
            raise

    DefusableReader.seek = seek
    tcls = text_reader_class()
    if tcls is not None:
        orig_tseek = tcls.seek

        def tseek(self, pos, whence=0):         # noqa
            rec = {'pos_before': self._pos, 'target': pos, 'buf': len(self._buffer), 'ok': True, 'text': True}
            if Obs.active:
                Obs.seeks.append(rec)
            try:
                return orig_tseek(self, pos, whence)
            except BaseException:
                rec['ok'] = False
                raise

        tcls.seek = tseek
    # the external-entity resolver trap: the SAX machinery that would resolve and open an external entity
    from xml.sax import expatreader as _er, handler as _h, saxutils as _su
    orig_eer = _er.ExpatParser.external_entity_ref
    orig_res = _h.EntityResolver.resolveEntity
    orig_pis = _su.prepare_input_source

    def external_entity_ref(self, context, base, sysid, pubid):     # noqa
        if Obs.active:
            Obs.resolver.append(('external_entity_ref', str(sysid)[:80]))
        return orig_eer(self, context, base, sysid, pubid)

    def resolveEntity(self, publicId, systemId):                    # noqa
        if Obs.active:
            Obs.resolver.append(('resolveEntity', str(systemId)[:80]))
        return orig_res(self, publicId, systemId)

    def prepare_input_source(source, base=''):                      # noqa
        if Obs.active and not hasattr(source, 'read') and not (hasattr(source, 'getByteStream') and (
                source.getByteStream() is not None or source.getCharacterStream() is not None)):
            Obs.resolver.append(('prepare_input_source', str(getattr(source, 'getSystemId', lambda: source)())[:80]))
        return orig_pis(source, base)

    _er.ExpatParser.external_entity_ref = external_entity_ref
    _h.EntityResolver.resolveEntity = resolveEntity
    _su.prepare_input_source = prepare_input_source
    _er.saxutils.prepare_input_source = prepare_input_source

    from xmlschema.resources.xml_loader import XMLResourceLoader
    orig_open = xr.XMLResource.open

    def open_(self, *a, **k):               # noqa
        if not Obs.active:
            return orig_open(self, *a, **k)
        Obs.trace.append(('opened', self.url))
        Obs.stack.append(self.url)
        try:
            return orig_open(self, *a, **k)
        except BaseException as e:
            Obs.trace.append(('failed', self.url, type(e).__name__))
            raise
        finally:
            Obs.stack.pop()

    xr.XMLResource.open = open_
    orig_parse = XMLResourceLoader._parse

    def _parse(self, fp, *a, **k):          # noqa
        if Obs.active:
            Obs.trace.append(('parsed', getattr(self, 'url', None)))
        return orig_parse(self, fp, *a, **k)

    XMLResourceLoader._parse = _parse


# ----------------------------------------------------------------------------------------------
# payload catalogue
# ----------------------------------------------------------------------------------------------
def payloads(R: str, big: int) -> list[dict]:
    """The catalogue: syntax trees of the prolog grammar (harness/lib_prolog.py, Model/Prolog.lean).
    Each payload: name, ast (with the placeholder {root} for the name of the root element), xmldecl?,
    standalone?, use (text placed in the document that references an entity).  No label is written here:
    the labels are computed from the tree (G.must_refuse = direct reading of the property; handler / regular by
    the Lean functions through the driver)."""
    secret = 'file://' + R + '/secret.txt'
    ext = HOST + '/ext.dtd'
    L, D, PR = G.lit, G.doctype, G.prolog
    ent = ['entity', False, 'e', ['value', L(MARK)]]
    it = G.items(MARK, secret, ext)
    filler = [['element', f'f{i}', '(#PCDATA)'] for i in range(big // 24 + 1)]
    sysx, sysf = ['system', L(ext)], ['system', L(secret)]
    P = [
        # ---- no entity declaration, no external identifier ---------------------------------------
        dict(name='plain', ast=PR()),
        dict(name='xmldecl', ast=PR(), xmldecl=True),
        dict(name='comments-pis', ast=PR(misc1=[['comment', ' c '], ['pi', 'pi', 'data'], ['space', '\n']]), xmldecl=True),
        dict(name='doctype-bare', ast=PR(doctype=D())),
        dict(name='doctype-decls', ast=PR(doctype=D(subset=[['element', 'x', '(#PCDATA)'],
                                                             ['attlist', 'x', [['a', 'CDATA', ['lit', L('d')]]]],
                                                             ['comment', ' c '], ['pi', 'p', 'q']]))),
        dict(name='notation-only', ast=PR(doctype=D(subset=[['notation', 'n', ['system', L('n')]]]))),
        dict(name='entity-word-in-comment', ast=PR(misc1=[['comment', ' <!ENTITY e "x"> ']])),
        dict(name='tricky-literals-clean', ast=PR(doctype=D(subset=[it['A'], it['N'], it['C'], it['I'], it['S']]))),
        dict(name='standalone-clean', ast=PR(doctype=D(subset=[it['L']])), standalone=True),
        dict(name='big-comment-clean', ast=PR(misc1=[['comment', 'x' * big]]), xmldecl=True),
        dict(name='big-doctype-clean', ast=PR(doctype=D(subset=filler))),
        dict(name='big-pi-clean', ast=PR(misc1=[['pi', 'p', 'y' * (big // 2)]])),
        # ---- entity declarations / external identifiers --------------------------------------------
        dict(name='internal', ast=PR(doctype=D(subset=[ent])), use='&e;'),
        dict(name='internal-unused', ast=PR(doctype=D(subset=[ent]))),
        dict(name='internal-after-decls', ast=PR(doctype=D(subset=[['element', 'x', 'ANY'], ['comment', ' c '], ent])), use='&e;'),
        dict(name='internal-after-tricky', ast=PR(doctype=D(subset=[it['A'], it['N'], it['C'], it['I'], ent])), use='&e;'),
        dict(name='nested', ast=PR(doctype=D(subset=[['entity', False, 'a', ['value', L(MARK)]],
                                                      ['entity', False, 'e', ['value', L('&a;&a;&a;')]]])), use='&e;'),
        dict(name='external-file', ast=PR(doctype=D(subset=[['entity', False, 'e', ['ext', sysf]]])), use='&e;'),
        dict(name='external-http', ast=PR(doctype=D(subset=[['entity', False, 'e', ['ext', sysx]]])), use='&e;'),
        dict(name='external-public', ast=PR(doctype=D(subset=[['entity', False, 'e', ['ext', ['public', L('-//X//Y'), L(secret)]]]]))),
        dict(name='parameter', ast=PR(doctype=D(subset=[['entity', True, 'p', ['value', L('<!ELEMENT x ANY>')]], ['peref', 'p']]))),
        dict(name='parameter-external', ast=PR(doctype=D(subset=[['entity', True, 'p', ['ext', sysx]], ['peref', 'p']]))),
        dict(name='unparsed', ast=PR(doctype=D(subset=[['notation', 'n', ['system', L('n')]],
                                                        ['entity', False, 'u', ['ndata', ['system', L('u.gif')], 'n']]]))),
        dict(name='extdtd-system', ast=PR(doctype=D(ext=sysx))),
        dict(name='extdtd-file', ast=PR(doctype=D(ext=sysf))),
        dict(name='extdtd-public', ast=PR(doctype=D(ext=['public', L('-//X//Y'), L('x.dtd')]))),
        dict(name='extdtd-and-subset', ast=PR(doctype=D(ext=sysx, subset=[['element', 'x', 'ANY']]))),
        dict(name='xmldecl-internal', ast=PR(misc1=[['comment', ' c '], ['space', '\n']], doctype=D(subset=[ent])), xmldecl=True, use='&e;'),
        dict(name='standalone-internal', ast=PR(doctype=D(subset=[ent])), standalone=True, use='&e;'),
        dict(name='standalone-extdtd-entity', ast=PR(doctype=D(ext=sysx, subset=[ent])), standalone=True, use='&e;'),
        dict(name='big-comment-entity', ast=PR(misc1=[['comment', 'x' * big]], doctype=D(subset=[ent])), xmldecl=True, use='&e;'),
        dict(name='big-doctype-entity', ast=PR(doctype=D(subset=filler + [ent])), use='&e;'),
        dict(name='attr-default-entity', ast=PR(doctype=D(subset=[ent, ['attlist', '{root}', [['a', 'CDATA', ['lit', L('&e;')]]]]]))),
        # ---- the two kinds of prologs on which the handlers and the direct reading differ (C13-F4, C13-F5) --
        dict(name='standalone-extdtd', ast=PR(doctype=D(ext=sysx)), standalone=True),
        dict(name='peref-then-entity', ast=PR(doctype=D(subset=[['peref', 'p'], ent]))),
    ]
    for p in P:
        p.setdefault('xmldecl', False)
        p.setdefault('standalone', None)
        p.setdefault('use', '')
        p['refuse'] = G.must_refuse(p['ast'])
    return P


ENCODINGS = ['utf-8', 'utf-8-bom', 'utf-16', 'iso-8859-1']
DECL_ENC = {'utf-8': None, 'utf-8-bom': None, 'utf-16': 'UTF-16', 'iso-8859-1': 'ISO-8859-1'}
PY_CODEC = {'utf-8': 'utf-8', 'utf-8-bom': 'utf-8', 'utf-16': 'utf-16', 'iso-8859-1': 'iso-8859-1'}


def payload_ast(p: dict, role: str, encoding: str) -> dict:
    """the syntax tree of the prolog of payload `p` for a role and an encoding"""
    ast = G.with_root(p['ast'], 'r' if role == 'instance' else 'xs:schema')
    decl_enc = DECL_ENC[encoding]
    if p['xmldecl'] or decl_enc or p['standalone'] is not None:
        ast['xmldecl'] = {'encoding': decl_enc, 'standalone': p['standalone']}
    return ast


def body_of(p: dict, role: str) -> str:
    if role == 'instance':
        return f'<r>t{p["use"]}</r>'
    use = p['use']
    return (f'<xs:schema xmlns:xs="{XS}"><xs:element name="m{"_" if use else ""}{use}" type="xs:string"/>'
            f'</xs:schema>')


class Mat:
    """a materialised payload: bytes printed by the Lean grammar (or by the plain printer when Lean is
    unavailable), labels computed by the Lean functions"""
    __slots__ = ('ast', 'text', 'data', 'total', 'tag_end', 'ctotal', 'ctag_end', 'handler', 'regular', 'refuse',
                 'irregular', 'wf', 'body')


def materialise(ctx: Ctx, drv: Optional[Driver], asts: list[dict], bodies: list[str], encodings: list[str],
                what: str) -> list[Mat]:
    """Print the prologs (driver op `prolog`), append the bodies, encode."""
    res = [None] * len(asts)
    if drv is not None:
        res = drv.query([{'op': 'prolog', 'ast': a, 'root': '<r>'} for a in asts])
    out = []
    for ast, body, enc, m in zip(asts, bodies, encodings, res):
        x = Mat()
        x.ast = ast
        plain = G.py_render(ast)
        x.refuse = G.must_refuse(ast)
        x.irregular = G.irregular_kind(ast)
        x.handler, x.regular, x.wf = None, None, None
        pro = plain
        if m is not None:
            if 'err' in m:
                ctx.mismatch('driver error (' + what + ')', {'ast': ast}, None, m)
            else:
                pro = bytes.fromhex(m['hex'])
                x.handler, x.regular, x.wf = m['handler'], m['regular'], m['wf']
                ctx.traces += 1
                if pro != plain:
                    ctx.mismatch('Prolog.render vs the plain printer of the harness', {'ast': ast}, plain.hex()[:400], m['hex'][:400])
                if m['must_refuse'] != x.refuse:
                    ctx.mismatch('mustRefuse vs the direct reading of the property on the tree', {'ast': ast}, x.refuse, m['must_refuse'])
                if not m['wf']:
                    ctx.mismatch('a generated prolog is outside the grammar (Prolog.wf = false)', {'ast': ast}, None, m)
                if m['classify'] != m['handler']:
                    ctx.mismatch('classify (render p ++ root) vs firstHandler p (instance of classify_render)', {'ast': ast},
                                 m['classify'], m['handler'])
        bom = pro.startswith(b'\xef\xbb\xbf')
        ptext = (pro[3:] if bom else pro).decode('utf-8')
        x.text = ptext + body
        codec = PY_CODEC[enc]
        idx = len(ptext) + body.index('>') + 1
        x.data = (b'\xef\xbb\xbf' if bom else b'') + x.text.encode(codec)
        x.tag_end = (3 if bom else 0) + len(x.text[:idx].encode(codec))
        x.total = len(x.data)
        x.ctotal, x.ctag_end = len(x.text), idx       # the same two numbers in characters (text streams)
        x.body = body
        out.append(x)
    return out


def handler_refuses(x: Mat) -> bool:
    """whether the scan reaches a handler: the Lean verdict when available, else the direct reading minus the two
    known deviations"""
    if x.handler is not None:
        return x.handler['v'] != 'clean'
    return x.refuse and x.irregular is None


# channel: (name, needs bytes?, static facts)
CHANNELS = ['text', 'bytes', 'StringIO', 'BytesIO', 'path', 'file-url', 'fileb', 'filet', 'nsraw', 'nsbuf',
            'nsbufreader', 'nstext', 'nstextio', 'url-seekable', 'url-nonseekable', 'url-seekable-opener', 'url-nonseekable-opener']
STATIC = {      # (seekable, io kind, has url) of the stream `open()` looks at
    'text': (True, 'text', False), 'bytes': (True, 'buffered', False), 'StringIO': (True, 'text', False),
    'BytesIO': (True, 'buffered', False), 'path': (True, 'buffered', True), 'file-url': (True, 'buffered', True),
    'fileb': (True, 'buffered', False), 'filet': (True, 'text', False), 'nsraw': (False, 'raw', False),
    'nsbuf': (False, 'buffered', False), 'nsbufreader': (False, 'buffered', False), 'nstext': (False, 'text', False),
    'nstextio': (False, 'text', False),
    'url-seekable': (True, 'other', True), 'url-nonseekable': (False, 'buffered', True),
    'url-seekable-opener': (True, 'other', True), 'url-nonseekable-opener': (False, 'buffered', True),
}


STR_CHANNELS = ('text', 'StringIO', 'filet', 'nstext', 'nstextio')     # the parser is fed str: units are characters


def units(x: 'Mat', ch: str) -> tuple[int, int]:
    """(length of the document, end of its first start tag) in the units the stream of channel `ch` delivers"""
    if ch not in STR_CHANNELS:
        return x.total, x.tag_end
    # streams that decode the bytes of the document deliver its byte order mark as one more character
    bom = 1 if ch in ('nstext', 'filet') and x.data.startswith(b'\xef\xbb\xbf') else 0
    return x.ctotal + bom, x.ctag_end + bom


def make_source(ch: str, text: str, data: bytes, path: str, urlpath: str) -> tuple[Any, dict, Any]:
    """returns (source, extra kwargs, closer)"""
    if ch == 'text':
        return text, {}, None
    if ch == 'bytes':
        return data, {}, None
    if ch == 'StringIO':
        return io.StringIO(text), {}, None
    if ch == 'BytesIO':
        return io.BytesIO(data), {}, None
    if ch == 'path':
        return path, {}, None
    if ch == 'file-url':
        return 'file://' + path, {}, None
    if ch == 'fileb':
        f = open(path, 'rb')
        return f, {}, f
    if ch == 'filet':
        f = open(path, 'r', encoding='utf-8')
        return f, {}, f
    if ch == 'nsraw':
        return NSRaw(data), {}, None
    if ch == 'nsbuf':
        return NSBuf(data), {}, None
    if ch == 'nsbufreader':
        return io.BufferedReader(NSRaw(data)), {}, None
    if ch == 'nstext':
        # newline='': no newline translation, the stream delivers one character per character of the document
        return io.TextIOWrapper(io.BufferedReader(NSRaw(data)), encoding='utf-8', newline=''), {}, None
    if ch == 'nstextio':
        return NSText(text), {}, None
    if ch.startswith('url-'):
        kw = {'opener': STUB_OPENER} if ch.endswith('-opener') else {}
        return HOST + urlpath, kw, None
    raise ValueError(ch)


def applies(mode: str, base: Optional[str]) -> bool:
    """direct reading of the property: always; non-local data under 'nonlocal'; remote data under 'remote'"""
    from xmlschema.utils.urls import is_local_url, is_remote_url
    if mode == 'always':
        return True
    if mode == 'nonlocal':
        return not (base is not None and is_local_url(base))
    if mode == 'remote':
        return base is not None and is_remote_url(base)
    return False


def base_class(base: Optional[str]) -> str:
    from xmlschema.utils.urls import is_local_url, is_remote_url
    if base is None:
        return 'absent'
    return 'local' if is_local_url(base) else 'remote' if is_remote_url(base) else 'neither'


def canon_tree(root: Any) -> str:
    return ET.tostring(root, encoding='unicode')


def run_real(R: str, role: str, ch: str, mode: str, base_arg: Optional[str], text: str, data: bytes,
             fname: str, lazy: bool = False) -> dict:
    """One construction on the real code; returns outcome record."""
    import xmlschema
    from xmlschema import XMLResource, XMLSchema10
    from xmlschema.exceptions import XMLResourceForbidden, XMLResourceOSError, XMLSchemaException
    path = os.path.join(R, fname)
    urlpath = '/' + fname
    Obs.table[urlpath] = data
    Obs.seekable_response = 'nonseekable' not in ch
    kwargs: dict[str, Any] = {'defuse': mode}
    if lazy and role == 'instance':
        kwargs['lazy'] = True
    closer = None
    if role == 'included':
        # a clean main schema (given as text) includes the payload through channel path / url
        loc = {'path': path, 'file-url': 'file://' + path}.get(ch, HOST + urlpath)
        src: Any = (f'<xs:schema xmlns:xs="{XS}"><xs:include schemaLocation="{loc}"/>'
                    f'<xs:element name="main" type="xs:string"/></xs:schema>')
        if ch.endswith('-opener'):
            kwargs['opener'] = STUB_OPENER
        if base_arg is not None:
            kwargs['base_url'] = base_arg
    else:
        src, extra, closer = make_source(ch, text, data, path, urlpath)
        kwargs.update(extra)
        if base_arg is not None:
            kwargs['base_url'] = base_arg
    Obs.opens, Obs.served, Obs.defuse_calls, Obs.seeks = [], [], [], []
    Obs.resolver, Obs.requests, Obs.net = [], [], []
    out: dict[str, Any] = {'outcome': 'parsed', 'tree': None, 'exc': None}
    with warnings.catch_warnings():
        warnings.simplefilter('ignore')
        Obs.active = True
        try:
            if role == 'instance':
                res = XMLResource(src, **kwargs)
                out['tree'] = canon_tree(res.root)
                if kwargs.get('lazy') and (STATIC[ch][0] or STATIC[ch][2]):
                    # a lazy resource holds the root only: walk the document through further open() calls
                    # (each of them defuses again); streams that cannot be re-read are left at the root
                    out['tree'] += '|' + '|'.join(canon_tree(e) for e in res.iter_depth(mode=2))
            else:
                schema = XMLSchema10(src, **kwargs)
                out['tree'] = ','.join(sorted(k for k in schema.maps.elements if not k.startswith('{' + XS)))
        except XMLResourceForbidden as e:
            out['outcome'], out['exc'] = 'forbidden', type(e).__name__
        except XMLResourceOSError as e:
            out['outcome'], out['exc'], out['msg'] = 'oserror', type(e).__name__, str(e)[:80]
        except (XMLSchemaException, ET.ParseError, OSError, UnicodeError) as e:
            out['outcome'], out['exc'], out['msg'] = 'parsed', type(e).__name__, str(e)[:80]   # reached the parser
        except Exception as e:          # noqa
            out['outcome'], out['exc'], out['msg'] = 'FOREIGN', type(e).__name__, str(e)[:80]
        finally:
            Obs.active = False
            if closer is not None:
                closer.close()
    # observations of the payload resource only (for the included role the main text is a separate defuse call)
    calls = list(Obs.defuse_calls)
    out['defuse_calls'] = calls
    out['seeks'] = list(Obs.seeks)
    out['secret_opened'] = any(p.endswith('secret.txt') for p in Obs.opens)
    out['ext_served'] = [u for u in Obs.served if u.endswith('ext.dtd')]
    # the traps: nothing may go through the SAX entity-resolution machinery, no request other than for the
    # resource itself, no socket activity
    own = ('/' + fname, )
    out['resolver'] = list(Obs.resolver)
    out['foreign_requests'] = [u for u in Obs.requests if not u.endswith(own)]
    out['net'] = list(Obs.net)
    return out


def observed_plan(out: dict, role: str) -> str:
    calls = out['defuse_calls']
    if role == 'included':
        calls = calls[1:] if calls and out.get('main_defused') else calls
    if not calls:
        if out['outcome'] == 'oserror' and "can't defuse" in out.get('msg', ''):
            return 'refuse'
        return 'no-defuse'
    c = calls[-1] if role == 'included' else calls[0]
    if not c['rewind']:
        return 'second-open'
    if c['seekable']:
        return 'rewind'
    return ('wrap-raw' if c['io'] == 'raw' else 'wrap-buffered' if c['io'] == 'buffered' else
            'wrap-text' if c['io'] == 'text' and c['result'] != 'XMLResourceError' else 'wrap-other')


def load_known() -> list[dict]:
    try:
        return [e for e in json.load(open(KNOWN_FILE))['findings'] if e.get('status') == 'known']
    except (OSError, ValueError, KeyError):
        return []


def known_match(case: dict, detail: dict) -> Optional[str]:
    """Exact rules of notes/findings/C13.json.  F2 / F3: refusals with XMLResourceOSError, nothing parsed.
    F4 / F5: a prolog the handlers do not react to is parsed; nothing is expanded or fetched."""
    if case.get('irregular') and case.get('refuse') and detail.get('outcome') == 'parsed' \
            and not detail.get('secret_opened') and not detail.get('ext_served') and MARK not in (detail.get('tree') or ''):
        if case['irregular'] == 'standalone-external':
            return 'C13-F4'
        if case['irregular'] == 'peref':
            return 'C13-F5'
    seekable, kind, has_url = STATIC[case['channel']]
    if case['role'] == 'included':
        # C13-F2 seen through xs:include: the OSError of the included resource makes the loader skip the include
        sk = [s for s in detail.get('seeks', []) if s['target'] == 0 and not s['ok']]
        if (case['channel'] == 'url-nonseekable' and not case.get('refuse') and detail.get('outcome') == 'parsed'
                and sk and sk[-1]['pos_before'] > sk[-1]['buf']):
            return 'C13-F2'
        return None
    if detail.get('exc') != 'XMLResourceOSError' or detail.get('outcome') != 'oserror':
        return None
    if seekable:
        return None
    if kind == 'text' and not has_url and not detail.get('seeks') and "can't defuse" in (detail.get('msg') or ''):
        return 'C13-F3'                                   # non-seekable text stream: refused by open(), never scanned
    if case.get('refuse') and not case.get('irregular'):
        return None            # the one below concerns documents the scan lets through (clean, or C13-F4/F5 shaped)
    sk = [s for s in detail.get('seeks', []) if s['target'] == 0]
    if kind in ('buffered', 'raw', 'text') and not case['channel'].endswith('-opener'):
        if sk and sk[-1]['pos_before'] > sk[-1]['buf']:
            return 'C13-F2'                               # scan went beyond the initial buffer
    return None


def evaluate(ctx: Ctx, case: dict, out: dict, reference: Optional[dict], does_apply: bool) -> None:
    """The property on the real code."""
    det = {k: out.get(k) for k in ('outcome', 'exc', 'msg', 'seeks', 'secret_opened', 'ext_served')}
    det['tree'] = (out.get('tree') or '')[:200]

    def fail(what: str) -> None:
        fid = known_match(case, det)
        if fid:
            ctx.known_hit(fid, case, det)
        else:
            ctx.failure(what, case, det)

    if out['outcome'] == 'FOREIGN':
        fail('a non-library exception escaped')
        return
    if not does_apply:
        return
    if out.get('resolver') or out.get('foreign_requests') or out.get('net'):
        det['traps'] = {k: out.get(k) for k in ('resolver', 'foreign_requests', 'net')}
        ctx.failure('the external-entity resolver / opener trap fired although defusing applies: something tried '
                    'to fetch an external resource', case, det)
    if case['refuse']:
        if out['outcome'] != 'forbidden':
            fail('defusing applies and the document declares an entity / external subset, '
                 'but it was not refused with XMLResourceForbidden')
        if out['secret_opened'] or out['ext_served']:
            ctx.failure('an external identifier was fetched although defusing applies', case, det)
        if out.get('tree') and MARK in out['tree']:
            ctx.failure('an entity was expanded although defusing applies', case, det)
    else:
        if reference is None:
            return
        if out['outcome'] != reference['outcome'] or out.get('tree') != reference.get('tree'):
            det['undefused'] = {'outcome': reference['outcome'], 'tree': (reference.get('tree') or '')[:200]}
            fail('a document without entity declarations is not parsed to the same tree as without defusing')


# ----------------------------------------------------------------------------------------------
# the run
# ----------------------------------------------------------------------------------------------
BIG = 70000
# the witness of Props/C13.lean `clean_refused_counterexample_doc`: payload big-comment-clean as an instance
WITNESS_DOC = {'payload': 'big-comment-clean', 'total': 70036, 'tag_end': 70031}


def explore(ctx: Ctx, drv: Optional[Driver], full: bool) -> None:
    install_observers()
    R = os.path.realpath(tempfile.mkdtemp(prefix='c13-', dir='/tmp'))
    Obs.root = R
    reqs: list = []
    pend: list = []
    try:
        with open(os.path.join(R, 'secret.txt'), 'w') as f:
            f.write('SECRETCONTENT')
        Obs.table = {'/ext.dtd': b'<!ELEMENT x ANY>'}
        import xmlschema
        xmlschema.XMLSchema10(f'<xs:schema xmlns:xs="{XS}"/>')
        P = payloads(R, BIG)
        bases = [None, R, HOST + '/dir/']
        V = detect_variant()
        ctx.extra['variant'] = V
        for k_, b_ in V.items():
            ctx.count(f'variant:{k_}={b_}')
        # ---- print every (payload, kind of document, encoding) with the Lean grammar -----------------
        keys, asts, bodies, encs_ = [], [], [], []
        for p in P:
            p['encs'] = ENCODINGS if (p['name'] in ('plain', 'xmldecl', 'internal', 'extdtd-system', 'doctype-decls')) else ['utf-8']
            for kind in ('instance', 'schema'):
                for enc in p['encs']:
                    keys.append((p['name'], kind, enc))
                    asts.append(payload_ast(p, kind, enc))
                    if enc == 'utf-8-bom':
                        asts[-1]['bom'] = True
                    bodies.append(body_of(p, kind))
                    encs_.append(enc)
        mats = dict(zip(keys, materialise(ctx, drv, asts, bodies, encs_, 'catalogue')))
        w = mats[(WITNESS_DOC['payload'], 'instance', 'utf-8')]
        if drv is not None and (w.total, w.tag_end) != (WITNESS_DOC['total'], WITNESS_DOC['tag_end']):
            ctx.mismatch('the numbers of clean_refused_counterexample_doc are not those of the replayed payload',
                         WITNESS_DOC, {'total': w.total, 'tag_end': w.tag_end}, WITNESS_DOC)
        for role in ('instance', 'schema', 'included'):
            chans = CHANNELS if role != 'included' else ['path', 'file-url', 'url-seekable', 'url-nonseekable',
                                                         'url-seekable-opener', 'url-nonseekable-opener']
            for pi, p in enumerate(P):
                for enc in p['encs']:
                    x = mats[(p['name'], 'instance' if role == 'instance' else 'schema', enc)]
                    text, data = x.text, x.data
                    fname = f'{role}_{p["name"]}_{enc}.xml'
                    with open(os.path.join(R, fname), 'wb') as f:
                        f.write(data)
                    for ci, ch in enumerate(chans):
                        if enc != 'utf-8' and ch in STR_CHANNELS:
                            continue        # str channels carry no byte encoding
                        for mi, mode in enumerate(MODES):
                            has_url = STATIC[ch][2] or role == 'included'
                            blist = bases if (full and not has_url) else [bases[(pi + ci + mi) % 3]] if not has_url else [None]
                            for base_arg in blist:
                                eff_base = base_arg
                                if has_url:
                                    u = {'path': 'file://' + R + '/' + fname, 'file-url': 'file://' + R + '/' + fname}.get(
                                        ch, HOST + '/' + fname)
                                    eff_base = os.path.dirname(u)
                                does_apply = applies(mode, eff_base)
                                case = {'role': role, 'channel': ch, 'mode': mode, 'base': base_class(eff_base),
                                        'payload': p['name'], 'encoding': enc, 'refuse': x.refuse}
                                if x.irregular:
                                    case['irregular'] = x.irregular
                                lazy = role == 'instance' and (pi + ci + mi) % 2 == 1
                                if lazy:
                                    case['lazy'] = True
                                out = run_real(R, role, ch, mode, base_arg, text, data, fname, lazy)
                                ref = None
                                if does_apply and not x.refuse:
                                    ref = run_real(R, role, ch, 'never', base_arg, text, data, fname, lazy)
                                evaluate(ctx, case, out, ref, does_apply)
                                if role == 'included':
                                    # the main schema is a text source: it is scanned first iff defusing applies to it
                                    out['main_defused'] = applies(mode, base_arg)
                                plan = observed_plan(out, role)
                                ctx.case(case, plan != 'no-defuse', tag=f'role:{role}')
                                ctx.count('plan:' + plan)
                                ctx.count('outcome:' + out['outcome'] + (':' + out['exc'] if out['exc'] else ''))
                                ctx.count('channel:' + ch)
                                ctx.count('mode:' + mode)
                                ctx.count('payload:' + ('refuse' if x.refuse else 'clean'))
                                if drv is not None:
                                    seekable, kind, _ = STATIC[ch]
                                    calls = out['defuse_calls'][1:] if (role == 'included' and out['main_defused']) else out['defuse_calls']
                                    if calls and calls[0]['rewind']:
                                        # what open() actually looked at
                                        seekable, kind = calls[0]['seekable'], calls[0]['io']
                                    elif role == 'included':
                                        seekable, kind = STATIC[ch][0], STATIC[ch][1]
                                    sk = [s_ for s_ in out['seeks'] if s_['target'] == 0]
                                    tot, tend = units(x, ch)
                                    reqs.append({'op': 'doc', 'variant': V, 'mode': mode, 'base': base_class(eff_base),
                                                 'seekable': seekable, 'io': kind, 'opener': ch.endswith('-opener'),
                                                 'url': has_url, 'must_refuse': handler_refuses(x), 'total': tot,
                                                 'tag_end': tend})
                                    res_outcome = out['outcome']
                                    if role == 'included' and calls:
                                        # the loader turns an OSError of an included resource into a skipped include
                                        res_outcome = {'ok': 'parsed', 'XMLResourceForbidden': 'forbidden',
                                                       'XMLResourceOSError': 'oserror'}.get(calls[-1]['result'], out['outcome'])
                                    impl = {'plan': plan, 'outcome': res_outcome}
                                    if sk and not handler_refuses(x):
                                        # the first seek(0) is the rewind of the scan of the first open()
                                        impl['scan_end'], impl['buf_len'] = sk[0]['pos_before'], sk[0]['buf']
                                        ctx.count('scan-end-compared')
                                    pend.append((case, impl))
        if drv is not None:
            for (case, impl), m in zip(pend, drv.query(reqs)):
                ctx.traces += 1
                if 'err' in m:
                    ctx.mismatch('driver error', case, impl, m)
                elif m['plan'] != impl['plan']:
                    ctx.mismatch('way of defusing chosen by open()', case, impl, m)
                elif m['outcome'] != impl['outcome'] and impl['outcome'] != 'FOREIGN':
                    ctx.mismatch('outcome of defuse + parse', case, impl, m)
                elif 'scan_end' in impl and (impl['scan_end'], impl['buf_len']) != (m['scan_end'], m['buf_len']):
                    ctx.mismatch('position of the reader after the scan / length of its buffer', case, impl, m)
        grammar_family(ctx, drv, R, full)
        initial_states(ctx, drv, R, mats, full)
        declared_urls(ctx, drv, R, mats, full)
        build_traces(ctx, drv, R, full)
        if drv is not None:
            witnesses(ctx, drv)
            reader_scripts(ctx, drv)
        hint_family(ctx, R, full)
    finally:
        Obs.active = False
        shutil.rmtree(R, ignore_errors=True)


# ----------------------------------------------------------------------------------------------
# (2) the grammar family
# ----------------------------------------------------------------------------------------------
def real_first_handler(data: bytes) -> dict:
    """what the scan of sax.py:77-84 ends with, on the real SafeExpatParser"""
    from xmlschema.resources.sax import defuse_xml
    from xmlschema.exceptions import XMLResourceForbidden
    try:
        defuse_xml(io.BytesIO(data))
        return {'v': 'clean'}
    except XMLResourceForbidden as e:
        msg = str(e)
        m = re.match(r"Entities are forbidden \(entity_name='(.*)'\)$", msg)
        if m:
            return {'v': 'entity', 'name': m.group(1)}
        m = re.match(r"Unparsed entities are forbidden \(entity_name='(.*)'\)$", msg)
        if m:
            return {'v': 'unparsed', 'name': m.group(1)}
        if msg.startswith('External references are forbidden'):
            return {'v': 'external'}
        return {'v': 'other', 'msg': msg[:80]}


GRAMMAR_CHANNELS = ['bytes', 'BytesIO', 'nsraw', 'nsbuf', 'nsbufreader', 'fileb', 'path', 'text', 'StringIO', 'filet',
                    'nstext', 'nstextio', 'file-url', 'url-seekable', 'url-nonseekable', 'url-seekable-opener',
                    'url-nonseekable-opener']
INCLUDED_CHANNELS = ['path', 'file-url', 'url-seekable', 'url-nonseekable', 'url-seekable-opener', 'url-nonseekable-opener']
GRAMMAR_ROLES = ['instance', 'schema', 'instance', 'included', 'instance', 'schema']
# paddings that put the first start tag around the 4-block edge (65456) and the buffer edge (65536)
PADS = [65200, 65380, 65440, 65470, 65520, 65560, 70000, 82000]
SCHEMA_BODY = f'<xs:schema xmlns:xs="{XS}"><xs:element name="m" type="xs:string"/></xs:schema>'


def entity_names(ast: dict) -> tuple[list, list]:
    """(general, parameter) entity names written in the internal subset"""
    d = ast['doctype']
    sub = (d.get('subset') or []) if d else []
    return ([x[2] for x in sub if x[0] == 'entity' and not x[1]], [x[2] for x in sub if x[0] == 'entity' and x[1]])


def doc_request(role: str, ch: str, mode: str, eff_base: Optional[str], x: Mat, out: dict) -> tuple[dict, dict]:
    """the `doc` request for the model and what was observed on the real code (way of defusing, outcome of the
    resource, position / buffer length at the rewind of the scan)"""
    has_url = STATIC[ch][2] or role == 'included'
    if role == 'included':
        out['main_defused'] = applies(mode, None)
    plan = observed_plan(out, role)
    seekable, kind, _ = STATIC[ch]
    calls = out['defuse_calls'][1:] if (role == 'included' and out['main_defused']) else out['defuse_calls']
    if calls and calls[0]['rewind']:
        seekable, kind = calls[0]['seekable'], calls[0]['io']
    tot, tend = units(x, ch)
    req = {'op': 'doc', 'variant': detect_variant(), 'mode': mode, 'base': base_class(eff_base), 'seekable': seekable,
           'io': kind, 'opener': ch.endswith('-opener'), 'url': has_url, 'must_refuse': handler_refuses(x),
           'total': tot, 'tag_end': tend}
    res_outcome = out['outcome']
    if role == 'included' and calls:
        res_outcome = {'ok': 'parsed', 'XMLResourceForbidden': 'forbidden',
                       'XMLResourceOSError': 'oserror'}.get(calls[-1]['result'], out['outcome'])
    impl = {'plan': plan, 'outcome': res_outcome}
    sk = [s_ for s_ in out['seeks'] if s_['target'] == 0]
    if sk and not handler_refuses(x):
        impl['scan_end'], impl['buf_len'] = sk[0]['pos_before'], sk[0]['buf']
    return req, impl


def grammar_case(ctx: Ctx, R: str, name: str, x: Mat, ch: str, mode: str = 'always', role: str = 'instance',
                 lazy: bool = False, docs: Optional[list] = None) -> None:
    """one prolog of the grammar on the real code: first handler of the real scan vs the model, and the property
    itself through XMLResource / XMLSchema on channel `ch`"""
    case = {'grammar': name, 'role': role, 'channel': ch, 'mode': mode, 'base': 'absent', 'refuse': x.refuse,
            'ast': x.ast if len(x.data) < 2000 else None}
    if lazy:
        case['lazy'] = True
    if x.irregular:
        case['irregular'] = x.irregular
    real = real_first_handler(x.data)
    ctx.count('handler:' + real['v'])
    if x.handler is not None:
        ctx.traces += 1
        if real != x.handler:
            ctx.mismatch('first handler reached by the real SafeExpatParser vs firstHandler', case, real, x.handler)
    fname = 'g.xml'
    with open(os.path.join(R, fname), 'wb') as f:
        f.write(x.data)
    has_url = STATIC[ch][2] or role == 'included'
    eff = None
    if has_url:
        eff = os.path.dirname(('file://' + R + '/' + fname) if ch in ('path', 'file-url') else HOST + '/' + fname)
    does_apply = applies(mode, eff)
    out = run_real(R, role, ch, mode, None, x.text, x.data, fname, lazy)
    ref = run_real(R, role, ch, 'never', None, x.text, x.data, fname, lazy) if does_apply and not x.refuse else None
    evaluate(ctx, case, out, ref, does_apply)
    ctx.case(case, x.ast['doctype'] is not None, tag='grammar')
    if docs is not None:
        docs.append((case,) + doc_request(role, ch, mode, eff, x, out))
    ctx.count('grammar:role:' + role)
    ctx.count('grammar:channel:' + ch)
    if x.irregular and role == 'instance' and does_apply:
        # C13-F4 / C13-F5: what IS guaranteed -- every reference to an entity the document writes is an
        # "undefined entity" error, nothing is expanded, the resolver / opener traps stay silent (evaluate)
        gen, _ = entity_names(x.ast)
        for n in (gen or ['zz'])[:3]:
            body = f'<r>t&{n};</r>'
            text = x.text[:len(x.text) - len(x.body)] + body
            data = x.data[:len(x.data) - len(x.body.encode('utf-8'))] + body.encode('utf-8')
            c2 = dict(case, ref=n)
            with open(os.path.join(R, fname), 'wb') as f:
                f.write(data)
            c2.pop('lazy', None)                 # a lazy resource stops at the root start tag
            o2 = run_real(R, role, ch, mode, None, text, data, fname, False)
            evaluate(ctx, c2, o2, None, does_apply)
            ctx.count('irregular-ref-checked')
            if o2['outcome'] == 'parsed' and not (o2['exc'] and 'undefined entity' in (o2.get('msg') or '')):
                ctx.failure('a reference to an entity of a document the scan did not refuse (C13-F4 / C13-F5 shape) is '
                            'not an "undefined entity" error: something was expanded', c2,
                            {k: o2.get(k) for k in ('outcome', 'exc', 'msg', 'tree')})


def recorded_prolog_events(data: bytes, ast: dict) -> list:
    """the complete sequence the parser reports for the prolog, recorded by handlers that return instead of raising
    (the external-entity resolver trap of the event model)"""
    from xml.sax import expatreader, SAXParseException
    from xml.dom import pulldom
    rec: list = []
    d = ast['doctype']
    ext = d.get('ext') if d else None
    ext_id = None if ext is None else ((ext[1][1], None) if ext[0] == 'system' else (ext[2][1], ext[1][1]))

    class Rec(expatreader.ExpatParser):
        def reset(self):
            super().reset()
            p = self._parser
            p.EntityDeclHandler = lambda name, pe, value, base, sysid, pubid, notation: rec.append(
                ['declared', {'v': 'entity', 'name': name}])
            p.UnparsedEntityDeclHandler = lambda name, base, sysid, pubid, notation: rec.append(
                ['declared', {'v': 'unparsed', 'name': name}])

            def ext_ref(context, base, sysid, pubid):
                rec.append(['ext', sysid, pubid])
                return 1
            p.ExternalEntityRefHandler = ext_ref

    try:
        for event, _node in pulldom.parse(io.BytesIO(data), Rec()):
            if event == pulldom.START_ELEMENT:
                break
    except SAXParseException:
        pass
    out = []
    for k, e in enumerate(rec):
        if e[0] == 'ext':
            # a request for an external parameter entity (it follows the declaration of that entity) is not an event
            # of the model; the request for the external subset is the last event and carries the DOCTYPE's identifier
            # (the public identifier is reported normalised by expat: compared on the system identifier)
            if k == len(rec) - 1 and ext_id is not None and e[1] == ext_id[0]:
                out.append(['ext-subset'])
        else:
            out.append(e)
    return out


def real_ref_event(R: str, prolog_text: str, name: str) -> list:
    """the fate of a reference &name; in the content when the document is parsed by the library without defusing"""
    from xmlschema import XMLResource
    from xmlschema.exceptions import XMLSchemaException
    try:
        XMLResource(prolog_text + f'<r>&{name};</r>', defuse='never')
        return ['expanded', name]
    except (XMLSchemaException, ET.ParseError) as e:
        msg = str(e)
        if 'undefined entity' in msg:
            return ['undefined', name]
        if 'binary entity' in msg:
            return ['binary', name]
        return ['expanded', name]         # the replacement text was parsed (and is not well-formed content)


def event_model(ctx: Ctx, drv: Optional[Driver], R: str, fam: list, mats: list) -> None:
    """driver op `events`: prologEvents / refEvent of Model/Prolog.lean against the real parsers"""
    if drv is None:
        return
    reqs, pend = [], []
    for (name, _), x in zip(fam, mats):
        if x.ast['doctype'] is None or len(x.data) > 4000:
            continue
        gen, par = entity_names(x.ast)
        refs = list(dict.fromkeys(gen[:3] + par[:1] + ['zz']))
        sub = x.ast['doctype'].get('subset') or []
        nested = any(e[0] == 'entity' and e[1] and e[3][0] == 'value' and '<!ENTITY' in e[3][1][1] for e in sub)
        if nested:
            ctx.count('events:skipped-nested-declaration-in-pe-value')
            continue
        ptext = x.text[:len(x.text) - len(x.body)]
        impl = {'prolog': recorded_prolog_events(x.data, x.ast), 'refs': [real_ref_event(R, ptext, n) for n in refs]}
        reqs.append({'op': 'events', 'ast': x.ast, 'refs': refs})
        pend.append(({'events': name, 'ast': x.ast, 'refs': refs}, impl, x))
    for (case, impl, x), m in zip(pend, drv.query(reqs)):
        ctx.traces += 1
        ctx.case(case, bool(impl['prolog']) or any(r[0] != 'undefined' for r in impl['refs']), tag='events')
        for r in impl['refs']:
            ctx.count('events:ref:' + r[0])
        if 'err' in m:
            ctx.mismatch('driver error (events)', case, impl, m)
        elif m['prolog'] != impl['prolog']:
            ctx.mismatch('events the parser reports for the prolog (recording handlers) vs prologEvents', case, impl, m)
        elif m['refs'] != impl['refs']:
            ctx.mismatch('fate of the entity references of the content (library parse, defuse=never) vs refEvent', case, impl, m)
        # the restated guarantee, read directly on the real parsers: where the scan reaches no handler nothing is
        # declared, requested or expanded
        if x.handler is not None and x.handler['v'] == 'clean':
            ctx.count('events:clean-verdict-checked')
            if impl['prolog'] or any(r[0] != 'undefined' for r in impl['refs']):
                ctx.failure('the scan reaches no handler but the parser declares / requests / expands something',
                            case, impl)


def grammar_family(ctx: Ctx, drv: Optional[Driver], R: str, full: bool) -> None:
    secret = 'file://' + R + '/secret.txt'
    ext = HOST + '/ext.dtd'
    fam = [(n, G.with_root(a, 'r')) for n, a in G.small_scope(MARK, secret, ext, 3 if full else 2)]
    ctx.count('grammar:small-scope', len(fam))
    nrand = ctx.pick(400, 4000)
    fam += [(f'random-{i}', G.with_root(G.random_prolog(ctx.rng), 'r')) for i in range(nrand)]
    ctx.count('grammar:random', nrand)
    # sizes straddling the 64 KiB buffer: every 12th prolog gets a padding comment in front of its DOCTYPE
    npad = 0
    for i in range(5, len(fam), ctx.pick(12, 40)):
        n, a = fam[i]
        a = json.loads(json.dumps(a))
        pad = PADS[npad % len(PADS)]
        a['misc1'] = [['comment', 'p' * pad]] + a['misc1']
        fam[i] = (n + f',pad={pad}', a)
        npad += 1
    ctx.count('grammar:padded', npad)
    roles = [GRAMMAR_ROLES[i % len(GRAMMAR_ROLES)] for i in range(len(fam))]
    bodies = ['<r>t</r>' if r == 'instance' else SCHEMA_BODY for r in roles]
    mats = materialise(ctx, drv, [a for _, a in fam], bodies, ['utf-8'] * len(fam), 'grammar family')
    docs: list = []
    for i, ((name, _), x, role) in enumerate(zip(fam, mats, roles)):
        chans = INCLUDED_CHANNELS if role == 'included' else GRAMMAR_CHANNELS
        ch = chans[(i // len(GRAMMAR_ROLES) + i) % len(chans)]
        grammar_case(ctx, R, name, x, ch, role=role, lazy=(role == 'instance' and i % 4 == 2),
                     docs=docs if drv is not None else None)
        if x.irregular:
            ctx.count('grammar:irregular:' + x.irregular)
        if x.handler is not None:
            ctx.count('grammar:expected:' + x.handler['v'])
    if drv is not None:
        for (case, _, impl), m in zip(docs, drv.query([d[1] for d in docs])):
            ctx.traces += 1
            if 'scan_end' in impl:
                ctx.count('scan-end-compared')
            if 'err' in m:
                ctx.mismatch('driver error', case, impl, m)
            elif m['plan'] != impl['plan']:
                ctx.mismatch('way of defusing chosen by open() (grammar family)', case, impl, m)
            elif m['outcome'] != impl['outcome'] and impl['outcome'] != 'FOREIGN':
                ctx.mismatch('outcome of defuse + parse (grammar family)', case, impl, m)
            elif 'scan_end' in impl and (impl['scan_end'], impl['buf_len']) != (m['scan_end'], m['buf_len']):
                ctx.mismatch('position of the reader after the scan / length of its buffer (grammar family)', case, impl, m)
    event_model(ctx, drv, R, fam, mats)


# ----------------------------------------------------------------------------------------------
# (2b) file-like sources in every INITIAL STATE
# ----------------------------------------------------------------------------------------------
class PosBuf(io.BufferedIOBase):
    """a binary stream (seekable or not) that logs every read with its absolute position and the phase it occurs in"""

    def __init__(self, data: bytes, seekable: bool):
        self._d, self._p, self._sk, self.log = data, 0, seekable, []

    def readable(self):
        return True

    def seekable(self):
        return self._sk

    def read(self, n=-1):
        n = len(self._d) if n is None or n < 0 else n
        d = self._d[self._p:self._p + n]
        self.log.append((Obs.phase, self._p, len(d)))
        self._p += len(d)
        return d

    def read1(self, n=-1):
        return self.read(n)

    def tell(self):
        if not self._sk:
            raise io.UnsupportedOperation('tell')
        return self._p

    def seek(self, pos, whence=0):
        if not self._sk:
            raise io.UnsupportedOperation('seek')
        self._p = pos if whence == 0 else self._p + pos if whence == 1 else len(self._d) + pos
        return self._p


class PosText(io.TextIOBase):
    """the same for text"""

    def __init__(self, text: str, seekable: bool):
        self._d, self._p, self._sk, self.log = text, 0, seekable, []

    def readable(self):
        return True

    def seekable(self):
        return self._sk

    def read(self, n=-1):
        n = len(self._d) if n is None or n < 0 else n
        d = self._d[self._p:self._p + n]
        self.log.append((Obs.phase, self._p, len(d)))
        self._p += len(d)
        return d

    def tell(self):
        if not self._sk:
            raise io.UnsupportedOperation('tell')
        return self._p

    def seek(self, pos, whence=0):
        if not self._sk:
            raise io.UnsupportedOperation('seek')
        self._p = pos if whence == 0 else self._p + pos if whence == 1 else len(self._d) + pos
        return self._p


# stream kinds of the family: (seekable, text?, recording?)
STATE_STREAMS = {'fileb': (True, False, False), 'filet': (True, True, False), 'bufreader': (True, False, False),
                 'posbuf': (True, False, True), 'postext': (True, True, True),
                 'nsposbuf': (False, False, True), 'nspostext': (False, True, True), 'nsraw': (False, False, False)}
STATE_INITS = ['0', 'k:1', 'k:xmldecl', 'k:doctype', 'k:after', 'k:root', 'eof', 'used:fetch_namespaces',
               'used:fetch_schema_locations', 'used:XMLResource', 'used:iter_errors', 'used:XMLResource-lazy']
STATE_PAYLOADS = ['plain', 'xmldecl', 'comments-pis', 'doctype-decls', 'internal', 'xmldecl-internal', 'standalone-internal',
                  'external-file', 'parameter', 'unparsed', 'extdtd-system', 'attr-default-entity', 'standalone-extdtd',
                  'peref-then-entity', 'big-comment-entity', 'big-comment-clean']
STATE_ROLES = ['instance', 'schema', 'instance', 'decode']
_AUX: dict = {}


def aux_schema(mode: str) -> Any:
    """a schema for the root element `r`, built from clean text with the given defuse mode"""
    from xmlschema import XMLSchema10
    if mode not in _AUX:
        _AUX[mode] = XMLSchema10(f'<xs:schema xmlns:xs="{XS}"><xs:element name="r" type="xs:string"/></xs:schema>',
                                 defuse=mode)
    return _AUX[mode]


def state_stream(kind: str, x: Mat, path: str) -> tuple[Any, Any]:
    """(stream, closer)"""
    if kind == 'fileb':
        f = open(path, 'rb')
        return f, f
    if kind == 'filet':
        f = open(path, 'r', encoding='utf-8', newline='')
        return f, f
    if kind == 'bufreader':
        return io.BufferedReader(io.BytesIO(x.data)), None
    if kind == 'nsraw':
        return NSRaw(x.data), None
    seekable, text, _ = STATE_STREAMS[kind]
    return (PosText(x.text, seekable) if text else PosBuf(x.data, seekable)), None


def state_position(init: str, x: Mat, text: bool) -> Optional[int]:
    """the position of an initial state `k:…` in the units of the stream (the catalogue payloads used are ASCII)"""
    doc = x.text
    total = len(doc) if text else len(x.data)
    body = len(doc) - len(x.body)
    dt = doc.find('<!DOCTYPE')
    return {'0': 0, 'k:1': 1, 'k:xmldecl': 5, 'k:doctype': (dt + 12) if dt >= 0 else min(7, total),
            'k:after': body, 'k:root': body + 2, 'eof': total}.get(init)


def put_in_state(fp: Any, init: str, x: Mat, text: bool) -> None:
    """bring the stream into the initial state: sniff `k` units, or use it with another library call that does not
    defuse it (default mode 'remote' on a stream without base URL / defuse='never')"""
    import xmlschema
    from xmlschema import XMLResource
    k = state_position(init, x, text)
    if k is not None:
        if k:
            fp.read(k)
        return
    try:
        if init == 'used:fetch_namespaces':
            xmlschema.fetch_namespaces(fp)
        elif init == 'used:fetch_schema_locations':
            xmlschema.fetch_schema_locations(fp)
        elif init == 'used:XMLResource':
            XMLResource(fp, defuse='never')
        elif init == 'used:XMLResource-lazy':
            XMLResource(fp, defuse='never', lazy=True)
        elif init == 'used:iter_errors':
            list(aux_schema('never').iter_errors(fp))
    except Exception:           # noqa   (what the earlier call said is not the point)
        pass


def run_state(R: str, role: str, kind: str, init: str, mode: str, x: Mat, lazy: bool) -> dict:
    """one library call on a file-like source in an initial state"""
    from xmlschema import XMLResource, XMLSchema10
    from xmlschema.exceptions import XMLResourceForbidden, XMLResourceOSError, XMLSchemaException
    path = os.path.join(R, 'state.xml')
    seekable, text, recording = STATE_STREAMS[kind]
    fp, closer = state_stream(kind, x, path)
    out: dict[str, Any] = {'outcome': 'parsed', 'tree': None, 'exc': None}
    if role == 'decode':
        aux_schema(mode)            # built outside the observed region
    with warnings.catch_warnings():
        warnings.simplefilter('ignore')
        put_in_state(fp, init, x, text)
        try:
            out['pos0'] = fp.tell() if seekable else (fp._p if recording else None)
        except (OSError, ValueError):
            out['pos0'] = None
        if recording:
            fp.log.clear()
        Obs.opens, Obs.served, Obs.defuse_calls, Obs.seeks = [], [], [], []
        Obs.resolver, Obs.requests, Obs.net = [], [], []
        Obs.phase = 'pre'
        Obs.active = True
        try:
            if role == 'instance':
                res = XMLResource(fp, defuse=mode, lazy=lazy)
                out['tree'] = canon_tree(res.root)
            elif role == 'schema':
                schema = XMLSchema10(fp, defuse=mode)
                out['tree'] = ','.join(sorted(k for k in schema.maps.elements if not k.startswith('{' + XS)))
            else:
                out['tree'] = repr(aux_schema(mode).decode(fp, validation='lax')[0])
        except XMLResourceForbidden as e:
            out['outcome'], out['exc'] = 'forbidden', type(e).__name__
        except XMLResourceOSError as e:
            out['outcome'], out['exc'], out['msg'] = 'oserror', type(e).__name__, str(e)[:80]
        except (XMLSchemaException, ET.ParseError, OSError, UnicodeError) as e:
            out['outcome'], out['exc'], out['msg'] = 'parsed', type(e).__name__, str(e)[:80]
        except Exception as e:          # noqa
            out['outcome'], out['exc'], out['msg'] = 'FOREIGN', type(e).__name__, str(e)[:80]
        finally:
            Obs.active = False
            Obs.phase = 'pre'
            if closer is not None:
                closer.close()
    out['defuse_calls'], out['seeks'] = list(Obs.defuse_calls), list(Obs.seeks)
    out['secret_opened'] = any(p.endswith('secret.txt') for p in Obs.opens)
    out['ext_served'] = [u for u in Obs.served if u.endswith('ext.dtd')]
    out['resolver'], out['foreign_requests'], out['net'] = list(Obs.resolver), list(Obs.requests), list(Obs.net)
    if recording:
        log = fp.log
        sc = [e for e in log if e[0] == 'scan']
        first_scan = log.index(sc[0]) if sc else None
        pa = [e for e in (log[first_scan:] if sc else log) if e[0] in ('parse', 'pre')]
        out['scan_from'] = sc[0][1] if sc else None
        out['parse_from'] = pa[0][1] if pa else None
        calls = out['defuse_calls']
        if not seekable and sc and calls and calls[0]['result'] == 'ok' and 'wrapper_at' in calls[0]:
            # the parser reads the replay reader: its position 0 is where the wrapper was built
            out['parse_from'] = sc[0][1] + calls[0]['wrapper_at']
    return out


def state_check(ctx: Ctx, drv: Optional[Driver], R: str, x: Mat, role: str, kind: str, init: str, mode: str, lazy: bool,
                pname: str, reqs: list, pend: list) -> None:
    seekable, text, recording = STATE_STREAMS[kind]
    with open(os.path.join(R, 'state.xml'), 'wb') as f:
        f.write(x.data)
    does_apply = applies(mode, None)
    case = {'state': init, 'stream': kind, 'role': role, 'mode': mode, 'payload': pname, 'refuse': x.refuse,
            'channel': 'fileb' if seekable else 'nsbuf', 'encoding': 'utf-8', 'base': 'absent'}
    if lazy:
        case['lazy'] = True
    if x.irregular:
        case['irregular'] = x.irregular
    out = run_state(R, role, kind, init, mode, x, lazy)
    ctx.case(case, init != '0', tag='initial-state')
    ctx.count('state:init:' + init.split(':')[0])
    ctx.count('state:stream:' + kind)
    ctx.count('state:outcome:' + out['outcome'])
    det = {k: out.get(k) for k in ('outcome', 'exc', 'msg', 'pos0', 'scan_from', 'parse_from', 'seeks',
                                   'secret_opened', 'ext_served')}
    det['tree'] = (out.get('tree') or '')[:200]
    if seekable:
        # the position of a seekable stream is irrelevant: the property as for a fresh stream
        ref = None
        if does_apply and not x.refuse:
            ref = run_state(R, role, kind, '0', 'never', x, lazy)
        evaluate(ctx, case, out, ref, does_apply)
    elif does_apply:
        # a non-seekable stream delivers only its rest: whatever that is, nothing is expanded or fetched
        if out['outcome'] == 'FOREIGN':
            ctx.failure('a non-library exception escaped', case, det)
        if out.get('resolver') or out.get('foreign_requests') or out.get('net') or out['secret_opened'] or out['ext_served']:
            ctx.failure('something tried to fetch an external resource although defusing applies', case, det)
        if out.get('tree') and MARK in out['tree']:
            ctx.failure('an entity was expanded although defusing applies', case, det)
    if recording and does_apply and out['scan_from'] is not None:
        # direct reading of the caller's obligation: the parser starts where the scan started; at 0 if seekable
        if out['parse_from'] is not None and out['parse_from'] != out['scan_from']:
            ctx.failure('the parser is fed the stream from another position than the scan was', case, det)
        if seekable and out['scan_from'] != 0:
            ctx.failure('the scan of a seekable stream did not start at the beginning of the document', case, det)
    if recording and drv is not None and out['pos0'] is not None and not lazy:
        units_ = x.text.encode('latin-1', 'replace') if text else x.data
        reqs.append({'op': 'open_flow', 'seekable': seekable, 'hex': units_.hex(), 'pos': out['pos0'],
                     'defused': does_apply})
        pend.append((case, {'scan_from': out['scan_from'], 'parse_from': out['parse_from'],
                            'refused': out['outcome'] == 'forbidden'}, out))


def initial_states(ctx: Ctx, drv: Optional[Driver], R: str, mats: dict, full: bool) -> None:
    """Channel dimension x initial state: seekable / non-seekable, binary / text file-like sources at position 0, at a
    position k (inside the first markup, the XML declaration, the DOCTYPE, after it, inside the root start tag, at
    the end) or used before by another library call that does not defuse them.  The property on the real code: for
    a SEEKABLE source the initial state is irrelevant (refused / same tree as a fresh stream without defusing); for
    every source nothing is expanded or fetched.  Against the model (`OpenFlow`, driver op `open_flow`): where the
    scan starts, where the parser starts, whether the document is refused."""
    kinds = list(STATE_STREAMS)
    combos = []
    n = 0
    for pi, pname in enumerate(STATE_PAYLOADS):
        for ii, init in enumerate(STATE_INITS):
            for ki, kind in enumerate(kinds):
                n += 1
                if not full and (pi + ii + ki) % 3 and not (pname in ('internal', 'extdtd-system') and init != '0'):
                    continue
                combos.append((pname, init, kind, n))
    reqs, pend = [], []
    for pname, init, kind, n in combos:
        role = STATE_ROLES[n % len(STATE_ROLES)]
        if init == 'used:iter_errors' and role == 'schema':
            role = 'instance'
        seekable, text, recording = STATE_STREAMS[kind]
        x = mats[(pname, 'schema' if role == 'schema' else 'instance', 'utf-8')]
        if len(x.data) > 20000 and n % 4:
            continue
        mode = MODES[3] if n % 5 else MODES[n % 3]          # mostly 'always'; 'never' / 'remote' / 'nonlocal' too
        lazy = role == 'instance' and n % 7 == 3
        state_check(ctx, drv, R, x, role, kind, init, mode, lazy, pname, reqs, pend)
    state_compare(ctx, drv, reqs, pend)


def state_compare(ctx: Ctx, drv: Optional[Driver], reqs: list, pend: list) -> None:
    if drv is not None:
        for (case, impl, out), m in zip(pend, drv.query(reqs)):
            ctx.traces += 1
            if 'err' in m:
                ctx.mismatch('driver error (open_flow)', case, impl, m)
                continue
            if out['outcome'] == 'oserror':
                continue            # refused by the rewind of the replay reader (C13-F2 shape on unrepaired trees)
            model = {'scan_from': m['scan_from'] if impl['scan_from'] is not None else None,
                     'parse_from': m['parse_from'] if impl['parse_from'] is not None else None, 'refused': m['refused']}
            if model != impl:
                ctx.mismatch('open() on a file-like source in an initial state: where the scan / the parser start, '
                             'refusal vs OpenFlow', case, impl, m)


# ----------------------------------------------------------------------------------------------
# (2c) file-like sources that DECLARE a URL (`url` attribute) whose content differs from the stream
# ----------------------------------------------------------------------------------------------
class Duck:
    """a plain duck-typed file object (outside the io class hierarchy), what a hand-made response wrapper is"""

    def __init__(self, data: bytes, seekable: bool):
        self._b, self._sk, self.closed = io.BytesIO(data), seekable, False

    def read(self, n=-1):
        return self._b.read(-1 if n is None else n)

    def seekable(self):
        return self._sk

    def tell(self):
        return self._b.tell()

    def seek(self, pos, whence=0):
        if not self._sk:
            raise io.UnsupportedOperation('seek')
        return self._b.seek(pos, whence)

    def close(self):
        self.closed = True


class UrlBufReader(io.BufferedReader):
    """an io.BufferedReader that carries a `url` attribute"""


# kind -> (seekable, io kind open() sees)
URL_STREAMS = {'addinfourl-seekable': (True, 'other'), 'addinfourl-ns': (False, 'other'), 'nsbuf': (False, 'buffered'),
               'nsraw': (False, 'raw'), 'bufreader': (True, 'buffered'), 'nsbufreader': (False, 'buffered'),
               'text-seekable': (True, 'text'), 'nstext': (False, 'text'), 'duck-seekable': (True, 'other'),
               'duck-ns': (False, 'other')}


def url_stream(kind: str, x: Mat, url: Optional[str]) -> Any:
    data = x.data
    if kind.startswith('addinfourl'):
        inner = io.BytesIO(data) if kind.endswith('seekable') else NSBuf(data)
        fp = urllib.response.addinfourl(inner, Message(), url or '', 200)
        if url is None:
            del fp.url
        return fp
    fp = {'nsbuf': lambda: NSBuf(data), 'nsraw': lambda: NSRaw(data), 'bufreader': lambda: UrlBufReader(io.BytesIO(data)),
          'nsbufreader': lambda: UrlBufReader(NSRaw(data)), 'text-seekable': lambda: PosText(x.text, True),
          'nstext': lambda: PosText(x.text, False), 'duck-seekable': lambda: Duck(data, True),
          'duck-ns': lambda: Duck(data, False)}[kind]()
    if url is not None:
        fp.url = url
    return fp


def run_declared(R: str, role: str, kind: str, x: Mat, url: Optional[str], use_opener: bool, mode: str) -> dict:
    from xmlschema import XMLResource, XMLSchema10
    from xmlschema.exceptions import XMLResourceForbidden, XMLResourceOSError, XMLSchemaException
    fp = url_stream(kind, x, url)
    kw: dict[str, Any] = {'defuse': mode}
    if use_opener:
        kw['opener'] = STUB_OPENER
    if role == 'decode':
        aux_schema(mode)
    out: dict[str, Any] = {'outcome': 'parsed', 'tree': None, 'exc': None}
    Obs.opens, Obs.served, Obs.defuse_calls, Obs.seeks = [], [], [], []
    Obs.resolver, Obs.requests, Obs.net = [], [], []
    with warnings.catch_warnings():
        warnings.simplefilter('ignore')
        Obs.active = True
        try:
            if role == 'instance':
                out['tree'] = canon_tree(XMLResource(fp, **kw).root)
            elif role == 'schema':
                schema = XMLSchema10(fp, **kw)
                out['tree'] = ','.join(sorted(k for k in schema.maps.elements if not k.startswith('{' + XS)))
            else:
                sch = aux_schema(mode)
                res = XMLResource(fp, **kw)
                out['tree'] = repr(sch.decode(res, validation='lax')[0])
        except XMLResourceForbidden as e:
            out['outcome'], out['exc'] = 'forbidden', type(e).__name__
        except XMLResourceOSError as e:
            out['outcome'], out['exc'], out['msg'] = 'oserror', type(e).__name__, str(e)[:80]
        except (XMLSchemaException, ET.ParseError, OSError, UnicodeError) as e:
            out['outcome'], out['exc'], out['msg'] = 'parsed', type(e).__name__, str(e)[:80]
        except Exception as e:          # noqa
            out['outcome'], out['exc'], out['msg'] = 'FOREIGN', type(e).__name__, str(e)[:80]
        finally:
            Obs.active = False
    out['defuse_calls'], out['seeks'] = list(Obs.defuse_calls), list(Obs.seeks)
    out['served'] = list(Obs.served)
    out['opens'] = [p for p in Obs.opens if p.endswith('declared.xml')]
    out['resolver'], out['net'] = list(Obs.resolver), list(Obs.net)
    return out


def declared_case(ctx: Ctx, R: str, case: dict, xs: Mat, reqs: Optional[list], pend: Optional[list]) -> None:
    """one file-like source declaring a URL.  Direct reading of the property: the document is the CONTENT OF THE
    STREAM -- refused iff that declares an entity / external subset, parsed to the same tree as without defusing
    otherwise -- and the URL the object declares is never fetched by open()."""
    kind, role, mode, use_opener = case['stream'], case['role'], case['mode'], case['opener']
    url = case['declared']
    seekable, kind_io = URL_STREAMS[kind]
    does_apply = applies(mode, None)
    out = run_declared(R, role, kind, xs, url, use_opener, mode)
    det = {k: out.get(k) for k in ('outcome', 'exc', 'msg', 'served', 'opens')}
    det['tree'] = (out.get('tree') or '')[:200]
    refusing = not seekable and kind_io == 'other'           # open() cannot defuse it at all (plan_refuse_iff)
    ctx.case(case, url is not None, tag='declared-url')
    ctx.count('declared:stream:' + kind)
    ctx.count('declared:outcome:' + out['outcome'])
    if out['outcome'] == 'FOREIGN':
        ctx.failure('a non-library exception escaped', case, det)
    if does_apply:
        fetched = [u for u in out['served'] if url and u == url] + out['opens']
        if fetched:
            ctx.failure('open() fetched the URL that a given file-like source declares (the scan must be fed the '
                        'stream itself)', case, det)
        if out.get('tree') and MARK in out['tree']:
            ctx.failure('an entity was expanded although defusing applies', case, det)
        if out['resolver'] or out['net']:
            ctx.failure('the external-entity resolver / opener trap fired although defusing applies', case, det)
        if xs.refuse:
            ok = out['outcome'] in ('forbidden', 'oserror') if refusing else out['outcome'] == 'forbidden'
            if not ok:
                ctx.failure('defusing applies and the stream declares an entity / external subset, but it was not '
                            'refused with XMLResourceForbidden', case, det)
        elif not refusing:
            ref = run_declared(R, role, kind, xs, url, use_opener, 'never')
            if out['outcome'] != ref['outcome'] or out.get('tree') != ref.get('tree'):
                det['undefused'] = {'outcome': ref['outcome'], 'tree': (ref.get('tree') or '')[:200]}
                ctx.failure('a stream without entity declarations is not parsed to the same tree as without defusing',
                            case, det)
    if reqs is not None:
        plan = observed_plan(out, 'instance')
        reqs.append({'op': 'given', 'variant': detect_variant(), 'mode': mode, 'base': 'absent', 'seekable': seekable,
                     'io': kind_io, 'opener': use_opener, 'declared': url is not None, 'hex': xs.data[:64].hex()})
        pend.append((case, {'plan': plan}))


DECL_PAIRS = [('internal', 'plain'), ('plain', 'internal'), ('extdtd-system', 'plain'), ('plain', 'extdtd-system'),
              ('unparsed', 'xmldecl'), ('internal', 'internal'), ('plain', 'plain'), ('internal', None)]


def declared_urls(ctx: Ctx, drv: Optional[Driver], R: str, mats: dict, full: bool) -> None:
    reqs: list = []
    pend: list = []
    n = 0
    for stream_pay, url_pay in DECL_PAIRS:
        for kind in URL_STREAMS:
            for use_opener in (False, True):
                for where in ('http', 'file', 'none'):
                    n += 1
                    if where == 'none' and url_pay is not None and not full and n % 4:
                        continue
                    role = ['instance', 'schema', 'instance', 'decode'][n % 4]
                    dk = 'schema' if role == 'schema' else 'instance'
                    xs = mats[(stream_pay, dk, 'utf-8')]
                    mode = 'always' if n % 6 else MODES[n % 4]
                    url = None
                    if where != 'none':
                        body = mats[(url_pay, dk, 'utf-8')].data if url_pay is not None else None
                        if where == 'http':
                            url = HOST + '/declared.xml'
                            if body is None:
                                Obs.table.pop('/declared.xml', None)
                            else:
                                Obs.table['/declared.xml'] = body
                        else:
                            url = 'file://' + R + '/declared.xml'
                            if body is None:
                                if os.path.exists(os.path.join(R, 'declared.xml')):
                                    os.remove(os.path.join(R, 'declared.xml'))
                            else:
                                with open(os.path.join(R, 'declared.xml'), 'wb') as f:
                                    f.write(body)
                    case = {'declared': url, 'at-url': url_pay, 'stream': kind, 'payload': stream_pay, 'role': role,
                            'mode': mode, 'opener': use_opener, 'refuse': xs.refuse}
                    declared_case(ctx, R, case, xs, reqs if drv is not None else None, pend)
    if drv is not None:
        for (case, impl), m in zip(pend, drv.query(reqs)):
            ctx.traces += 1
            if 'err' in m:
                ctx.mismatch('driver error (given)', case, impl, m)
            elif m['plan'] != impl['plan'] or (m['scans'] and not m['scans_stream']):
                ctx.mismatch('way open() defuses a file-like source that declares a URL vs the model', case, impl, m)


# ----------------------------------------------------------------------------------------------
# (2d) schema documents fetched through an xsi:schemaLocation hint of an INSTANCE (use_location_hints=True)
# ----------------------------------------------------------------------------------------------
HINT_PAYLOADS = {
    'internal': ('<!DOCTYPE xs:schema [<!ENTITY n "' + MARK + '">]>', '&n;'),
    'external': ('<!DOCTYPE xs:schema [<!ENTITY n SYSTEM "file://{R}/secret.txt">]>', 'HINTED' + MARK),
    'parameter': ('<!DOCTYPE xs:schema [<!ENTITY % p "<!-- c -->"> %p;]>', 'HINTED' + MARK),
    'extsubset': ('<!DOCTYPE xs:schema SYSTEM "' + HOST + '/ext.dtd">', 'HINTED' + MARK),
    'clean': ('', 'HINTEDCLEAN'),
}
HINT_TNS = 'urn:c13:hint:own'
HINT_STOPPED: list = []     # a failing input was met in this process: the shared meta-schema registry may be polluted


def hint_case(ctx: Ctx, R: str, case: dict) -> bool:
    """one instance validated with use_location_hints=True whose root / child / grandchild carries a hint for a
    namespace (new, the schema's own, or one owned by the meta-schema registry) pointing to a schema document
    that declares an entity.  Direct reading of the property: when defusing applies to the hinted document it is
    either never opened or refused with XMLResourceForbidden; it is never parsed / loaded.  Returns False on failure."""
    import xmlschema
    from xmlschema.exceptions import XMLResourceForbidden, XMLSchemaException
    cls = getattr(xmlschema, case['cls'])
    mode, pos, where, pay, nsk = case['mode'], case['at'], case['where'], case['payload'], case['ns']
    ns = {'new': 'urn:c13:hint:new', 'own': HINT_TNS}.get(nsk, nsk)
    prolog, name = HINT_PAYLOADS[pay]
    fname = f'hinted_{pay}.xsd'
    doc = ('<?xml version="1.0"?>\n' + prolog.replace('{R}', R) + f'\n<xs:schema xmlns:xs="{XS}" targetNamespace="{ns}">'
           f'<xs:attribute name="{name}" type="xs:string"/></xs:schema>').encode()
    with open(os.path.join(R, fname), 'wb') as f:
        f.write(doc)
    Obs.table['/' + fname] = doc
    url = ('file://' + R + '/' + fname) if where == 'file' else HOST + '/' + fname
    does_apply = applies(mode, os.path.dirname(url))
    xsd = (f'<xs:schema xmlns:xs="{XS}" targetNamespace="{HINT_TNS}" xmlns:t="{HINT_TNS}" elementFormDefault="qualified">'
           '<xs:element name="root"><xs:complexType><xs:sequence><xs:element name="child"><xs:complexType><xs:sequence>'
           '<xs:element name="leaf" type="xs:string"/></xs:sequence></xs:complexType></xs:element>'
           '</xs:sequence></xs:complexType></xs:element></xs:schema>')
    h = f' xsi:schemaLocation="{ns} {url}"'
    inst = (f'<root xmlns="{HINT_TNS}" xmlns:xsi="http://www.w3.org/2001/XMLSchema-instance"{h if pos == "root" else ""}>'
            f'<child{h if pos == "child" else ""}><leaf{h if pos == "leaf" else ""}>x</leaf></child></root>')
    with warnings.catch_warnings():
        warnings.simplefilter('ignore')
        schema = cls(xsd, defuse=mode)
    out: dict[str, Any] = {'outcome': 'validated', 'exc': None}
    Obs.opens, Obs.served, Obs.defuse_calls, Obs.seeks, Obs.trace, Obs.stack = [], [], [], [], [], []
    Obs.resolver, Obs.requests, Obs.net = [], [], []
    with warnings.catch_warnings():
        warnings.simplefilter('ignore')
        Obs.active = True
        try:
            out['errors'] = len(list(schema.iter_errors(inst, use_location_hints=True)))
        except XMLResourceForbidden as e:
            out['outcome'], out['exc'] = 'forbidden', type(e).__name__
        except (XMLSchemaException, ET.ParseError, OSError) as e:
            out['outcome'], out['exc'], out['msg'] = 'error', type(e).__name__, str(e)[:80]
        except Exception as e:          # noqa
            out['outcome'], out['exc'], out['msg'] = 'FOREIGN', type(e).__name__, str(e)[:80]
        finally:
            Obs.active = False
    tr = [t for t in Obs.trace if str(t[1] or '').endswith('/' + fname)]
    out['trace'] = [t[0] if t[0] != 'scanned' else 'scanned:' + t[2]['result'] for t in tr]
    regs = {'schema': schema.maps, 'meta': cls.meta_schema.maps}
    out['loaded'] = sorted(k for k, m in regs.items() if any((s.url or '').endswith('/' + fname) for s in m.schemas))
    out['names'] = sorted(k for k, m in regs.items() if any(MARK in n or 'HINTEDCLEAN' in n for n in list(m.attributes)))
    out['secret'] = [p_ for p_ in Obs.opens if p_.endswith('secret.txt')]
    out['ext'] = [u for u in Obs.served if u.endswith('/ext.dtd')]
    out['resolver'], out['net'] = list(Obs.resolver), list(Obs.net)
    opened = bool(tr)
    ctx.case(case, opened, tag='hint')
    ctx.count('hint:' + ('ignored' if not opened else out['outcome']) + (':applies' if does_apply else ':free'))
    n0 = len(ctx.failures)
    if out['outcome'] == 'FOREIGN':
        ctx.failure('a non-library exception escaped', case, out)
    if does_apply and pay != 'clean':
        if 'parsed' in out['trace'] or out['loaded'] or out['names']:
            ctx.failure('a schema document that declares an entity / external subset, fetched through an xsi:schemaLocation '
                        'hint of an instance, was parsed although defusing applies to it', case, out)
        elif opened and out['outcome'] != 'forbidden':
            ctx.failure('the hinted schema document was opened, declares an entity / external subset, and was not refused '
                        'with XMLResourceForbidden', case, out)
        if out['secret'] or out['ext'] or out['resolver'] or out['net']:
            ctx.failure('an external identifier of the hinted schema document was fetched / the resolver trap fired', case, out)
    if len(ctx.failures) == n0 and does_apply and opened and 'parsed' in out['trace'] and not any(t.startswith('scanned') for t in out['trace']):
        ctx.failure('a hinted schema document to which defusing applies was parsed without having been scanned', case, out)
    if pay == 'clean' and nsk in ('new', 'own') and pos != 'root' and not (out['loaded'] == ['schema'] and out['names'] == ['schema']):
        ctx.failure('control: a clean hinted schema document for a namespace of the validating schema was not loaded '
                    '(the family does not exercise the hint path)', case, out)
    return len(ctx.failures) == n0


def hint_family(ctx: Ctx, R: str, full: bool) -> None:
    """stops at the first failing input: a wrongly loaded document may sit in the shared meta-schema registry"""
    import xmlschema
    if HINT_STOPPED:
        return
    for cname in ('XMLSchema11', 'XMLSchema10'):
        metas = sorted(getattr(xmlschema, cname).meta_schema.maps.namespaces)
        i = 0
        for nsk in ['new', 'own'] + metas:
            for pos in ('root', 'child', 'leaf'):
                for pay in HINT_PAYLOADS:
                    if pay == 'clean' and nsk not in ('new', 'own'):
                        continue            # never offer a loadable document for a namespace of the shared registry
                    i += 1
                    combos = [(m, w) for m in ('always', 'remote', 'nonlocal') for w in ('file', 'http')]
                    for mode, where in (combos if full else [combos[0], combos[(i % 5) + 1]]):
                        case = {'hint': True, 'cls': cname, 'mode': mode, 'at': pos, 'where': where, 'payload': pay, 'ns': nsk}
                        if not hint_case(ctx, R, case):
                            HINT_STOPPED.append(case)
                            return

# ----------------------------------------------------------------------------------------------
# (3) schema builds
# ----------------------------------------------------------------------------------------------
def build_payloads(R: str) -> list[tuple[str, dict]]:
    secret = 'file://' + R + '/secret.txt'
    ext = HOST + '/ext.dtd'
    L, D, PR = G.lit, G.doctype, G.prolog
    ent = ['entity', False, 'e', ['value', L(MARK)]]
    return [
        ('plain', PR()), ('plain', PR()), ('plain', PR()),
        ('doctype-decls', PR(doctype=D(subset=[['element', 'x', 'ANY'], ['comment', ' <!ENTITY e "x"> ']]))),
        ('internal', PR(doctype=D(subset=[ent]))),
        ('extdtd', PR(doctype=D(ext=['system', L(ext)]))),
        ('unparsed', PR(doctype=D(subset=[['entity', False, 'u', ['ndata', ['system', L(secret)], 'n']]]))),
        ('standalone-extdtd', PR(xmldecl={'encoding': None, 'standalone': True}, doctype=D(ext=['system', L(ext)]))),
    ]


def gen_build_spec(rng: Any, b: int, npay: int) -> dict:
    """a seeded tree of schema documents: node 0 is the main schema, the others are included / imported"""
    nodes: list[dict] = []
    for i in range(rng.randint(1, 6) + 1):
        if i == 0:
            nd = {'id': 0, 'kind': 'main', 'parent': None, 'depth': 0, 'loc': rng.choice(['text', 'text', 'local', 'remote']),
                  'pay': 0 if rng.random() < 0.85 else rng.randrange(npay)}
        else:
            par = rng.choice([m for m in nodes if m['depth'] < 3])
            nd = {'id': i, 'kind': 'include' if rng.random() < 0.6 else 'import', 'parent': par['id'],
                  'depth': par['depth'] + 1, 'loc': rng.choice(['local', 'remote']), 'pay': rng.randrange(npay)}
        nodes.append(nd)
    return {'build': b, 'mode': rng.choice(MODES), 'seekable_response': rng.random() < 0.5, 'opener': rng.random() < 0.25,
            'base_arg': rng.choice(['absent', 'local', 'remote']), 'nodes': nodes}


def run_build(ctx: Ctx, R: str, spec: dict, PAY: list, pm: list) -> tuple[dict, dict, Optional[dict]]:
    """Build the schema tree of `spec` on the real code with the observers on; evaluate the property on the recorded
    trace; returns (case, observed, request for the model)."""
    from xmlschema import XMLSchema10
    from xmlschema.exceptions import XMLResourceForbidden, XMLResourceOSError, XMLSchemaException
    b, mode, seekable_resp, use_opener = spec['build'], spec['mode'], spec['seekable_response'], spec['opener']
    base_arg = {'absent': None, 'local': R, 'remote': HOST + '/dir/'}[spec['base_arg']]
    nodes = [dict(nd) for nd in spec['nodes']]
    for nd in nodes:
        nd['children'] = []
        nd['tns'] = 'urn:n0' if nd['parent'] is None else (nodes[nd['parent']]['tns'] if nd['kind'] == 'include' else f'urn:n{nd["id"]}')
        nd['url'] = (None if nd['loc'] == 'text' else f'file://{R}/b{b}_{nd["id"]}.xsd' if nd['loc'] == 'local'
                     else f'{HOST}/b{b}_{nd["id"]}.xsd')
        if nd['parent'] is not None:
            nodes[nd['parent']]['children'].append(nd)
    for nd in nodes:
        decls = ''.join(
            f'<xs:include schemaLocation="{c["url"]}"/>' if c['kind'] == 'include'
            else f'<xs:import namespace="{c["tns"]}" schemaLocation="{c["url"]}"/>' for c in nd['children'])
        body = (f'<xs:schema xmlns:xs="{XS}" targetNamespace="{nd["tns"]}">{decls}'
                f'<xs:element name="e{nd["id"]}" type="xs:string"/></xs:schema>')
        x = pm[nd['pay']]
        pro = x.data[:x.total - len('<xs:schema>')]
        nd['data'] = pro + body.encode('utf-8')
        nd['total'] = len(nd['data'])
        nd['tag_end'] = len(pro) + body.index('>') + 1
        nd['x'] = x
        if nd['loc'] == 'local':
            with open(os.path.join(R, f'b{b}_{nd["id"]}.xsd'), 'wb') as f:
                f.write(nd['data'])
        elif nd['loc'] == 'remote':
            Obs.table[f'/b{b}_{nd["id"]}.xsd'] = nd['data']
        nd['base'] = base_arg if nd['url'] is None else os.path.dirname(nd['url'])
        nd['applies'] = applies(mode, nd['base'])
    main = nodes[0]
    src: Any = main['data'].decode('utf-8') if main['url'] is None else main['url']
    kwargs: dict[str, Any] = {'defuse': mode}
    if use_opener:
        kwargs['opener'] = STUB_OPENER
    if main['url'] is None and base_arg is not None:
        kwargs['base_url'] = base_arg
    Obs.seekable_response = seekable_resp
    Obs.opens, Obs.served, Obs.defuse_calls, Obs.seeks, Obs.trace, Obs.stack = [], [], [], [], [], []
    status = 'ok'
    with warnings.catch_warnings():
        warnings.simplefilter('ignore')
        Obs.active = True
        try:
            XMLSchema10(src, **kwargs)
        except XMLResourceForbidden:
            status = 'forbidden'
        except XMLResourceOSError:
            status = 'oserror'
        except XMLSchemaException as e:
            status = 'other:' + type(e).__name__
        except Exception as e:      # noqa
            status = 'FOREIGN:' + type(e).__name__
        finally:
            Obs.active = False
    by_url = {nd['url']: nd for nd in nodes}
    events, scans = [], {}
    for t in Obs.trace:
        nd = by_url.get(t[1])
        if nd is None:
            events.append([t[0], str(t[1])])
        elif t[0] == 'failed':
            events.append(['failed', nd['id'], {'XMLResourceForbidden': 'forbidden', 'XMLResourceOSError': 'oserror'}.get(t[2], t[2])])
        else:
            events.append([t[0], nd['id']])
            if t[0] == 'scanned':
                scans[nd['id']] = t[2]
    case = dict(spec)
    case['nodes'] = [dict(nd, payload=PAY[nd['pay']][0]) for nd in spec['nodes']]
    ctx.case(case, len(events) > 3, tag='build')
    ctx.count('build:status:' + status.split(':')[0])
    ctx.count('build:resources-opened', sum(1 for e in events if e[0] == 'opened'))
    # ---- the property on the recorded trace (no Lean involved) --------------------------------
    det = {'events': events, 'status': status}
    for k, e in enumerate(events):
        if e[0] != 'parsed' or not isinstance(e[1], int):
            continue
        nd = nodes[e[1]]
        if nd['applies']:
            if k == 0 or events[k - 1] != ['scanned', nd['id']]:
                ctx.failure('a resource was parsed during a schema build without having been scanned, although '
                            'defusing applies to it', case, det)
            elif nd['x'].refuse and nd['x'].irregular is None:
                ctx.failure('a resource that declares an entity / external subset was parsed during a schema '
                            'build although defusing applies to it', case, det)
            elif nd['x'].refuse:
                ctx.known_hit('C13-F4' if nd['x'].irregular == 'standalone-external' else 'C13-F5', case, det)
    if status.startswith('FOREIGN'):
        ctx.failure('a non-library exception escaped from a schema build', case, det)
    # the included-schema role: a refused resource reached through includes only aborts the build
    for nd in nodes:
        chain, ok = nd, True
        while chain['parent'] is not None:
            ok = ok and chain['kind'] == 'include'
            chain = nodes[chain['parent']]
        opened = ['opened', nd['id']] in events
        if ok and opened and nd['applies'] and nd['x'].refuse and nd['x'].irregular is None and status != 'forbidden':
            ctx.failure('a refused included schema did not abort the build with XMLResourceForbidden', case, det)

    def facts(nd: dict) -> dict:
        if nd['loc'] == 'text':
            seekable, kind = True, 'other'
        elif nd['loc'] == 'local':
            seekable, kind = True, 'buffered'
        else:
            seekable, kind = (True, 'other') if seekable_resp else (False, 'buffered')
        rec = scans.get(nd['id'])
        if rec is not None and rec['rewind']:
            seekable, kind = rec['seekable'], rec['io']       # what open() actually looked at
        return {'id': nd['id'], 'kind': nd['kind'], 'base': base_class(nd['base']), 'seekable': seekable, 'io': kind,
                'opener': use_opener, 'url': nd['url'] is not None, 'must_refuse': handler_refuses(nd['x']),
                'total': nd['total'], 'tag_end': nd['tag_end'], 'children': [facts(c) for c in nd['children']]}
    return case, det, {'op': 'build', 'variant': detect_variant(), 'mode': mode, 'root': facts(main)}


def build_traces(ctx: Ctx, drv: Optional[Driver], R: str, full: bool) -> None:
    PAY = [(n, G.with_root(a, 'xs:schema')) for n, a in build_payloads(R)]
    pm = materialise(ctx, drv, [a for _, a in PAY], ['<xs:schema>'] * len(PAY), ['utf-8'] * len(PAY), 'build payloads')
    reqs, pend = [], []
    for b in range(ctx.pick(150, 1500)):
        case, det, req = run_build(ctx, R, gen_build_spec(ctx.rng, b, len(PAY)), PAY, pm)
        reqs.append(req)
        pend.append((case, det))
    if drv is not None:
        for (case, det), m in zip(pend, drv.query(reqs)):
            ctx.traces += 1
            if 'err' in m:
                ctx.mismatch('driver error (build)', case, det, m)
            elif m['events'] != det['events'] or m['status'] != det['status']:
                ctx.mismatch('event trace / status of a schema build', case, det, m)


# ----------------------------------------------------------------------------------------------
# (5) the named counter-examples of Props/C13.lean, replayed
# ----------------------------------------------------------------------------------------------
def witnesses(ctx: Ctx, drv: Driver) -> None:
    from xmlschema import XMLResource
    from xmlschema.exceptions import XMLResourceForbidden
    for name, fid in (('standalone', 'C13-F4'), ('peref', 'C13-F5')):
        m = drv.query([{'op': 'witness', 'name': name}])[0]
        ctx.traces += 1
        data = bytes.fromhex(m['hex']) + b'<r/>'
        case = {'witness': name, 'doc': data.decode()}
        try:
            XMLResource(data, defuse='always')
            refused = False
        except XMLResourceForbidden:
            refused = True
        if not m['must_refuse'] or m['classify'] != {'v': 'clean'}:
            ctx.mismatch('witness of a _counterexample theorem', case, None, m)
        elif refused:
            # the code no longer shows the deviation: the counter-example theorem describes something else
            ctx.mismatch('the counter-example witness is refused by the real code (the model no longer describes it)',
                         case, 'forbidden', m)
        else:
            ctx.known_hit(fid, case, {'outcome': 'parsed'})
            ctx.count('witness:' + name + ':reproduced')


def synth(n: int) -> bytes:
    return bytes((7 * i + 3) % 251 for i in range(n))


def digest(d: bytes) -> list:
    s = 0
    for x in d:
        s = (s + x) % 65521
    return [len(d), s, d[0] if d else 0, d[-1] if d else 0]


def reader_scripts(ctx: Ctx, drv: Driver) -> None:
    """seeded op-for-op comparison of the real DefusableReader (and DefusableTextReader when the tree has it) with
    the model `Reader.run` / `Reader.exec`, and of scan-rewind-parse sequences with `Reader.readMany`"""
    from xmlschema.utils.streams import DefusableReader
    rng = ctx.rng
    V = detect_variant()
    classes = [('bytes', DefusableReader, V['grow_buf'])]
    tcls = text_reader_class()
    if tcls is not None:
        classes.append(('text', tcls, V['grow_text']))

    def make(kind: str, cls: Any, data: bytes, size: int) -> Any:
        return cls(NSBuf(data), size) if kind == 'bytes' else cls(NSText(data.decode('latin-1')), size)

    def raw(d: Any) -> bytes:
        return d if isinstance(d, bytes) else d.encode('latin-1')

    def state(rd: Any) -> dict:
        buf = rd._buffer_size if hasattr(rd, '_buffer_size') else len(rd._buffer)
        return {'pos': rd._pos, 'buf': buf, 'grow': bool(getattr(rd, '_growing', False))}

    reqs, impls, cases = [], [], []
    for k in range(ctx.pick(300, 3000)):
        kind, cls, grow = classes[k % len(classes)]
        size = rng.choice([0, 100, 8192, 8192, 8192, 9000, 10000, 16384]) if rng.random() < 0.93 else 65536
        B = max(size, 8192)
        length = rng.choice([0, 1, 100, B - 1, B, B + 1, 2 * B, rng.randint(0, 3 * B)])
        ops = []
        for _ in range(rng.randint(1, 8)):
            r = rng.random()
            if r < 0.5:
                ops.append(['read', rng.choice([0, 1, 10, 4096, 16364, B, B + 5, rng.randint(0, 2 * B)])])
            elif r < 0.6:
                ops.append(['read', None])
            elif r < 0.85:
                ops.append(['seek', rng.choice([0, 0, 0, 1, B, B + 1, rng.randint(0, 2 * B)])])
            else:
                ops.append(['tell'])
        if k % 7 == 6:
            # the pattern the exactness of the rewind is about: go beyond the buffer, come back, read again
            # (with a leading seek the buffer of a growing reader is frozen first)
            length = rng.choice([2 * B, 3 * B, B + 1 + rng.randint(0, B)])
            ops = ([['seek', 0]] if rng.random() < 0.5 else []) + [
                ['read', B + rng.randint(1, B)], ['seek', rng.choice([0, 0, 1, B])], ['read', rng.choice([10, B, None])]]
        data = synth(length)
        rd = make(kind, cls, data, size)
        buf0 = state(rd)['buf']
        outs: list = []
        case = {'reader': kind, 'grow': grow, 'size': size, 'len': length, 'ops': ops}
        cur = 0         # the cursor of a plain byte string: the direct reading of "a transparent view of the stream"
        for op in ops:
            try:
                if op[0] == 'read':
                    d = raw(rd.read(op[1]))
                    outs.append({'d': digest(d)})
                    want = data[cur:] if op[1] is None else data[cur:cur + op[1]]
                    if d != want:
                        ctx.failure('the reader delivered bytes that are not the bytes of the stream at its position '
                                    '(a gap or a repetition after a seek)', case,
                                    {'at': cur, 'asked': op[1], 'got': digest(d), 'stream': digest(want)})
                    cur += len(d)
                elif op[0] == 'seek':
                    outs.append({'at': rd.seek(op[1])})
                    cur = op[1]
                else:
                    outs.append({'at': rd.tell()})
            except OSError:
                outs.append('oserror')
                break
        crossed = any(isinstance(o, dict) and 'at' in o for o in outs) or 'oserror' in outs
        ctx.case(case, crossed, tag='reader-script')
        if 'oserror' in outs:
            ctx.count('reader:oserror')
        ctx.count('reader:' + kind)
        reqs.append({'op': 'reader', 'grow': grow, 'size': size, 'len': length, 'ops': ops})
        impls.append({'buf': buf0, 'outs': outs, 'final': None if 'oserror' in outs else state(rd)})
        cases.append(case)
    for case, impl, m in zip(cases, impls, drv.query(reqs)):
        ctx.traces += 1
        if m != impl:
            ctx.mismatch('DefusableReader script', case, impl, m)
    # ---- scan, rewind, parse: the bytes the parser is fed are exactly the bytes the scan saw ------------
    reqs, impls, cases = [], [], []
    for k in range(ctx.pick(200, 2000)):
        kind, cls, grow = classes[k % len(classes)]
        size = rng.choice([8192, 8192, 10000, 65536])
        B = max(size, 8192)
        length = rng.choice([100, B - 1, B, B + 1, B + 16364, 2 * B, rng.randint(0, 4 * B)])
        blk = rng.choice([16364, 16364, 4096, 1000, rng.randint(1, 20000)])
        ks = [blk] * rng.randint(0, 6) if rng.random() < 0.7 else [rng.randint(0, 20000) for _ in range(rng.randint(0, 6))]
        ms = [rng.choice([16364, 65536, 8192, rng.randint(0, 30000)]) for _ in range(rng.randint(0, 5))]
        data = synth(length)
        rd = make(kind, cls, data, size)
        scanned = b''.join(raw(rd.read(n)) for n in ks)
        impl: dict = {'scan': digest(scanned), 'pos': state(rd)['pos'], 'buf': state(rd)['buf']}
        case = {'reader-scan': kind, 'grow': grow, 'size': size, 'len': length, 'ks': ks, 'ms': ms}
        try:
            rd.seek(0)
            impl['seek_ok'] = True
            parsed = b''.join(raw(rd.read(n)) for n in ms)
            rest = raw(rd.read())
            impl['parse'], impl['rest'] = digest(parsed), digest(rest)
            # the property of the reader on the real class, independent of Lean (what seed C13-3 broke)
            if parsed + rest != data or scanned != data[:len(scanned)]:
                ctx.failure('after a successful rewind the reader does not deliver exactly the bytes of the stream '
                            '(scanned and parsed bytes differ)', case,
                            {'scanned': len(scanned), 'parsed+rest': len(parsed + rest), 'stream': length})
        except OSError:
            impl['seek_ok'] = False
        ctx.case(case, impl['pos'] > B, tag='reader-scan')
        ctx.count('reader-scan:' + ('rewound' if impl['seek_ok'] else 'refused') + (':beyond-buffer' if impl['pos'] > B else ''))
        reqs.append({'op': 'scan', 'grow': grow, 'size': size, 'len': length, 'ks': ks, 'ms': ms})
        impls.append(impl)
        cases.append(case)
    for case, impl, m in zip(cases, impls, drv.query(reqs)):
        ctx.traces += 1
        if m != impl:
            ctx.mismatch('scan / rewind / parse on the real reader vs Reader.readMany', case, impl, m)


def translate(ctx: Ctx) -> None:
    from xmlschema.arguments import DEFUSE_MODES
    text = ('/- GENERATED by harness/props/c13.py from xmlschema/arguments.py (DEFUSE_MODES). Do not edit. -/\n'
            'namespace XsVerif.Generated.C13\n'
            'def defuseModes : List String := [' + ', '.join(json.dumps(m) for m in sorted(DEFUSE_MODES)) + ']\n'
            'end XsVerif.Generated.C13\n')
    p = LEAN / 'XsVerif' / 'Generated' / 'C13.lean'
    p.parent.mkdir(exist_ok=True)
    if not p.exists() or p.read_text() != text:
        p.write_text(text)


def register_findings(ctx: Ctx) -> None:
    """findings of notes/findings/C13.json (status known) that the committed known_findings.json does not list yet"""
    for e in load_known():
        if not any(k.get('id') == e['id'] for k in ctx.known):
            ctx.known.append(e)


def run(ctx: Ctx, driver_ok: bool) -> None:
    register_findings(ctx)
    drv = Driver('drv_c13') if driver_ok else None
    explore(ctx, drv, full=not ctx.quick())
    ctx.extra['exhaustive'] = not ctx.quick()
    ctx.extra['known_findings_file'] = 'notes/findings/C13.json'


def search(ctx: Ctx) -> None:
    if ctx.quick():
        explore(ctx, None, full=True)


def replay(ctx: Ctx, obj: dict) -> int:
    print(json.dumps(obj, indent=1)[:3000])
    case = obj.get('input')
    if not case:
        return 0
    register_findings(ctx)
    install_observers()
    R = os.path.realpath(tempfile.mkdtemp(prefix='c13-', dir='/tmp'))
    Obs.root = R
    try:
        drv: Optional[Driver] = Driver('drv_c13')
        drv.query([{'op': 'witness', 'name': 'peref'}])
    except Exception as e:      # noqa
        print('model not available:', e)
        drv = None
    try:
        with open(os.path.join(R, 'secret.txt'), 'w') as f:
            f.write('SECRETCONTENT')
        Obs.table = {'/ext.dtd': b'<!ELEMENT x ANY>'}
        if 'build' in case:
            PAY = [(n, G.with_root(a, 'xs:schema')) for n, a in build_payloads(R)]
            pm = materialise(ctx, drv, [a for _, a in PAY], ['<xs:schema>'] * len(PAY), ['utf-8'] * len(PAY), 'build payloads')
            spec = dict(case)
            spec['nodes'] = [{k: v for k, v in nd.items() if k != 'payload'} for nd in case['nodes']]
            _, det, req = run_build(ctx, R, spec, PAY, pm)
            print('REAL CODE:', det)
            if drv is not None:
                print('MODEL    :', drv.query([req])[0])
        elif 'hint' in case:
            ok_ = hint_case(ctx, R, case)
            print('REAL CODE:', 'property holds' if ok_ else 'property violated')
        elif 'declared' in case:
            P_ = {q['name']: q for q in payloads(R, BIG)}
            dk = 'schema' if case['role'] == 'schema' else 'instance'
            names = [case['payload']] + ([case['at-url']] if case.get('at-url') else [])
            ms = materialise(ctx, drv, [payload_ast(P_[n_], dk, 'utf-8') for n_ in names], [body_of(P_[n_], dk) for n_ in names],
                             ['utf-8'] * len(names), 'replay')
            url = case['declared']
            if url is not None:
                url = (HOST + '/declared.xml') if url.startswith('http') else 'file://' + R + '/declared.xml'
                if len(ms) > 1:
                    Obs.table['/declared.xml'] = ms[1].data
                    with open(os.path.join(R, 'declared.xml'), 'wb') as f:
                        f.write(ms[1].data)
            c2 = dict(case, declared=url)
            print('STREAM   :', ms[0].data[:200], '| kind', case['stream'], '| opener', case['opener'])
            print('AT URL   :', url, ms[1].data[:200] if len(ms) > 1 else None)
            reqs, pend = [], []
            declared_case(ctx, R, c2, ms[0], reqs, pend)
            o_ = run_declared(R, case['role'], case['stream'], ms[0], url, case['opener'], case['mode'])
            print('REAL CODE:', {k: o_.get(k) for k in ('outcome', 'exc', 'served', 'opens', 'defuse_calls')}, (o_.get('tree') or '')[:120])
            if drv is not None:
                print('MODEL    :', drv.query(reqs)[0])
        elif 'state' in case:
            p = [q for q in payloads(R, BIG) if q['name'] == case['payload']][0]
            role, kind = case['role'], case['stream']
            dk = 'schema' if role == 'schema' else 'instance'
            x = materialise(ctx, drv, [payload_ast(p, dk, 'utf-8')], [body_of(p, dk)], ['utf-8'], 'replay')[0]
            print('DOCUMENT :', x.data[:300], '| stream', kind, STATE_STREAMS[kind], '| initial state', case['state'])
            reqs, pend = [], []
            state_check(ctx, drv, R, x, role, kind, case['state'], case['mode'], bool(case.get('lazy')), case['payload'],
                        reqs, pend)
            for c_, impl, out in pend:
                print('REAL CODE:', {k: out.get(k) for k in ('outcome', 'exc', 'pos0', 'scan_from', 'parse_from')},
                      (out.get('tree') or '')[:120])
            if drv is not None and reqs:
                print('MODEL    :', drv.query(reqs)[0])
            state_compare(ctx, drv, reqs, pend)
        elif 'reader' in case or 'reader-scan' in case:
            # a script / a scan-rewind-parse sequence on the real replay reader, against a plain byte string
            from xmlschema.utils.streams import DefusableReader
            kind = case.get('reader') or case['reader-scan']
            cls = DefusableReader if kind in (True, 'bytes') else text_reader_class()
            data = synth(case['len'])
            rd = cls(NSBuf(data), case['size']) if cls is DefusableReader else cls(NSText(data.decode('latin-1')), case['size'])
            ops = case.get('ops') or ([['read', n] for n in case['ks']] + [['seek', 0]] + [['read', n] for n in case['ms']]
                                      + [['read', None]])
            cur, bad = 0, False
            for op in ops:
                try:
                    if op[0] == 'read':
                        d = rd.read(op[1])
                        d = d if isinstance(d, bytes) else d.encode('latin-1')
                        want = data[cur:] if op[1] is None else data[cur:cur + op[1]]
                        print('  read', op[1], 'at', cur, '->', digest(d), 'stream has', digest(want), '' if d == want else '  <-- DIFFERENT')
                        bad = bad or d != want
                        cur += len(d)
                    elif op[0] == 'seek':
                        print('  seek', op[1], '->', rd.seek(op[1]))
                        cur = op[1]
                    else:
                        print('  tell ->', rd.tell())
                except OSError as e:
                    print(' ', op, '-> OSError', e)
                    break
            if drv is not None:
                req = ({'op': 'reader', 'grow': case.get('grow', False), 'size': case['size'], 'len': case['len'], 'ops': case['ops']}
                       if 'ops' in case else {'op': 'scan', 'grow': case.get('grow', False), 'size': case['size'],
                                              'len': case['len'], 'ks': case['ks'], 'ms': case['ms']})
                print('MODEL    :', drv.query([req])[0])
            print('FAILS ON THE REAL CODE: the reader delivered bytes that are not those of the stream' if bad else 'reader exact')
            return 1 if bad else 0
        elif 'grammar' in case:
            if case.get('ast') is None:
                print('the syntax tree of this case was not stored (large prolog)')
                return 0
            role = case.get('role', 'instance')
            x = materialise(ctx, drv, [case['ast']], ['<r>t</r>' if role == 'instance' else SCHEMA_BODY], ['utf-8'], 'replay')[0]
            print('DOCUMENT :', x.data[:400])
            print('REAL SCAN:', real_first_handler(x.data), '| MODEL:', x.handler, '| direct reading must-refuse:', x.refuse)
            grammar_case(ctx, R, case['grammar'], x, case['channel'], case.get('mode', 'always'), role, bool(case.get('lazy')))
        elif 'payload' in case:
            p = [q for q in payloads(R, BIG) if q['name'] == case['payload']][0]
            role, ch, mode, enc = case['role'], case['channel'], case['mode'], case.get('encoding', 'utf-8')
            kind = 'instance' if role == 'instance' else 'schema'
            ast = payload_ast(p, kind, enc)
            if enc == 'utf-8-bom':
                ast['bom'] = True
            x = materialise(ctx, drv, [ast], [body_of(p, kind)], [enc], 'replay')[0]
            fname = 'replay.xml'
            with open(os.path.join(R, fname), 'wb') as f:
                f.write(x.data)
            base_arg = {'absent': None, 'local': R, 'remote': HOST + '/dir/'}.get(case['base']) if not (STATIC[ch][2] or role == 'included') else None
            lazy = bool(case.get('lazy'))
            out = run_real(R, role, ch, mode, base_arg, x.text, x.data, fname, lazy)
            print('REAL CODE:', {k: out[k] for k in ('outcome', 'exc', 'defuse_calls', 'seeks', 'secret_opened', 'ext_served',
                                                     'resolver', 'foreign_requests', 'net')},
                  (out.get('tree') or '')[:120])
            eff = base_arg
            if STATIC[ch][2] or role == 'included':
                eff = os.path.dirname(('file://' + R + '/' + fname) if ch in ('path', 'file-url') else HOST + '/' + fname)
            does_apply = applies(mode, eff)
            ref = run_real(R, role, ch, 'never', base_arg, x.text, x.data, fname, lazy) if does_apply and not x.refuse else None
            print('defusing applies:', does_apply, '| direct reading must-refuse:', x.refuse, '| handler expected by the model:', x.handler)
            if drv is not None:
                seekable, kind_, has_url = STATIC[ch]
                tot, tend = units(x, ch)
                m = drv.query([{'op': 'doc', 'variant': detect_variant(), 'mode': mode, 'base': base_class(eff),
                                'seekable': seekable, 'io': kind_,
                                'opener': ch.endswith('-opener'), 'url': has_url or role == 'included',
                                'must_refuse': handler_refuses(x), 'total': tot, 'tag_end': tend}])[0]
                print('MODEL    :', m)
            c2 = dict(case)
            evaluate(ctx, c2, out, ref, does_apply)
        else:
            return 0
        for f in ctx.failures:
            print('FAILS ON THE REAL CODE:', f['what'], str(f['detail'])[:600])
        for m in ctx.mismatches:
            print('MODEL != CODE:', m['correspondence'])
        return 1 if ctx.failures else 0
    finally:
        Obs.active = False
        shutil.rmtree(R, ignore_errors=True)
