"""
C13 — defused parsing refuses every entity declaration before any expansion.

What is run
-----------
defuse mode x locality (base URL absent / local / remote) x input channel (text, bytes, StringIO, BytesIO,
path, file URL, binary / text file objects, non-seekable raw / buffered / BufferedReader / text streams,
http URL through a stub opener delivering a seekable or a non-seekable response, with and without an
explicit `opener`) x payload catalogue (entity kinds, nesting, position, encodings, BOMs, prologs larger
than the 64 KiB buffer; clean DOCTYPEs) x role (instance, main schema, included schema) on the REAL code.

Recorded per case: exception class / parsed tree, the calls of `defuse_xml` (which stream, rewind or not),
the `seek` calls on DefusableReader (scan end, buffer length), audit events for external fetches.

Property evaluation on the real code (independent of Lean): when defusing applies and the payload declares
an entity / external subset -> XMLResourceForbidden, no expanded text, no fetch of the external identifier;
clean documents -> the same tree as with defuse='never'.

Correspondence with the Lean model (XsVerif/Model/Defuse.lean, driver drv_c13):
  plan    observed way of defusing + outcome   == model plan / outcome
  reader  seeded read/seek/tell scripts on the real DefusableReader == model Reader.run (op for op)
"""
from __future__ import annotations

import io
import json
import os
import shutil
import sys
import tempfile
import urllib.request
import urllib.response
import warnings
from email.message import Message
from typing import Any, Optional
from urllib.error import URLError
from urllib.parse import urlsplit
from xml.etree import ElementTree as ET

from harness.core import Ctx, Driver, LEAN

PROPS = 'XsVerif.Props.C13'
AUDIT = 'XsVerif.Audit.C13'
LEAN_TARGETS = ['XsVerif.Props.C13', 'drv_c13']
LEANCHECK = ['XsVerif.Model.Defuse', 'XsVerif.Lemmas.Defuse', 'XsVerif.Props.C13']
RULE = ('one case = (defuse mode, base-URL locality, input channel, payload, role) on the real library; the payload '
        'catalogue is crossed exhaustively with modes, localities, channels and roles in the thorough tier and with a '
        'rotating locality in the quick tier; plus seeded read/seek/tell scripts against the real DefusableReader; '
        'non-trivial = defusing applied (a branch of open() other than "not defused" was taken) or, for reader scripts, '
        'the script crossed the buffer edge or sought; distinct by canonical JSON')
TRUSTED = ['expat calls EntityDeclHandler / UnparsedEntityDeclHandler / ExternalEntityRefHandler before it expands or '
           'fetches anything: observed on every payload (no expanded text, no fetch), not proved',
           'the label "must be refused" of a payload is the one it gets by construction in the generator '
           '(it contains an ENTITY declaration or an external DOCTYPE identifier)',
           'xml.dom.pulldom reads the stream in blocks of 16364 bytes; the scan end is measured on the real '
           'DefusableReader, not predicted']
ASSUMPTIONS = ['underlying non-seekable buffered streams deliver exactly the requested number of bytes unless they end '
               '(io.BufferedIOBase.read contract)']

XS = 'http://www.w3.org/2001/XMLSchema'
HOST = 'http://stub.test'
MODES = ['never', 'remote', 'nonlocal', 'always']
MARK = 'EXPANDEDPAYLOAD'
KNOWN_FILE = os.path.join(os.path.dirname(os.path.dirname(os.path.dirname(os.path.abspath(__file__)))),
                          'notes', 'findings', 'C13.json')


# ----------------------------------------------------------------------------------------------
# streams and observation
# ----------------------------------------------------------------------------------------------
class NSRaw(io.RawIOBase):
    def __init__(self, data: bytes):
        self._b = io.BytesIO(data)

    def readable(self):
        return True

    def seekable(self):
        return False

    def readinto(self, buf):
        d = self._b.read(len(buf))
        buf[:len(d)] = d
        return len(d)


class NSBuf(io.BufferedIOBase):
    """a non-seekable buffered stream (what http.client.HTTPResponse is)"""

    def __init__(self, data: bytes, url: Optional[str] = None):
        self._b = io.BytesIO(data)
        if url is not None:
            self.url = url
            self.headers = Message()
            self.code = self.status = 200
            self.msg = 'OK'

    def readable(self):
        return True

    def seekable(self):
        return False

    def read(self, n=-1):
        return self._b.read(-1 if n is None else n)

    def read1(self, n=-1):
        return self.read(n)

    def tell(self):
        return self._b.tell()

    def seek(self, *a):
        raise io.UnsupportedOperation('seek')

    def info(self):
        return self.headers

    def geturl(self):
        return self.url


class Obs:
    installed = False
    active = False
    root = ''
    opens: list = []
    served: list = []
    defuse_calls: list = []
    seeks: list = []
    table: dict = {}
    seekable_response = True


def _hook(event: str, args: tuple) -> None:
    if Obs.active and event == 'open':
        p = args[0]
        if isinstance(p, bytes):
            p = os.fsdecode(p)
        if isinstance(p, str) and Obs.root and os.path.abspath(p).startswith(Obs.root):
            Obs.opens.append(os.path.abspath(p))


class StubHandler(urllib.request.BaseHandler):
    handler_order = 100

    def _serve(self, req):      # noqa
        url = req.full_url
        Obs.served.append(url)
        body = Obs.table.get(urlsplit(url).path)
        if body is None:
            raise URLError('stub: no such resource')
        if Obs.seekable_response:
            resp = urllib.response.addinfourl(io.BytesIO(body), Message(), url, 200)
            resp.msg = 'OK'
            return resp
        return NSBuf(body, url)

    http_open = https_open = _serve


STUB_OPENER = None


def io_kind(fp: Any) -> str:
    return 'raw' if isinstance(fp, io.RawIOBase) else 'buffered' if isinstance(fp, io.BufferedIOBase) else 'other'


def install_observers() -> None:
    global STUB_OPENER
    if Obs.installed:
        return
    Obs.installed = True
    sys.addaudithook(_hook)
    STUB_OPENER = urllib.request.build_opener(StubHandler())
    urllib.request.install_opener(STUB_OPENER)
    import xmlschema.resources.xml_resource as xr
    from xmlschema.utils.streams import DefusableReader
    orig = xr.defuse_xml

    def defuse_xml(fp, rewind=True):        # noqa
        rec = {'rewind': rewind, 'seekable': bool(fp.seekable()), 'io': io_kind(fp), 'result': 'ok'}
        if Obs.active:
            Obs.defuse_calls.append(rec)
        try:
            return orig(fp, rewind)
        except BaseException as e:
            rec['result'] = type(e).__name__
            raise

    xr.defuse_xml = defuse_xml
    orig_seek = DefusableReader.seek

    def seek(self, pos, whence=0):          # noqa
        rec = {'pos_before': self._pos, 'target': pos, 'buf': self._buffer_size, 'ok': True}
        if Obs.active:
            Obs.seeks.append(rec)
        try:
            return orig_seek(self, pos, whence)
        except BaseException:
            rec['ok'] = False
            raise

    DefusableReader.seek = seek


# ----------------------------------------------------------------------------------------------
# payload catalogue
# ----------------------------------------------------------------------------------------------
def payloads(R: str, big: int) -> list[dict]:
    """Each payload: name, xmldecl?, misc (before DOCTYPE), doctype text or None, refuse label, uses (text
    placed in the document that references an entity) — the label follows from the construction."""
    secret = 'file://' + R + '/secret.txt'
    ext = HOST + '/ext.dtd'
    ent = f'<!ENTITY e "{MARK}">'
    filler_decls = ''.join(f'<!ELEMENT f{i} (#PCDATA)>' for i in range(big // 24 + 1))
    P = [
        # ---- clean -------------------------------------------------------------------------
        dict(name='plain'),
        dict(name='xmldecl', xmldecl=True),
        dict(name='comments-pis', xmldecl=True, misc='<!-- c --><?pi data?>\n'),
        dict(name='doctype-bare', doctype='<!DOCTYPE {root}>'),
        dict(name='doctype-decls', doctype='<!DOCTYPE {root} [<!ELEMENT x (#PCDATA)><!ATTLIST x a CDATA "d"><!-- c --><?p q?>]>'),
        dict(name='notation-only', doctype='<!DOCTYPE {root} [<!NOTATION n SYSTEM "n">]>'),
        dict(name='entity-word-in-comment', misc='<!-- <!ENTITY e "x"> -->'),
        dict(name='big-comment-clean', xmldecl=True, misc='<!--' + 'x' * big + '-->'),
        dict(name='big-doctype-clean', doctype='<!DOCTYPE {root} [' + filler_decls + ']>'),
        dict(name='big-pi-clean', misc='<?p ' + 'y' * (big // 2) + '?>'),
        # ---- must be refused ---------------------------------------------------------------
        dict(name='internal', doctype='<!DOCTYPE {root} [' + ent + ']>', refuse=True, use='&e;'),
        dict(name='internal-unused', doctype='<!DOCTYPE {root} [' + ent + ']>', refuse=True),
        dict(name='internal-after-decls', doctype='<!DOCTYPE {root} [<!ELEMENT x ANY><!-- c -->' + ent + ']>', refuse=True, use='&e;'),
        dict(name='nested', doctype=f'<!DOCTYPE {{root}} [<!ENTITY a "{MARK}"><!ENTITY e "&a;&a;&a;">]>', refuse=True, use='&e;'),
        dict(name='external-file', doctype=f'<!DOCTYPE {{root}} [<!ENTITY e SYSTEM "{secret}">]>', refuse=True, use='&e;'),
        dict(name='external-http', doctype=f'<!DOCTYPE {{root}} [<!ENTITY e SYSTEM "{ext}">]>', refuse=True, use='&e;'),
        dict(name='external-public', doctype=f'<!DOCTYPE {{root}} [<!ENTITY e PUBLIC "-//X//Y" "{secret}">]>', refuse=True),
        dict(name='parameter', doctype='<!DOCTYPE {root} [<!ENTITY % p "<!ELEMENT x ANY>">%p;]>', refuse=True),
        dict(name='parameter-external', doctype=f'<!DOCTYPE {{root}} [<!ENTITY % p SYSTEM "{ext}">%p;]>', refuse=True),
        dict(name='unparsed', doctype='<!DOCTYPE {root} [<!NOTATION n SYSTEM "n"><!ENTITY u SYSTEM "u.gif" NDATA n>]>', refuse=True),
        dict(name='extdtd-system', doctype=f'<!DOCTYPE {{root}} SYSTEM "{ext}">', refuse=True),
        dict(name='extdtd-file', doctype=f'<!DOCTYPE {{root}} SYSTEM "{secret}">', refuse=True),
        dict(name='extdtd-public', doctype='<!DOCTYPE {root} PUBLIC "-//X//Y" "x.dtd">', refuse=True),
        dict(name='extdtd-and-subset', doctype=f'<!DOCTYPE {{root}} SYSTEM "{ext}" [<!ELEMENT x ANY>]>', refuse=True),
        dict(name='xmldecl-internal', xmldecl=True, misc='<!-- c -->\n', doctype='<!DOCTYPE {root} [' + ent + ']>', refuse=True, use='&e;'),
        dict(name='big-comment-entity', xmldecl=True, misc='<!--' + 'x' * big + '-->', doctype='<!DOCTYPE {root} [' + ent + ']>', refuse=True, use='&e;'),
        dict(name='big-doctype-entity', doctype='<!DOCTYPE {root} [' + filler_decls + ent + ']>', refuse=True, use='&e;'),
        dict(name='attr-default-entity', doctype='<!DOCTYPE {root} [' + ent + '<!ATTLIST {root} a CDATA "&e;">]>', refuse=True),
    ]
    for p in P:
        p.setdefault('xmldecl', False)
        p.setdefault('misc', '')
        p.setdefault('doctype', None)
        p.setdefault('refuse', False)
        p.setdefault('use', '')
        # the label by construction
        dt = p['doctype'] or ''
        assert p['refuse'] == ('<!ENTITY' in dt or ' SYSTEM "' in dt.split('[')[0] or ' PUBLIC "' in dt.split('[')[0]), p['name']
    return P


ENCODINGS = ['utf-8', 'utf-8-bom', 'utf-16', 'iso-8859-1']


def render(p: dict, role: str, encoding: str = 'utf-8') -> tuple[str, bytes]:
    """document text and its encoded bytes"""
    if role == 'instance':
        rootname = 'r'
        body = f'<r>t{p["use"]}</r>'
    else:
        rootname = 'xs:schema'
        use = p['use']
        body = (f'<xs:schema xmlns:xs="{XS}"><xs:element name="m{"_" if use else ""}{use}" type="xs:string"/>'
                f'</xs:schema>')
    decl_enc = {'utf-8': None, 'utf-8-bom': None, 'utf-16': 'UTF-16', 'iso-8859-1': 'ISO-8859-1'}[encoding]
    head = ''
    if p['xmldecl'] or decl_enc:
        head = '<?xml version="1.0"' + (f' encoding="{decl_enc}"' if decl_enc else '') + '?>'
    text = head + p['misc'] + (p['doctype'].replace('{root}', rootname) if p['doctype'] else '') + body
    if encoding == 'utf-8':
        data = text.encode('utf-8')
    elif encoding == 'utf-8-bom':
        data = b'\xef\xbb\xbf' + text.encode('utf-8')
    elif encoding == 'utf-16':
        data = text.encode('utf-16')
    else:
        data = text.encode('iso-8859-1')
    return text, data


# channel: (name, needs bytes?, static facts)
CHANNELS = ['text', 'bytes', 'StringIO', 'BytesIO', 'path', 'file-url', 'fileb', 'filet', 'nsraw', 'nsbuf',
            'nsbufreader', 'nstext', 'url-seekable', 'url-nonseekable', 'url-seekable-opener', 'url-nonseekable-opener']
STATIC = {      # (seekable, io kind, has url) of the stream `open()` looks at
    'text': (True, 'other', False), 'bytes': (True, 'buffered', False), 'StringIO': (True, 'other', False),
    'BytesIO': (True, 'buffered', False), 'path': (True, 'buffered', True), 'file-url': (True, 'buffered', True),
    'fileb': (True, 'buffered', False), 'filet': (True, 'other', False), 'nsraw': (False, 'raw', False),
    'nsbuf': (False, 'buffered', False), 'nsbufreader': (False, 'buffered', False), 'nstext': (False, 'other', False),
    'url-seekable': (True, 'other', True), 'url-nonseekable': (False, 'buffered', True),
    'url-seekable-opener': (True, 'other', True), 'url-nonseekable-opener': (False, 'buffered', True),
}


def make_source(ch: str, text: str, data: bytes, path: str, urlpath: str) -> tuple[Any, dict, Any]:
    """returns (source, extra kwargs, closer)"""
    if ch == 'text':
        return text, {}, None
    if ch == 'bytes':
        return data, {}, None
    if ch == 'StringIO':
        return io.StringIO(text), {}, None
    if ch == 'BytesIO':
        return io.BytesIO(data), {}, None
    if ch == 'path':
        return path, {}, None
    if ch == 'file-url':
        return 'file://' + path, {}, None
    if ch == 'fileb':
        f = open(path, 'rb')
        return f, {}, f
    if ch == 'filet':
        f = open(path, 'r', encoding='utf-8')
        return f, {}, f
    if ch == 'nsraw':
        return NSRaw(data), {}, None
    if ch == 'nsbuf':
        return NSBuf(data), {}, None
    if ch == 'nsbufreader':
        return io.BufferedReader(NSRaw(data)), {}, None
    if ch == 'nstext':
        return io.TextIOWrapper(io.BufferedReader(NSRaw(data)), encoding='utf-8'), {}, None
    if ch.startswith('url-'):
        kw = {'opener': STUB_OPENER} if ch.endswith('-opener') else {}
        return HOST + urlpath, kw, None
    raise ValueError(ch)


def applies(mode: str, base: Optional[str]) -> bool:
    """direct reading of the property: always; non-local data under 'nonlocal'; remote data under 'remote'"""
    from xmlschema.utils.urls import is_local_url, is_remote_url
    if mode == 'always':
        return True
    if mode == 'nonlocal':
        return not (base is not None and is_local_url(base))
    if mode == 'remote':
        return base is not None and is_remote_url(base)
    return False


def base_class(base: Optional[str]) -> str:
    from xmlschema.utils.urls import is_local_url, is_remote_url
    if base is None:
        return 'absent'
    return 'local' if is_local_url(base) else 'remote' if is_remote_url(base) else 'neither'


def canon_tree(root: Any) -> str:
    return ET.tostring(root, encoding='unicode')


def run_real(R: str, role: str, ch: str, mode: str, base_arg: Optional[str], text: str, data: bytes,
             fname: str) -> dict:
    """One construction on the real code; returns outcome record."""
    import xmlschema
    from xmlschema import XMLResource, XMLSchema10
    from xmlschema.exceptions import XMLResourceForbidden, XMLResourceOSError, XMLSchemaException
    path = os.path.join(R, fname)
    urlpath = '/' + fname
    Obs.table[urlpath] = data
    Obs.seekable_response = 'nonseekable' not in ch
    kwargs: dict[str, Any] = {'defuse': mode}
    closer = None
    if role == 'included':
        # a clean main schema (given as text) includes the payload through channel path / url
        loc = {'path': path, 'file-url': 'file://' + path}.get(ch, HOST + urlpath)
        src: Any = (f'<xs:schema xmlns:xs="{XS}"><xs:include schemaLocation="{loc}"/>'
                    f'<xs:element name="main" type="xs:string"/></xs:schema>')
        if ch.endswith('-opener'):
            kwargs['opener'] = STUB_OPENER
        if base_arg is not None:
            kwargs['base_url'] = base_arg
    else:
        src, extra, closer = make_source(ch, text, data, path, urlpath)
        kwargs.update(extra)
        if base_arg is not None:
            kwargs['base_url'] = base_arg
    Obs.opens, Obs.served, Obs.defuse_calls, Obs.seeks = [], [], [], []
    out: dict[str, Any] = {'outcome': 'parsed', 'tree': None, 'exc': None}
    with warnings.catch_warnings():
        warnings.simplefilter('ignore')
        Obs.active = True
        try:
            if role == 'instance':
                res = XMLResource(src, **kwargs)
                out['tree'] = canon_tree(res.root)
            else:
                schema = XMLSchema10(src, **kwargs)
                out['tree'] = ','.join(sorted(k for k in schema.maps.elements if not k.startswith('{' + XS)))
        except XMLResourceForbidden as e:
            out['outcome'], out['exc'] = 'forbidden', type(e).__name__
        except XMLResourceOSError as e:
            out['outcome'], out['exc'], out['msg'] = 'oserror', type(e).__name__, str(e)[:80]
        except (XMLSchemaException, ET.ParseError, OSError, UnicodeError) as e:
            out['outcome'], out['exc'], out['msg'] = 'parsed', type(e).__name__, str(e)[:80]   # reached the parser
        except Exception as e:          # noqa
            out['outcome'], out['exc'], out['msg'] = 'FOREIGN', type(e).__name__, str(e)[:80]
        finally:
            Obs.active = False
            if closer is not None:
                closer.close()
    # observations of the payload resource only (for the included role the main text is a separate defuse call)
    calls = list(Obs.defuse_calls)
    out['defuse_calls'] = calls
    out['seeks'] = list(Obs.seeks)
    out['secret_opened'] = any(p.endswith('secret.txt') for p in Obs.opens)
    out['ext_served'] = [u for u in Obs.served if u.endswith('ext.dtd')]
    return out


def observed_plan(out: dict, role: str) -> str:
    calls = out['defuse_calls']
    if role == 'included':
        calls = calls[1:] if calls and out.get('main_defused') else calls
    if not calls:
        if out['outcome'] == 'oserror' and "can't defuse" in out.get('msg', ''):
            return 'refuse'
        return 'no-defuse'
    c = calls[-1] if role == 'included' else calls[0]
    if not c['rewind']:
        return 'second-open'
    if c['seekable']:
        return 'rewind'
    return 'wrap-raw' if c['io'] == 'raw' else 'wrap-buffered' if c['io'] == 'buffered' else 'wrap-other'


def load_known() -> list[dict]:
    try:
        return [e for e in json.load(open(KNOWN_FILE))['findings'] if e.get('status') == 'known']
    except (OSError, ValueError, KeyError):
        return []


def known_match(case: dict, detail: dict) -> Optional[str]:
    """Exact rules of notes/findings/C13.json (all three are refusals with XMLResourceOSError, nothing parsed)."""
    seekable, kind, has_url = STATIC[case['channel']]
    if case['role'] == 'included':
        # C13-F2 seen through xs:include: the OSError of the included resource makes the loader skip the include
        sk = [s for s in detail.get('seeks', []) if s['target'] == 0 and not s['ok']]
        if (case['channel'] == 'url-nonseekable' and not case.get('refuse') and detail.get('outcome') == 'parsed'
                and sk and sk[-1]['pos_before'] > sk[-1]['buf']):
            return 'C13-F2'
        return None
    if detail.get('exc') != 'XMLResourceOSError' or detail.get('outcome') != 'oserror':
        return None
    if seekable:
        return None
    if kind == 'other' and not has_url:
        return 'C13-F3'                                   # non-seekable text stream: can never be defused
    if case.get('refuse'):
        return None                                        # the two below concern clean documents only
    sk = [s for s in detail.get('seeks', []) if s['target'] == 0]
    if kind == 'raw' and not sk:
        return 'C13-F1'                                   # BufferedReader over a non-seekable raw stream, no DefusableReader
    if kind in ('buffered', 'raw') and not case['channel'].endswith('-opener'):
        if sk and sk[-1]['pos_before'] > sk[-1]['buf']:
            return 'C13-F2'                               # scan went beyond the initial buffer
    return None


def evaluate(ctx: Ctx, case: dict, out: dict, reference: Optional[dict], does_apply: bool) -> None:
    """The property on the real code."""
    det = {k: out.get(k) for k in ('outcome', 'exc', 'msg', 'seeks', 'secret_opened', 'ext_served')}
    det['tree'] = (out.get('tree') or '')[:200]

    def fail(what: str) -> None:
        fid = known_match(case, det)
        if fid:
            ctx.known_hit(fid)
        else:
            ctx.failure(what, case, det)

    if out['outcome'] == 'FOREIGN':
        fail('a non-library exception escaped')
        return
    if not does_apply:
        return
    if case['refuse']:
        if out['outcome'] != 'forbidden':
            fail('defusing applies and the document declares an entity / external subset, '
                 'but it was not refused with XMLResourceForbidden')
        if out['secret_opened'] or out['ext_served']:
            ctx.failure('an external identifier was fetched although defusing applies', case, det)
        if out.get('tree') and MARK in out['tree']:
            ctx.failure('an entity was expanded although defusing applies', case, det)
    else:
        if reference is None:
            return
        if out['outcome'] != reference['outcome'] or out.get('tree') != reference.get('tree'):
            det['undefused'] = {'outcome': reference['outcome'], 'tree': (reference.get('tree') or '')[:200]}
            fail('a document without entity declarations is not parsed to the same tree as without defusing')


# ----------------------------------------------------------------------------------------------
# the run
# ----------------------------------------------------------------------------------------------
def explore(ctx: Ctx, drv: Optional[Driver], full: bool) -> None:
    install_observers()
    R = os.path.realpath(tempfile.mkdtemp(prefix='c13-', dir='/tmp'))
    Obs.root = R
    reqs: list = []
    pend: list = []
    try:
        with open(os.path.join(R, 'secret.txt'), 'w') as f:
            f.write('SECRETCONTENT')
        Obs.table = {'/ext.dtd': b'<!ELEMENT x ANY>'}
        import xmlschema
        xmlschema.XMLSchema10(f'<xs:schema xmlns:xs="{XS}"/>')
        BIG = 70000
        P = payloads(R, BIG)
        bases = [None, R, HOST + '/dir/']
        n = 0
        for role in ('instance', 'schema', 'included'):
            chans = CHANNELS if role != 'included' else ['path', 'file-url', 'url-seekable', 'url-nonseekable',
                                                         'url-seekable-opener', 'url-nonseekable-opener']
            for pi, p in enumerate(P):
                encs = ENCODINGS if (p['name'] in ('plain', 'xmldecl', 'internal', 'extdtd-system', 'doctype-decls')) else ['utf-8']
                for enc in encs:
                    text, data = render(p, 'instance' if role == 'instance' else 'schema', enc)
                    fname = f'{role}_{p["name"]}_{enc}.xml'
                    with open(os.path.join(R, fname), 'wb') as f:
                        f.write(data)
                    for ci, ch in enumerate(chans):
                        if enc != 'utf-8' and ch in ('text', 'StringIO', 'filet', 'nstext'):
                            continue        # str channels carry no byte encoding
                        for mi, mode in enumerate(MODES):
                            has_url = STATIC[ch][2] or role == 'included'
                            blist = bases if (full and not has_url) else [bases[(pi + ci + mi) % 3]] if not has_url else [None]
                            for base_arg in blist:
                                n += 1
                                eff_base = base_arg
                                if has_url:
                                    u = {'path': 'file://' + R + '/' + fname, 'file-url': 'file://' + R + '/' + fname}.get(
                                        ch, HOST + '/' + fname)
                                    eff_base = os.path.dirname(u)
                                does_apply = applies(mode, eff_base)
                                case = {'role': role, 'channel': ch, 'mode': mode, 'base': base_class(eff_base),
                                        'payload': p['name'], 'encoding': enc, 'refuse': p['refuse']}
                                out = run_real(R, role, ch, mode, base_arg, text, data, fname)
                                ref = None
                                if does_apply and not p['refuse']:
                                    ref = run_real(R, role, ch, 'never', base_arg, text, data, fname)
                                evaluate(ctx, case, out, ref, does_apply)
                                if role == 'included':
                                    # the main schema is a text source: it is scanned first iff defusing applies to it
                                    out['main_defused'] = applies(mode, base_arg)
                                plan = observed_plan(out, role)
                                ctx.case(case, plan != 'no-defuse', tag=f'role:{role}')
                                ctx.count('plan:' + plan)
                                ctx.count('outcome:' + out['outcome'] + (':' + out['exc'] if out['exc'] else ''))
                                ctx.count('channel:' + ch)
                                ctx.count('mode:' + mode)
                                ctx.count('payload:' + ('refuse' if p['refuse'] else 'clean'))
                                if drv is not None:
                                    seekable, kind, _ = STATIC[ch]
                                    calls = out['defuse_calls'][1:] if (role == 'included' and out['main_defused']) else out['defuse_calls']
                                    if calls and calls[0]['rewind']:
                                        # what open() actually looked at
                                        seekable, kind = calls[0]['seekable'], calls[0]['io']
                                    elif role == 'included':
                                        seekable, kind = STATIC[ch][0], STATIC[ch][1]
                                    sk = [s for s in out['seeks'] if s['target'] == 0]
                                    scan_end, buf_len = (sk[-1]['pos_before'], sk[-1]['buf']) if sk else (0, 65536)
                                    reqs.append({'op': 'plan', 'mode': mode, 'base': base_class(eff_base), 'seekable': seekable,
                                                 'io': kind, 'opener': ch.endswith('-opener'), 'url': has_url,
                                                 'must_refuse': p['refuse'], 'scan_end': scan_end, 'buf_len': buf_len})
                                    res_outcome = out['outcome']
                                    if role == 'included' and calls:
                                        # the loader turns an OSError of an included resource into a skipped include
                                        res_outcome = {'ok': 'parsed', 'XMLResourceForbidden': 'forbidden',
                                                       'XMLResourceOSError': 'oserror'}.get(calls[-1]['result'], out['outcome'])
                                    pend.append((case, {'plan': plan, 'outcome': res_outcome, 'defused': plan != 'no-defuse'}))
        if drv is not None:
            for (case, impl), m in zip(pend, drv.query(reqs)):
                ctx.traces += 1
                if 'err' in m:
                    ctx.mismatch('driver error', case, impl, m)
                elif m['plan'] != impl['plan']:
                    ctx.mismatch('way of defusing chosen by open()', case, impl, m)
                elif m['outcome'] != impl['outcome'] and impl['outcome'] != 'FOREIGN':
                    if (impl['plan'] == 'wrap-raw' and not case['refuse'] and impl['outcome'] == 'oserror'
                            and m['outcome'] == 'parsed' and case['role'] != 'included'):
                        # the model describes the repaired code (notes/fixes/C13-raw-stream-defusable-reader.patch);
                        # on the current tree this disagreement IS the known finding C13-F1 (already counted)
                        ctx.count('correspondence:known-C13-F1')
                        continue
                    ctx.mismatch('outcome of defuse + parse', case, impl, m)
            reader_scripts(ctx, drv)
    finally:
        Obs.active = False
        shutil.rmtree(R, ignore_errors=True)


def synth(n: int) -> bytes:
    return bytes((7 * i + 3) % 251 for i in range(n))


def digest(d: bytes) -> list:
    s = 0
    for x in d:
        s = (s + x) % 65521
    return [len(d), s, d[0] if d else 0, d[-1] if d else 0]


def reader_scripts(ctx: Ctx, drv: Driver) -> None:
    """seeded op-for-op comparison of the real DefusableReader with the model"""
    from xmlschema.utils.streams import DefusableReader
    rng = ctx.rng
    reqs, impls, cases = [], [], []
    for k in range(ctx.pick(300, 3000)):
        size = rng.choice([0, 100, 8192, 8192, 8192, 9000, 10000, 16384]) if rng.random() < 0.93 else 65536
        B = max(size, 8192)
        length = rng.choice([0, 1, 100, B - 1, B, B + 1, 2 * B, rng.randint(0, 3 * B)])
        ops = []
        for _ in range(rng.randint(1, 8)):
            r = rng.random()
            if r < 0.5:
                ops.append(['read', rng.choice([0, 1, 10, 4096, 16364, B, B + 5, rng.randint(0, 2 * B)])])
            elif r < 0.6:
                ops.append(['read', None])
            elif r < 0.85:
                ops.append(['seek', rng.choice([0, 0, 0, 1, B, B + 1, rng.randint(0, 2 * B)])])
            else:
                ops.append(['tell'])
        data = synth(length)
        rd = DefusableReader(NSBuf(data), size)
        outs: list = []
        for op in ops:
            try:
                if op[0] == 'read':
                    outs.append({'d': digest(rd.read(op[1]))})
                elif op[0] == 'seek':
                    outs.append({'at': rd.seek(op[1])})
                else:
                    outs.append({'at': rd.tell()})
            except OSError:
                outs.append('oserror')
                break
        case = {'reader': True, 'size': size, 'len': length, 'ops': ops}
        crossed = any(isinstance(o, dict) and 'at' in o for o in outs) or 'oserror' in outs
        ctx.case(case, crossed, tag='reader-script')
        if 'oserror' in outs:
            ctx.count('reader:oserror')
        reqs.append({'op': 'reader', 'size': size, 'len': length, 'ops': ops})
        impls.append({'buf': rd._buffer_size, 'outs': outs})
        cases.append(case)
    for case, impl, m in zip(cases, impls, drv.query(reqs)):
        ctx.traces += 1
        if m != impl:
            ctx.mismatch('DefusableReader script', case, impl, m)


def translate(ctx: Ctx) -> None:
    from xmlschema.arguments import DEFUSE_MODES
    text = ('/- GENERATED by harness/props/c13.py from xmlschema/arguments.py (DEFUSE_MODES). Do not edit. -/\n'
            'namespace XsVerif.Generated.C13\n'
            'def defuseModes : List String := [' + ', '.join(json.dumps(m) for m in sorted(DEFUSE_MODES)) + ']\n'
            'end XsVerif.Generated.C13\n')
    p = LEAN / 'XsVerif' / 'Generated' / 'C13.lean'
    p.parent.mkdir(exist_ok=True)
    if not p.exists() or p.read_text() != text:
        p.write_text(text)


def run(ctx: Ctx, driver_ok: bool) -> None:
    drv = Driver('drv_c13') if driver_ok else None
    explore(ctx, drv, full=not ctx.quick())
    ctx.extra['exhaustive'] = not ctx.quick()
    ctx.extra['known_findings_file'] = 'notes/findings/C13.json'


def search(ctx: Ctx) -> None:
    if ctx.quick():
        explore(ctx, None, full=True)


def replay(ctx: Ctx, obj: dict) -> int:
    print(json.dumps(obj, indent=1)[:3000])
    case = obj.get('input')
    if not case or 'payload' not in case:
        return 0
    install_observers()
    R = os.path.realpath(tempfile.mkdtemp(prefix='c13-', dir='/tmp'))
    Obs.root = R
    try:
        with open(os.path.join(R, 'secret.txt'), 'w') as f:
            f.write('SECRETCONTENT')
        Obs.table = {'/ext.dtd': b'<!ELEMENT x ANY>'}
        p = [q for q in payloads(R, 70000) if q['name'] == case['payload']][0]
        role, ch, mode = case['role'], case['channel'], case['mode']
        text, data = render(p, 'instance' if role == 'instance' else 'schema', case.get('encoding', 'utf-8'))
        fname = 'replay.xml'
        with open(os.path.join(R, fname), 'wb') as f:
            f.write(data)
        base_arg = {'absent': None, 'local': R, 'remote': HOST + '/dir/'}.get(case['base']) if not (STATIC[ch][2] or role == 'included') else None
        out = run_real(R, role, ch, mode, base_arg, text, data, fname)
        print('REAL CODE:', {k: out[k] for k in ('outcome', 'exc', 'defuse_calls', 'seeks', 'secret_opened', 'ext_served')},
              (out.get('tree') or '')[:120])
        eff = base_arg
        if STATIC[ch][2] or role == 'included':
            eff = os.path.dirname(('file://' + R + '/' + fname) if ch in ('path', 'file-url') else HOST + '/' + fname)
        does_apply = applies(mode, eff)
        ref = run_real(R, role, ch, 'never', base_arg, text, data, fname) if does_apply and not p['refuse'] else None
        print('defusing applies:', does_apply, '| payload must be refused:', p['refuse'])
        try:
            seekable, kind, has_url = STATIC[ch]
            sk = [s for s in out['seeks'] if s['target'] == 0]
            scan_end, buf_len = (sk[-1]['pos_before'], sk[-1]['buf']) if sk else (0, 65536)
            m = Driver('drv_c13').query([{'op': 'plan', 'mode': mode, 'base': base_class(eff), 'seekable': seekable, 'io': kind,
                                          'opener': ch.endswith('-opener'), 'url': has_url or role == 'included',
                                          'must_refuse': p['refuse'], 'scan_end': scan_end, 'buf_len': buf_len}])[0]
            print('MODEL    :', m)
        except Exception as e:      # noqa
            print('model not available:', e)
        evaluate(ctx, case, out, ref, does_apply)
        for f in ctx.failures:
            print('FAILS ON THE REAL CODE:', f['what'], f['detail'])
        return 1 if ctx.failures else 0
    finally:
        shutil.rmtree(R, ignore_errors=True)
