"""
C16 — wildcard namespace constraints behave as sets of allowed names.

Correspondence: every ordered pair of constraints expressible over the pool (exhaustive), for
element and attribute wildcards and both XSD versions; the real objects are built by parsing
XSD text, introspected, and the real `union` / `intersection` / `is_restriction` /
`is_overlap` / `is_namespace_allowed` / `is_matching` are compared with the Lean model
(XsVerif/Model/Wildcard.lean) on a universe of namespaces / names.  End to end: wildcards
computed by schema construction for extensions (union) and attribute-group composition
(intersection) are compared with the model and probed with instance documents.

Property evaluation on the real code (independent of Lean): the set reading itself, on the
universe.
"""
from __future__ import annotations

import itertools
from copy import copy
from typing import Any, Optional

from harness.core import Ctx, Driver

PROPS = 'XsVerif.Props.C16'
AUDIT = 'XsVerif.Audit.C16'
LEAN_TARGETS = ['XsVerif.Props.C16', 'drv_c16']
LEANCHECK = ['XsVerif.Model.Wildcard', 'XsVerif.Props.C16']
RULE = ('every ordered pair of namespace constraints over {absent, tns, urn:a, urn:b} (+##any, ##other; '
        'notNamespace and a notQName family in 1.1), element and attribute wildcards, XSD 1.0 and 1.1; a case '
        'is one (version, kind, constraint a, constraint b, processContents pair); non-trivial = the pair is not '
        '(##any, ##any) and at least one derived operation yields a constraint different from both operands or a '
        'false restriction/overlap verdict; distinct by canonical JSON')
TRUSTED = ['modelled, not verified: XSD parsing of the namespace/notNamespace/notQName attributes is inside the '
           'loop (introspected object compared with the generator\'s intent); ##defined/##definedSibling are '
           'parameters of the theorems and only their bookkeeping (flags) is compared']
ASSUMPTIONS = ['both wildcards of a pair are declared in the same target namespace (hypothesis of the theorems)',
               'the xsi namespace is admitted by every positive constraint (code does so on purpose); set-reading '
               'statements quantify over names outside xsi']

TNS = 'urn:t'
XSI = 'http://www.w3.org/2001/XMLSchema-instance'
POOL = ['', TNS, 'urn:a', 'urn:b']
UNIVERSE = ['', TNS, 'urn:a', 'urn:b', 'urn:fresh', XSI]
QNAMES = [('urn:a', 'x'), ('urn:a', 'y'), (TNS, 'x'), ('', 'x'), ('urn:fresh', 'x'), ('urn:b', 'x')]
PCS = ['strict', 'lax', 'skip']


def attr_token(ns: str) -> str:
    return {'': '##local', TNS: '##targetNamespace'}.get(ns, ns)


def constraints(v11: bool, thorough: bool) -> list[dict]:
    """Intended constraints: {'ns': 'any'|'other'|[...], 'notNs': [...], 'notQ': [[ns,loc]..], 'nd':bool}"""
    out: list[dict] = [{'ns': 'any'}, {'ns': 'other'}]
    for r in range(len(POOL) + 1):
        for sub in itertools.combinations(POOL, r):
            out.append({'ns': list(sub)})
    if v11:
        for r in range(1, len(POOL) + 1):
            for sub in itertools.combinations(POOL, r):
                out.append({'ns': [], 'notNs': list(sub)})
        # notQName family (names must lie in namespaces the constraint allows, else parse error)
        extra = [
            {'ns': 'any', 'notQ': [['urn:a', 'x']]},
            {'ns': 'any', 'notQ': [['urn:a', 'x'], [TNS, 'x']]},
            {'ns': 'other', 'notQ': [['urn:a', 'x']]},
            {'ns': ['urn:a', 'urn:b'], 'notQ': [['urn:a', 'x'], ['urn:b', 'x']]},
            {'ns': ['', 'urn:a'], 'notQ': [['', 'x']]},
            {'ns': [], 'notNs': ['urn:b'], 'notQ': [['urn:a', 'x']]},
            {'ns': [], 'notNs': ['', TNS], 'notQ': [['urn:a', 'y'], ['urn:fresh', 'x']]},
            {'ns': 'any', 'nd': True},
            {'ns': 'any', 'nd': True, 'notQ': [['urn:a', 'x']]},
        ]
        out.extend(extra)
    for c in out:
        c.setdefault('notNs', [])
        c.setdefault('notQ', [])
        c.setdefault('nd', False)
    return out


def xsd_attrs(c: dict) -> str:
    parts = []
    if c['notNs']:
        parts.append('notNamespace="%s"' % ' '.join(attr_token(n) for n in c['notNs']))
    elif c['ns'] == 'any':
        parts.append('namespace="##any"')
    elif c['ns'] == 'other':
        parts.append('namespace="##other"')
    else:
        parts.append('namespace="%s"' % ' '.join(attr_token(n) for n in c['ns']))
    nq = []
    for ns, loc in c['notQ']:
        nq.append({'': loc, TNS: 't:' + loc, 'urn:a': 'a:' + loc, 'urn:b': 'b:' + loc,
                   'urn:fresh': 'f:' + loc}[ns])
    if c['nd']:
        nq.append('##defined')
    if nq:
        parts.append('notQName="%s"' % ' '.join(nq))
    return ' '.join(parts)


HEAD = ('<xs:schema xmlns:xs="http://www.w3.org/2001/XMLSchema" targetNamespace="urn:t" '
        'xmlns:t="urn:t" xmlns:a="urn:a" xmlns:b="urn:b" xmlns:f="urn:fresh" elementFormDefault="qualified">\n')


def build_units(cs: list[dict], v11: bool):
    """One schema declaring every constraint as element and attribute wildcard, for each pc."""
    import xmlschema
    cls = xmlschema.XMLSchema11 if v11 else xmlschema.XMLSchema10
    body = []
    for i, c in enumerate(cs):
        for pc in PCS:
            body.append(f'<xs:complexType name="W{i}_{pc}"><xs:sequence><xs:any {xsd_attrs(c)} '
                        f'processContents="{pc}"/></xs:sequence>'
                        f'<xs:anyAttribute {xsd_attrs(c)} processContents="{pc}"/></xs:complexType>')
    schema = cls(HEAD + '\n'.join(body) + '</xs:schema>')
    return schema


def introspect(w: Any) -> Optional[dict]:
    ns = set(w.namespace)
    if ns == {'##any'}:
        nsv: Any = 'any'
    elif ns == {'##other'}:
        nsv = 'other'
    elif any(x.startswith('##') for x in ns):
        return None     # malformed set (cannot be produced by a correct operation)
    else:
        nsv = sorted(ns)
    notq = []
    nd = nsib = False
    for x in (w.not_qname or ()):
        if x == '##defined':
            nd = True
        elif x == '##definedSibling':
            nsib = True
        elif x.startswith('{'):
            n, loc = x[1:].split('}')
            notq.append([n, loc])
        else:
            notq.append(['', x])
    return {'ns': nsv, 'notNs': sorted(w.not_namespace or ()), 'notQ': sorted(notq), 'nd': nd,
            'nsib': nsib, 'tns': w.target_namespace}


def canon(d: Optional[dict]) -> Optional[dict]:
    if d is None:
        return None
    return {k: d[k] for k in ('ns', 'notNs', 'notQ', 'nd', 'nsib')}


def qn(q) -> str:
    return '{%s}%s' % (q[0], q[1]) if q[0] else q[1]


def impl_eval(w: Any, tokens_free: bool) -> dict:
    out = {'w': canon(introspect(w)), 'ns': [bool(w.is_namespace_allowed(n)) for n in UNIVERSE]}
    if tokens_free:
        out['q'] = [bool(w.is_matching(qn(q))) for q in QNAMES]
    return out


def den(c: dict, n: str) -> bool:
    """Independent set reading of an *intended* constraint (namespaces outside xsi)."""
    if c['notNs']:
        return n not in c['notNs']
    if c['ns'] == 'any':
        return True
    if c['ns'] == 'other':
        return n != '' and n != c.get('tns', TNS)
    return n in c['ns']


def den_q(c: dict, q) -> bool:
    return den(c, q[0]) and list(q) not in [list(x) for x in c['notQ']]


NOXSI = [i for i, n in enumerate(UNIVERSE) if n != XSI]


def pair_case(ctx: Ctx, v11: bool, kind: str, i: int, j: int, ca: dict, cb: dict, wa: Any, wb: Any,
              pa: str, pb: str, reqs: list, pend: list) -> None:
    from xmlschema.exceptions import XMLSchemaValueError
    tokens_free = not (ca['nd'] or cb['nd'])
    case = {'v': '1.1' if v11 else '1.0', 'kind': kind, 'a': ca, 'b': cb, 'pa': pa, 'pb': pb}
    ia, ib = introspect(wa), introspect(wb)
    # parsing glue: intended vs built
    for c, intro in ((ca, ia), (cb, ib)):
        want = {'ns': c['ns'] if isinstance(c['ns'], str) else sorted(c['ns']), 'notNs': sorted(c['notNs']),
                'notQ': sorted(c['notQ']), 'nd': c['nd'], 'nsib': False}
        if canon(intro) != want:
            ctx.failure('parsed wildcard differs from the declared constraint', case, {'built': intro, 'declared': want})
    impl: dict = {'a': impl_eval(wa, tokens_free), 'b': impl_eval(wb, tokens_free)}
    u = copy(wa)
    try:
        u.union(wb)
        impl['union'] = impl_eval(u, tokens_free)
    except XMLSchemaValueError:
        impl['union'] = None
    x = copy(wa)
    x.intersection(wb)
    impl['inter'] = impl_eval(x, tokens_free)
    impl['restr'] = bool(wa.is_restriction(wb))
    if kind == 'element':
        impl['overlap'] = bool(wa.is_overlap(wb))
    # --- the property itself on the real code (set reading over the universe) ---
    A, B = impl['a']['ns'], impl['b']['ns']
    for k in NOXSI:
        if A[k] != den(ca, UNIVERSE[k]) or B[k] != den(cb, UNIVERSE[k]):
            ctx.failure('is_namespace_allowed differs from the set denoted by the constraint', case,
                        {'namespace': UNIVERSE[k]})
            break
    if tokens_free:
        for k, q in enumerate(QNAMES):
            if impl['a']['q'][k] != den_q(ca, q):
                ctx.failure('is_matching differs from the set of names denoted by the constraint', case, {'name': q})
                break
    if impl['union'] is not None:
        U = impl['union']['ns']
        bad = [UNIVERSE[k] for k in NOXSI if U[k] != (A[k] or B[k])]
        if bad:
            ctx.failure('union does not admit exactly the union of both sets', case,
                        {'namespaces': bad, 'union': impl['union']['w']})
        elif tokens_free:
            badq = [q for k, q in enumerate(QNAMES) if impl['union']['q'][k] != (impl['a']['q'][k] or impl['b']['q'][k])]
            if badq:
                ctx.failure('union does not admit exactly the names admitted by either wildcard', case,
                            {'names': badq, 'union': impl['union']['w']})
    elif v11:
        ctx.failure('union refused in XSD 1.1 (every union is expressible)', case)
    X = impl['inter']['ns']
    bad = [UNIVERSE[k] for k in NOXSI if X[k] != (A[k] and B[k])]
    if bad:
        ctx.failure('intersection does not admit exactly the intersection of both sets', case,
                    {'namespaces': bad, 'intersection': impl['inter']['w']})
    elif tokens_free:
        badq = [q for k, q in enumerate(QNAMES) if impl['inter']['q'][k] != (impl['a']['q'][k] and impl['b']['q'][k])]
        if badq:
            ctx.failure('intersection does not admit exactly the names admitted by both', case, {'names': badq})
    if impl['restr']:
        bad = [UNIVERSE[k] for k in NOXSI if A[k] and not B[k]]
        if bad:
            ctx.failure('accepted as a restriction but admits a namespace the base does not', case, {'namespaces': bad})
        elif tokens_free:
            badq = [q for k, q in enumerate(QNAMES) if impl['a']['q'][k] and not impl['b']['q'][k]]
            if badq:
                ctx.failure('accepted as a restriction but admits a name the base does not', case, {'names': badq})
    if kind == 'element':
        inter = any(A[k] and B[k] for k in NOXSI)
        if impl['overlap'] != inter:
            ctx.failure('is_overlap differs from "the two sets intersect"', case, {'is_overlap': impl['overlap']})
    nontrivial = not (ca['ns'] == 'any' and cb['ns'] == 'any') and (
        (impl['union'] is None) or impl['union']['w'] not in (impl['a']['w'], impl['b']['w'])
        or impl['inter']['w'] not in (impl['a']['w'], impl['b']['w']) or not impl['restr']
        or impl.get('overlap') is False)
    ctx.case(case, nontrivial, tag=f"{case['v']}/{kind}")
    ctx.count('union:' + ('refused' if impl['union'] is None else
                          'any' if impl['union']['w']['ns'] == 'any' else
                          'neg' if impl['union']['w']['notNs'] else 'pos'))
    ctx.count('restr:' + str(impl['restr']))
    if kind == 'element':
        ctx.count('overlap:' + str(impl['overlap']))
    if ia is None or ib is None:
        return
    reqs.append({'a': ia, 'b': ib, 'pa': pa, 'pb': pb, 'v11': v11, 'uni': UNIVERSE,
                 'qs': [list(q) for q in QNAMES]})
    pend.append((case, impl, tokens_free, kind))


def compare(ctx: Ctx, reqs: list, pend: list, drv: Driver) -> None:
    answers = drv.query(reqs)
    for (case, impl, tokens_free, kind), m in zip(pend, answers):
        ctx.traces += 1
        if 'err' in m:
            ctx.mismatch('driver error', case, None, m)
            continue

        def proj(e):
            if e is None:
                return None
            r = {'w': e['w'], 'ns': e['ns']}
            if tokens_free:
                r['q'] = e['q']
            return r
        for key in ('a', 'b', 'union', 'inter'):
            if proj(m[key]) != impl[key]:
                ctx.mismatch(f'{key} ({kind})', case, impl[key], proj(m[key]))
        if m['restr'] != impl['restr']:
            ctx.mismatch('is_restriction', case, impl['restr'], m['restr'])
        if kind == 'element' and m['overlap'] != impl['overlap']:
            ctx.mismatch('is_overlap', case, impl['overlap'], m['overlap'])


def unit_level(ctx: Ctx, drv: Optional[Driver]) -> None:
    for v11 in (False, True):
        cs = constraints(v11, not ctx.quick())
        schema = build_units(cs, v11)
        pcs_pairs = [(PCS[0], PCS[0])]
        reqs: list = []
        pend: list = []
        for kind in ('element', 'attribute'):
            for i, ca in enumerate(cs):
                for j, cb in enumerate(cs):
                    # all nine processContents pairs on a diagonal stripe, strict/strict elsewhere
                    pairs = list(itertools.product(PCS, PCS)) if (i + j) % 7 == 0 or not ctx.quick() else pcs_pairs
                    for pa, pb in pairs:
                        ta = schema.types[f'W{i}_{pa}']
                        tb = schema.types[f'W{j}_{pb}']
                        wa = ta.content[0] if kind == 'element' else ta.attributes[None]
                        wb = tb.content[0] if kind == 'element' else tb.attributes[None]
                        pair_case(ctx, v11, kind, i, j, ca, cb, wa, wb, pa, pb, reqs, pend)
        if drv is not None:
            compare(ctx, reqs, pend, drv)


def end_to_end(ctx: Ctx, drv: Optional[Driver]) -> None:
    """Wildcards computed by schema construction: extension (union), attribute groups (intersection)."""
    import xmlschema
    for v11 in (False, True):
        cls = xmlschema.XMLSchema11 if v11 else xmlschema.XMLSchema10
        cs = [c for c in constraints(v11, False)]
        idx = list(range(len(cs)))
        pairs = [(i, j) for i in idx for j in idx]
        if ctx.quick():
            pairs = ctx.rng.sample(pairs, min(len(pairs), 250))
        body = []
        for i, c in enumerate(cs):
            body.append(f'<xs:complexType name="B{i}"><xs:anyAttribute {xsd_attrs(c)} processContents="skip"/></xs:complexType>')
            body.append(f'<xs:attributeGroup name="G{i}"><xs:anyAttribute {xsd_attrs(c)} processContents="skip"/></xs:attributeGroup>')
        for i, j in pairs:
            body.append(f'<xs:complexType name="D{i}_{j}"><xs:complexContent><xs:extension base="t:B{i}">'
                        f'<xs:anyAttribute {xsd_attrs(cs[j])} processContents="skip"/></xs:extension>'
                        f'</xs:complexContent></xs:complexType>')
            body.append(f'<xs:complexType name="I{i}_{j}"><xs:attributeGroup ref="t:G{i}"/>'
                        f'<xs:attributeGroup ref="t:G{j}"/></xs:complexType>')
            body.append(f'<xs:element name="d{i}_{j}" type="t:D{i}_{j}"/><xs:element name="i{i}_{j}" type="t:I{i}_{j}"/>')
        schema = cls(HEAD + '\n'.join(body) + '</xs:schema>', validation='lax')
        prefixes = {'': None, TNS: 't', 'urn:a': 'a', 'urn:b': 'b', 'urn:fresh': 'f'}
        for i, j in pairs:
            ca, cb = cs[i], cs[j]
            case = {'v': '1.1' if v11 else '1.0', 'kind': 'end-to-end', 'base/first': ca, 'derived/second': cb}
            tokens_free = not (ca['nd'] or cb['nd'])
            dt = schema.types[f'D{i}_{j}']
            it = schema.types[f'I{i}_{j}']
            wu = dt.attributes.get(None)
            wi = it.attributes.get(None)
            A = [den(ca, n) for n in UNIVERSE]
            B = [den(cb, n) for n in UNIVERSE]
            expressible = v11 or not ((ca['ns'] == 'other' and isinstance(cb['ns'], list) and '' in cb['ns'] and TNS not in cb['ns'])
                                      or (cb['ns'] == 'other' and isinstance(ca['ns'], list) and '' in ca['ns'] and TNS not in ca['ns']))
            ctx.case(case, True, tag=f"{case['v']}/end-to-end")
            if wu is not None and expressible and not dt.errors:
                U = [bool(wu.is_namespace_allowed(n)) for n in UNIVERSE]
                bad = [UNIVERSE[k] for k in NOXSI if U[k] != (A[k] or B[k])]
                if bad:
                    ctx.failure('extension: derived attribute wildcard is not the union of base and own wildcard',
                                case, {'namespaces': bad, 'built': introspect(wu)})
                # instance probes: attribute in each namespace of the universe
                if tokens_free:
                    for k in NOXSI:
                        n = UNIVERSE[k]
                        for loc in ('x', 'y'):
                            if n == '':
                                attr = f'{loc}="1"'
                            else:
                                attr = f'{prefixes[n]}:{loc}="1"'
                            xml = (f'<t:d{i}_{j} xmlns:t="urn:t" xmlns:a="urn:a" xmlns:b="urn:b" '
                                   f'xmlns:f="urn:fresh" {attr}/>')
                            want = den_q(ca, (n, loc)) or den_q(cb, (n, loc))
                            got = schema.is_valid(xml)
                            if got != want:
                                ctx.failure('extension: instance attribute admitted/refused against the union of sets',
                                            case, {'xml': xml, 'valid': got, 'expected': want})
                                break
            elif wu is None and expressible and not dt.errors:
                ctx.failure('extension lost the attribute wildcard', case)
            if wi is not None and not it.errors:
                X = [bool(wi.is_namespace_allowed(n)) for n in UNIVERSE]
                bad = [UNIVERSE[k] for k in NOXSI if X[k] != (A[k] and B[k])]
                if bad:
                    ctx.failure('attribute groups: combined wildcard is not the intersection', case,
                                {'namespaces': bad, 'built': introspect(wi)})
                if tokens_free:
                    for k in NOXSI:
                        n = UNIVERSE[k]
                        attr = 'x="1"' if n == '' else f'{prefixes[n]}:x="1"'
                        xml = (f'<t:i{i}_{j} xmlns:t="urn:t" xmlns:a="urn:a" xmlns:b="urn:b" '
                               f'xmlns:f="urn:fresh" {attr}/>')
                        want = den_q(ca, (n, 'x')) and den_q(cb, (n, 'x'))
                        got = schema.is_valid(xml)
                        if got != want:
                            ctx.failure('attribute groups: instance attribute admitted/refused against the intersection',
                                        case, {'xml': xml, 'valid': got, 'expected': want})
                            break


def cross_namespace(ctx: Ctx, drv: Optional[Driver]) -> None:
    """Wildcards declared in schemas of DIFFERENT target namespaces (`##other` and `##targetNamespace` are
    relative to the declaring schema): every ordered pair (one from each schema), all operations; end to end:
    a type of urn:t extending / composing attribute groups of the imported namespace urn:a."""
    import tempfile
    import os
    import xmlschema
    TNS2 = 'urn:a'
    for v11 in (False, True):
        cls = xmlschema.XMLSchema11 if v11 else xmlschema.XMLSchema10
        cs = [c for c in constraints(v11, False) if not c['nd']]
        cs1 = [dict(c, tns=TNS) for c in cs]
        cs2 = [dict(c, tns=TNS2) for c in cs]
        d = tempfile.mkdtemp(prefix='c16-')
        try:
            def tok2(ns):
                return {'': '##local', TNS2: '##targetNamespace'}.get(ns, ns)

            def attrs2(c):
                # the same intended set, spelled from inside the schema of urn:a
                if c['notNs']:
                    p = 'notNamespace="%s"' % ' '.join(tok2(n) for n in c['notNs'])
                elif c['ns'] in ('any', 'other'):
                    p = 'namespace="##%s"' % c['ns']
                else:
                    p = 'namespace="%s"' % ' '.join(tok2(n) for n in c['ns'])
                if c['notQ']:
                    pm = {'': '', TNS: 't:', 'urn:a': 'a:', 'urn:b': 'b:', 'urn:fresh': 'f:'}
                    p += ' notQName="%s"' % ' '.join(pm[ns] + loc for ns, loc in c['notQ'])
                return p
            body2 = []
            for j, c in enumerate(cs2):
                body2.append(f'<xs:complexType name="W{j}"><xs:sequence><xs:any {attrs2(c)} processContents="skip"/></xs:sequence>'
                             f'<xs:anyAttribute {attrs2(c)} processContents="skip"/></xs:complexType>')
                body2.append(f'<xs:complexType name="A{j}"><xs:anyAttribute {attrs2(c)} processContents="skip"/></xs:complexType>')
                body2.append(f'<xs:attributeGroup name="G{j}"><xs:anyAttribute {attrs2(c)} processContents="skip"/></xs:attributeGroup>')
            with open(os.path.join(d, 'a.xsd'), 'w') as f:
                f.write('<xs:schema xmlns:xs="http://www.w3.org/2001/XMLSchema" targetNamespace="urn:a" xmlns:a="urn:a" '
                        'xmlns:t="urn:t" xmlns:b="urn:b" xmlns:f="urn:fresh">\n' + '\n'.join(body2) + '</xs:schema>')
            body1 = ['<xs:import namespace="urn:a" schemaLocation="a.xsd"/>']
            for i, c in enumerate(cs1):
                body1.append(f'<xs:complexType name="W{i}"><xs:sequence><xs:any {xsd_attrs(c)} processContents="skip"/></xs:sequence>'
                             f'<xs:anyAttribute {xsd_attrs(c)} processContents="skip"/></xs:complexType>')
            pairs = [(i, j) for i in range(len(cs1)) for j in range(len(cs2))
                     if 'other' in (cs1[i]['ns'], cs2[j]['ns']) or TNS in (cs1[i]['ns'] if isinstance(cs1[i]['ns'], list) else [])
                     or (i * 7 + j) % 5 == 0]
            e2e = ctx.rng.sample(pairs, min(len(pairs), ctx.pick(120, 600)))
            for i, j in e2e:
                body1.append(f'<xs:complexType name="D{i}_{j}"><xs:complexContent><xs:extension base="a:A{j}">'
                             f'<xs:anyAttribute {xsd_attrs(cs1[i])} processContents="skip"/></xs:extension>'
                             f'</xs:complexContent></xs:complexType><xs:element name="d{i}_{j}" type="t:D{i}_{j}"/>')
                body1.append(f'<xs:complexType name="I{i}_{j}"><xs:attributeGroup ref="a:G{j}"/>'
                             f'<xs:anyAttribute {xsd_attrs(cs1[i])} processContents="skip"/></xs:complexType>'
                             f'<xs:element name="i{i}_{j}" type="t:I{i}_{j}"/>')
            with open(os.path.join(d, 'main.xsd'), 'w') as f:
                f.write(HEAD + '\n'.join(body1) + '</xs:schema>')
            schema = cls(os.path.join(d, 'main.xsd'), validation='lax')
            s2 = [x for x in schema.maps.iter_schemas() if x.target_namespace == TNS2][0]
            reqs: list = []
            pend: list = []
            for kind in ('element', 'attribute'):
                for i, j in pairs:
                    t1, t2 = schema.types[f'W{i}'], s2.types[f'W{j}']
                    w1 = t1.content[0] if kind == 'element' else t1.attributes[None]
                    w2 = t2.content[0] if kind == 'element' else t2.attributes[None]
                    pair_case(ctx, v11, kind + '/cross-namespace', i, j, cs1[i], cs2[j], w1, w2, 'skip', 'skip', reqs, pend)
                    pair_case(ctx, v11, kind + '/cross-namespace', j, i, cs2[j], cs1[i], w2, w1, 'skip', 'skip', reqs, pend)
            if drv is not None:
                compare(ctx, reqs, pend, drv)
            # end to end
            prefixes = {'': None, TNS: 't', 'urn:a': 'a', 'urn:b': 'b', 'urn:fresh': 'f'}
            for i, j in e2e:
                ca, cb = cs1[i], cs2[j]
                case = {'v': '1.1' if v11 else '1.0', 'kind': 'end-to-end/cross-namespace', 'own (urn:t)': ca,
                        'base/group (urn:a)': cb}
                ctx.case(case, True, tag=f"{case['v']}/end-to-end-cross")
                for nm, op in (('d', 'union'), ('i', 'intersection')):
                    ty = schema.types[f'{nm.upper()}{i}_{j}']
                    w = ty.attributes.get(None)
                    if w is None or ty.errors:
                        continue
                    for k in NOXSI:
                        n = UNIVERSE[k]
                        a_, b_ = den(ca, n), den(cb, n)
                        want = (a_ or b_) if op == 'union' else (a_ and b_)
                        for loc in ('x',):
                            want_q = ((den_q(ca, (n, loc)) or den_q(cb, (n, loc))) if op == 'union'
                                      else (den_q(ca, (n, loc)) and den_q(cb, (n, loc))))
                            attr = f'{loc}="1"' if n == '' else f'{prefixes[n]}:{loc}="1"'
                            xml = (f'<t:{nm}{i}_{j} xmlns:t="urn:t" xmlns:a="urn:a" xmlns:b="urn:b" '
                                   f'xmlns:f="urn:fresh" {attr}/>')
                            got = schema.is_valid(xml)
                            if got != want_q:
                                ctx.failure(f'{op} across target namespaces: instance attribute admitted/refused '
                                            'against the set reading', case, {'xml': xml, 'valid': got, 'expected': want_q})
                                break
        finally:
            import shutil
            shutil.rmtree(d, ignore_errors=True)


def run(ctx: Ctx, driver_ok: bool) -> None:
    drv = Driver('drv_c16') if driver_ok else None
    unit_level(ctx, drv)
    cross_namespace(ctx, drv)
    end_to_end(ctx, drv)
    ctx.extra['exhaustive'] = True
    ctx.extra['universe'] = UNIVERSE
    ctx.extra['explanation'] = ('unit level exhaustive over all ordered constraint pairs; end-to-end '
                                + ('sampled (250 pairs per version)' if ctx.quick() else 'exhaustive'))


def search(ctx: Ctx) -> None:
    """Widen: when a tie broke in the quick tier, evaluate the property on the full thorough family."""
    if ctx.quick():
        saved = ctx.tier
        ctx.tier = 'thorough'
        try:
            unit_level(ctx, None)
            cross_namespace(ctx, None)
            end_to_end(ctx, None)
        finally:
            ctx.tier = saved


def replay(ctx: Ctx, obj: dict) -> int:
    import json
    print(json.dumps(obj, indent=1)[:4000])
    case = obj.get('input')
    if not case or 'a' not in case:
        return 0
    v11 = case['v'] == '1.1'
    cs = [case['a'], case['b']]
    schema = build_units(cs, v11)
    pa, pb = case.get('pa', 'strict'), case.get('pb', 'strict')
    ta, tb = schema.types[f'W0_{pa}'], schema.types[f'W1_{pb}']
    kind = case.get('kind', 'attribute')
    wa = ta.content[0] if kind == 'element' else ta.attributes[None]
    wb = tb.content[0] if kind == 'element' else tb.attributes[None]
    reqs: list = []
    pend: list = []
    pair_case(ctx, v11, kind, 0, 1, cs[0], cs[1], wa, wb, pa, pb, reqs, pend)
    for f in ctx.failures:
        print('FAILS ON THE REAL CODE:', f['what'], f['detail'])
    return 1 if ctx.failures else 0
